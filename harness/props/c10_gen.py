"""C10 helpers: class-table generators, the CPython oracle, the pure-Python pytype runners, program text.

A class table H is a list of base lists; class i is the i-th entry, class 0 is `object` (bases []).
Every user class lists its bases explicitly (`[0]` = `class C(object)` / `class C:`).
"""
import itertools


# ----------------------------------------------------------------------------------------------
# CPython oracle: the running interpreter

def cpython_table(H):
  """Creates the classes of H with type(); returns (mros, failing_index_or_None, message)."""
  classes = [object]
  mros = [[0]]
  for i in range(1, len(H)):
    try:
      c = type("C%d" % i, tuple(classes[b] for b in H[i]), {})
    except TypeError as e:
      return mros, i, str(e)
    classes.append(c)
    idx = {id(k): j for j, k in enumerate(classes)}
    mros.append([idx[id(k)] for k in c.__mro__])
  return mros, None, ""


def enc_table(mros, fail):
  return ([[0]] if fail is None else [[1, fail]]) + [list(m) for m in mros]


# ----------------------------------------------------------------------------------------------
# real pytype, pure Python part (pytype.pytd.mro)

def py_merge(seqs, singletons=()):
  """mro.MROMerge on fresh objects; returns [0]+result or [1] (MROError)."""
  from pytype.pytd import mro

  class K(int):
    pass

  objs = {}
  def ob(x):
    if x not in objs:
      o = K(x)
      if x in singletons:
        o.SINGLETON = True
      objs[x] = o
    return objs[x]
  try:
    out = mro.MROMerge([[ob(x) for x in s] for s in seqs])
  except mro.MROError:
    return [1]
  return [0] + [int(x) for x in out]


def py_table(H):
  """What class_mixin.compute_mro computes per class, using the real mro.MROMerge:
  MROMerge([[self]] + [mro(b) for b in bases] + [bases]); stops at the first MROError."""
  from pytype.pytd import mro
  mros = [[0]]
  merges = []
  for i in range(1, len(H)):
    seqs = [[i]] + [list(mros[b]) for b in H[i]] + [list(H[i])]
    merges.append([list(s) for s in seqs])
    try:
      m = mro.MROMerge(seqs)
    except mro.MROError:
      return mros, i, merges
    mros.append(list(m))
  return mros, None, merges


def pytd_bases_in_mro(H, bases):
  """mro.GetBasesInMRO on hand-built pytd classes; [0]+ids or [1] (MROError)."""
  from pytype.pytd import mro, pytd
  classes = []
  def mk(i, bs):
    return pytd.Class(name="C%d" % i, keywords=(), bases=tuple(pytd.ClassType("C%d" % b, classes[b]) for b in bs),
                      methods=(), constants=(), classes=(), decorators=(), slots=None, template=())
  for i, bs in enumerate(H):
    classes.append(mk(i, bs))
  cls = mk(len(H), bases)
  try:
    out = mro.GetBasesInMRO(cls)
  except mro.MROError:
    return [1]
  return [0] + [int(t.name[1:]) for t in out]


# ----------------------------------------------------------------------------------------------
# generators

def base_tuples(n_existing, max_bases):
  """All ordered base tuples of length 1..max_bases over classes 0..n_existing-1 (repetition allowed)."""
  for k in range(1, max_bases + 1):
    yield from itertools.product(range(n_existing), repeat=k)


def exhaustive(n_user, max_bases, allow_repeats=True):
  """Every table with <= n_user user classes whose proper prefixes are all creatable in CPython and that is
  maximal (n_user classes, or its last class is refused).  Prefixes of a creatable table are covered by it."""
  out = []
  def rec(H):
    n = len(H)
    for bs in base_tuples(n, max_bases):
      if not allow_repeats and len(set(bs)) != len(bs):
        continue
      H2 = H + [list(bs)]
      _, fail, _ = cpython_table(H2)
      if fail is not None:
        out.append(H2)
      elif n == n_user:
        out.append(H2)
      else:
        rec(H2)
  rec([[]])
  return out


def random_table(r, n_user, max_bases=3, p_dup=0.06, p_wild=0.15):
  """Random table: mostly plausible bases (subclasses before superclasses), sometimes arbitrary order,
  sometimes a repeated base.  Not truncated at the first illegal class."""
  H = [[]]
  for i in range(1, n_user + 1):
    k = min(i, r.choice([1, 1, 2, 2, 2, 3, 3, max_bases]))
    if r.random() < p_wild:
      bs = [r.randrange(i) for _ in range(k)]
    else:
      pool = list(range(i))
      # prefer recent classes and avoid object unless alone
      w = [(1 + j) ** 2 if j else 0.5 for j in pool]
      bs = []
      while len(bs) < k and pool:
        j = r.choices(range(len(pool)), weights=w)[0]
        bs.append(pool.pop(j)); w.pop(j)
      if r.random() < 0.7:
        bs.sort(reverse=True)   # a linear extension of "defined later first": usually consistent
    if r.random() < p_dup and bs:
      bs.insert(r.randrange(len(bs) + 1), r.choice(bs))
    H.append(bs)
  return H


def truncate_at_first_failure(H):
  mros, fail, msg = cpython_table(H)
  return (H if fail is None else H[:fail + 1]), mros, fail, msg


def random_seqs(r):
  """Sequence lists for the bare merge: overlapping chains over a small universe, with repeats inside a
  sequence (exercise Dedup), empty sequences, and optionally singleton elements."""
  u = r.randint(1, 7)
  order = list(range(1, u + 1)); r.shuffle(order)
  seqs = []
  for _ in range(r.randint(0, 5)):
    k = r.randint(0, min(u, 5))
    if r.random() < 0.7:
      s = [x for x in order if r.random() < 0.6][:k]      # consistent with one global order
    else:
      s = [r.choice(order) for _ in range(k)]
    if s and r.random() < 0.2:
      s.insert(r.randrange(len(s) + 1), r.choice(s))        # repeat inside a sequence
    seqs.append(s)
  sing = [x for x in order if r.random() < 0.15] if r.random() < 0.35 else []
  return seqs, sing


# ----------------------------------------------------------------------------------------------
# attributes and program text

ATTR_NAMES = ["a", "b", "m"]          # a, b: class attributes; m: method (return type identifies the class)


def random_attrs(r, H):
  """attrs[i] = subset of ATTR_NAMES defined in the body of class i (none for object)."""
  attrs = [[]]
  for i in range(1, len(H)):
    attrs.append([n for n in ATTR_NAMES if r.random() < (0.75 if i == 1 else 0.45)])
  return attrs


def runtime_lookups(H, attrs, mros):
  """For every created class i and attribute name: the defining class per CPython's MRO (or None)."""
  out = {}
  for i in range(1, len(mros)):
    for n in ATTR_NAMES:
      out[(i, n)] = next((c for c in mros[i] if n in attrs[c]), None)
  return out


def class_header(i, bases, style):
  if bases == [0] and style % 2 == 0:
    return "class C%d:" % i
  return "class C%d(%s):" % (i, ", ".join("object" if b == 0 else "C%d" % b for b in bases))


def source_program(H, attrs, lookups, style=0, history=None, fail=None):
  """Returns (text, line_of_class: {i: line}, probes: {var: (i, name, kind)}).
  `history` (list of ops, see random_history) is emitted after the last class CPython creates, i.e. before the
  statement of class `fail` if there is one."""
  lines = []
  for i in range(1, len(H)):
    lines.append("class T%d: pass" % i)
  for op in history or []:
    if op[0] == "A":
      lines.append("class U%d: pass" % op[3])
      if op[2] == "m":
        lines += ["def g%d(self):" % op[3], "  return U%d()" % op[3]]
  cls_line = {}
  probes = {}
  for i in range(1, len(H)):
    if i == fail:
      history_lines(history, lines, probes)
    cls_line[i] = len(lines) + 1
    lines.append(class_header(i, H[i], style))
    body = []
    for n in attrs[i]:
      if n == "m":
        body += ["  def m(self):", "    return T%d()" % i]
      else:
        body.append("  %s = T%d()" % (n, i))
    lines += body or ["  pass"]
    for n in ATTR_NAMES:
      if lookups.get((i, n)) is None:
        continue
      if n == "m":
        v = "q_%d_m" % i
        lines.append("%s = C%d().m()" % (v, i)); probes[v] = (i, n, "call")
      else:
        v = "r_%d_%s" % (i, n)
        lines.append("%s = C%d.%s" % (v, i, n)); probes[v] = (i, n, "class")
        v = "s_%d_%s" % (i, n)
        lines.append("%s = C%d().%s" % (v, i, n)); probes[v] = (i, n, "instance")
  if fail is None:
    history_lines(history, lines, probes)
  return "\n".join(lines) + "\n", cls_line, probes


# ----------------------------------------------------------------------------------------------
# histories: reads interleaved with class-attribute assignments and deletions after class creation
#   ["R", kind, c, n]   h<k> = C<c>.<n> | C<c>().<n> | C<c>().m()      (kind: class / instance / call)
#   ["A", x, n, k]      C<x>.<n> = U<k>()      or  C<x>.m = g<k>  (g<k> returns U<k>())
#   ["D", x, n]         del C<x>.<n>

def history_lines(history, lines, probes):
  k = 0
  for op in history or []:
    if op[0] == "R":
      _, kind, c, n = op
      v = "h_%d" % k; k += 1
      probes[v] = (c, n, kind)
      if kind == "class":
        lines.append("%s = C%d.%s" % (v, c, n))
      elif kind == "instance":
        lines.append("%s = C%d().%s" % (v, c, n))
      else:
        lines.append("%s = C%d().m()" % (v, c))
    elif op[0] == "A":
      _, x, n, u = op
      lines.append("C%d.%s = %s" % (x, n, ("g%d" % u) if n == "m" else ("U%d()" % u)))
    else:
      lines.append("del C%d.%s" % (op[1], op[2]))


def simulate_history(mros, attrs, history, ignore_deletes=False):
  """Replays the ops on the table of own definitions.  Returns None if the history is not executable in CPython
  (deleting an attribute the class does not own, reading a name nobody defines), else a list with, per read, the
  tuple (op index, defs snapshot {class: {name: marker}}, defining class, marker)."""
  defs = {i: {n: "T%d" % i for n in attrs[i]} for i in range(1, len(mros))}
  true_defs = {i: dict(d) for i, d in defs.items()}
  reads = []
  for idx, op in enumerate(history):
    if op[0] == "R":
      _, kind, c, n = op
      if c >= len(mros) or next((k for k in mros[c] if k and n in true_defs[k]), None) is None:
        return None
      d = next((k for k in mros[c] if k and n in defs[k]), None)
      reads.append((idx, {i: dict(v) for i, v in defs.items()}, d, defs[d][n] if d else None))
    elif op[0] == "A":
      _, x, n, u = op
      if x >= len(mros):
        return None
      defs[x][n] = true_defs[x][n] = "U%d" % u
    else:
      _, x, n = op
      if x >= len(mros) or n not in true_defs[x]:
        return None
      del true_defs[x][n]
      if not ignore_deletes:
        del defs[x][n]
  return reads


def random_history(r, mros, attrs, n_ops=None):
  """Mostly: read n through C; change who defines n at an EARLIER / the reader's own / a LATER position of C's MRO
  (assignment with a fresh marker, or deletion of an owned definition); read again through class, instance, call."""
  n_cls = len(mros)
  if n_cls < 2:
    return []
  hist = []
  defs = {i: set(attrs[i]) for i in range(1, n_cls)}
  marker = [0]
  def found(c, n):
    return next((p for p, k in enumerate(mros[c]) if k and n in defs[k]), None)
  def read(c, n):
    if found(c, n) is None:
      return
    kinds = ["call"] if n == "m" else ["class", "instance"]
    for kind in r.sample(kinds, r.randint(1, len(kinds))):
      hist.append(["R", kind, c, n])
  readers = [c for c in range(1, n_cls)]
  weights = [len(mros[c]) ** 2 for c in readers]
  for _ in range(n_ops if n_ops is not None else r.randint(2, 5)):
    c = r.choices(readers, weights=weights)[0]
    n = r.choice(ATTR_NAMES)
    if r.random() < 0.8:
      read(c, n)
    pos = found(c, n)
    chain = [k for k in mros[c] if k]
    k = r.random()
    if pos is not None and pos > 0 and k < 0.5:
      x = chain[r.randrange(pos)]                       # earlier than the current definition (maybe C itself)
    elif k < 0.65:
      x = c
    elif pos is not None and pos + 1 < len(chain) and k < 0.8:
      x = chain[r.randrange(pos + 1, len(chain))]      # later: must not be visible
    else:
      x = r.choice(chain)
    if n in defs[x] and r.random() < 0.3:
      hist.append(["D", x, n]); defs[x].discard(n)
    else:
      marker[0] += 1
      hist.append(["A", x, n, marker[0]]); defs[x].add(n)
    read(c, n)
    if r.random() < 0.4:
      c2 = r.choice(readers)
      read(c2, n)
  return hist


def stub_program(H, attrs, lookups):
  """Returns (pyi_text, source_text, touch_line: {i: line in source}, probes)."""
  pyi = []
  for i in range(1, len(H)):
    pyi.append("class T%d: ..." % i)
  for i in range(1, len(H)):
    pyi.append(class_header(i, H[i], 1))
    body = []
    for n in attrs[i]:
      if n == "m":
        body.append("    def m(self) -> T%d: ..." % i)
      else:
        body.append("    %s: T%d" % (n, i))
    pyi += body or ["    pass"]
  src = ["import foo"]
  touch = {}
  probes = {}
  for i in range(1, len(H)):
    touch[i] = len(src) + 1
    src.append("k_%d = foo.C%d" % (i, i))
    for n in ATTR_NAMES:
      if lookups.get((i, n)) is None:
        continue
      if n == "m":
        v = "q_%d_m" % i
        src.append("%s = foo.C%d().m()" % (v, i)); probes[v] = (i, n, "call")
      else:
        v = "r_%d_%s" % (i, n)
        src.append("%s = foo.C%d.%s" % (v, i, n)); probes[v] = (i, n, "class")
        v = "s_%d_%s" % (i, n)
        src.append("%s = foo.C%d().%s" % (v, i, n)); probes[v] = (i, n, "instance")
  return "\n".join(pyi) + "\n", "\n".join(src) + "\n", touch, probes


def run_in_cpython(text):
  """Executes a generated source program; returns ({var: type name}, TypeError message or None, failing class)."""
  ns = {}
  err = None
  try:
    exec(compile(text, "<c10>", "exec"), ns)  # generated by this module only
  except TypeError as e:
    err = str(e)
  out = {}
  for k, v in ns.items():
    if k[:2] in ("r_", "s_", "q_", "h_"):
      out[k] = type(v).__name__
  return out, err
