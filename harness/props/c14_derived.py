"""C14d -- user classes deriving from a builtin head (class M(int), class L(list), class D(dict) ...), with and
without overriding dunders: class tables, statements, and the evaluation of the Coq model (coq/Ops/Derived.v:
mk_table_d / user_cls_d under the dispatchers of coq/Ops/Model.v).

A class table here is the format of c14_gen (name, bases, dunders, cattrs, init) plus "root": the id of the builtin
head the class derives from (every base of a class has the same root), or None for a plain class.
"""
import re

import common
import c14_gen as g

ROOTS = [1, 8, 10, 3, 5, 9, 11]          # int list dict float str tuple set   (the first three: always present)
KINDS = ("bin", "sub", "neg", "call", "attr", "mcall")


def fixed_classes():
  """int / list / dict, each without any override, overriding a forward dunder, overriding a reflected dunder,
  a subclass of the overriding class; one plain class next to them."""
  A, R, S = 0, 1, 2
  return [
      dict(name="DI", bases=[], root=1, dunders={}, cattrs=[("ca", "int")], init=None),
      dict(name="DIF", bases=[], root=1, dunders={A: "all", g.NEG: "all", 4: []}, cattrs=[], init=None),
      dict(name="DIR", bases=[], root=1, dunders={R: "all", 3: "all"}, cattrs=[("meth", "meth")], init=None),
      dict(name="DIS", bases=[1], root=1, dunders={R: "all", 5: "all"}, cattrs=[], init=None),
      dict(name="DL", bases=[], root=8, dunders={}, cattrs=[], init=None),
      dict(name="DLO", bases=[], root=8, dunders={g.GETITEM: "all", A: "all", g.CALL: "all"}, cattrs=[], init=None),
      dict(name="DLR", bases=[4], root=8, dunders={R: "all", 5: "all"}, cattrs=[], init=None),
      dict(name="DD", bases=[], root=10, dunders={}, cattrs=[("cb", "int")], init=None),
      dict(name="DDO", bases=[], root=10, dunders={g.GETITEM: "all", 21: "all", 20: []}, cattrs=[], init=None),
      dict(name="DP", bases=[], root=None, dunders={A: "all", R: "all", S: []}, cattrs=[], init=None),
  ]


def random_classes(r, n):
  """Random table: every class is a fresh root class `class Ui(int)`, a subclass of earlier classes with one common
  root (C3 permitting), or (one in five) a plain class."""
  out = []
  roots = ROOTS[:3] + [r.choice(ROOTS[3:])]
  for i in range(n):
    z = r.random()
    cands = [j for j in range(i) if out[j]["root"] is not None]
    if z < 0.2:
      root, bases = None, []
    elif z < 0.55 or not cands:
      root, bases = r.choice(roots), []
    else:
      b0 = r.choice(cands)
      root = out[b0]["root"]
      same = [j for j in cands if out[j]["root"] == root and j != b0]
      bases = [b0] + (r.sample(same, 1) if same and r.random() < 0.3 else [])
      if not g._c3_ok(out, bases):      # pylint: disable=protected-access
        bases = [b0]
    dn = {}
    pool = [0, 1, 0, 1, 2, 3, 4, 5, 6, 7, 10, 11, 18, 19, 20, 21, g.GETITEM, g.GETITEM, g.NEG, g.CALL]
    for d in r.sample(pool, r.choice([0, 0, 1, 2, 3, 4])):
      z = r.random()
      if d >= 2 * g.N_BIN or z < 0.7:
        dn[d] = "all"
      elif z < 0.85:
        dn[d] = []
      else:
        dn[d] = sorted(r.sample(range(g.NB + n), r.randint(1, 4)))
    if bases and r.random() < 0.5:
      # make the option order observable: this class overrides the reflected dunder of an operator
      dn[2 * r.choice([0, 0, 1, 2, 5, 10]) + 1] = "all"
    cattrs = list(dict((f"c{r.randrange(3)}", r.choice(["int", "meth"])) for _ in range(r.choice([0, 1, 1]))).items())
    out.append(dict(name=f"U{i}", bases=bases, root=root, dunders=dn, cattrs=cattrs, init=None))
  return out


def looks(classes, mros):
  """Lookup chains: the linearisation without the trailing `object` for a derived class (the regenerated row of
  the builtin head is flattened).  Fail closed on a shape the model does not have."""
  out = []
  for c, m in zip(classes, mros):
    if c["root"] is None:
      if m[-1] != 0 or any(k < g.NB for k in m[:-1]):
        raise common.BuildError(f"plain class {c['name']} has the linearisation {m}")
      out.append(m)
    else:
      us = m[:-2]
      if m[-2:] != [c["root"], 0] or any(k < g.NB for k in us) or not us:
        raise common.BuildError(f"class {c['name']} derived from {g.HEADS[c['root']][0]} has the linearisation {m}")
      out.append(m[:-1])
  return out


def statements(classes, r, n, full=False):
  """Old statement kinds only (binary operators, subscript, unary minus, call, attribute, method call)."""
  users = list(range(g.NB, g.NB + len(classes)))
  mros = g.user_mro(classes)
  roots = sorted({c["root"] for c in classes if c["root"] is not None})
  partners = sorted(set(roots) | {1, 3, 5, 8})
  used = sorted({d - (d % 2) for c in classes for d in c["dunders"] if d < 2 * g.N_BIN})
  attrs = sorted({a for c in classes for a, _ in c["cattrs"]} | {"zz", "real", "append", "keys"})
  out = []
  seen = set()

  def add(st):
    if st not in seen:
      seen.add(st)
      out.append(dict(st=st, variant=(0, 0), model=True))

  # the statements that observe the option order: left operand's class a (builtin or user) base of the right one's
  for i, m in enumerate(mros):
    refl = sorted({d - 1 for k in m if k >= g.NB for d in classes[k - g.NB]["dunders"] if d < 2 * g.N_BIN and d % 2})
    for a in m[1:]:
      for op in (refl if full else refl[:2]) or ([0] if a else []):
        add(("bin", a, op, g.NB + i))
        add(("bin", g.NB + i, op, a))
  if full:
    for x in users:
      for y in users + partners:
        for op in sorted(set(used) | {0, 2, 4, 6}):
          add(("bin", x, op, y))
          add(("bin", y, op, x))
        add(("sub", x, y))
        add(("sub", y, x))
  for x in users:
    add(("neg", x))
    add(("call", x))
    add(("sub", x, 1))
    add(("sub", x, 5))
  while len(out) < n:
    z = r.random()
    x = r.choice(users)
    y = r.choice(users) if r.random() < 0.4 else (r.choice(partners) if r.random() < 0.8 else r.randrange(g.NB))
    if z < 0.62:
      op = r.choice(used) if used and r.random() < 0.6 else r.choice([0, 2, 4, 6, 2 * r.randrange(g.N_BIN)])
      add(("bin", x, op, y) if r.random() < 0.5 else ("bin", y, op, x))
    elif z < 0.78:
      add(("sub", x, y) if r.random() < 0.6 else ("sub", y, x))
    elif z < 0.9:
      add(("attr", x, r.choice(attrs)))
    else:
      add(("mcall", x, r.choice(attrs)))
  return out


def coq_table(classes, mros, lks, idx, side, self_mro=None):
  rows = []
  for i, c in enumerate(classes):
    mro = mros[i]
    if side == "py" and c["root"] is not None and self_mro is not None and c["root"] not in self_mro:
      mro = [k for k in mro if k != c["root"]]         # pytype's `supercls in subcls.mro` misses this head
    own = []
    for d in sorted(c["dunders"]):
      acc = c["dunders"][d]
      a = "acc_all" if (side == "py" or acc == "all") else f"(acc_only {g.coq_list(acc)})"
      own.append(f"({d}, ({g.coq_bool(d in g.NULLARY and (side == 'py' or acc == 'all'))}, {a}))")
    for a, k in c["cattrs"]:
      own.append(f"({idx[a]}, ({g.coq_bool(k == 'meth')}, acc_all))")
    rows.append(f"  user_cls_d {g.NB + i} {g.coq_list(mro)} {g.coq_list(lks[i])} [{'; '.join(own)}]")
  return "user_table c14_nb [\n" + ";\n".join(rows) + "]"


def coq_stmt(st, idx):
  k = st[0]
  if k == "bin":
    return f"SBin {st[1]} {st[2]} {st[3]}"
  if k == "sub":
    return f"SBin {st[1]} {g.GETITEM} {st[2]}"
  if k == "neg":
    return f"SNeg {st[1]}"
  if k == "call":
    return f"SCall {st[1]}"
  if k == "attr":
    return f"SAttr {st[1]} {idx[st[2]]}"
  if k == "mcall":
    return f"SMcall {st[1]} {idx[st[2]]}"
  raise ValueError(st)


HEADER = ("From Coq Require Import List.\nFrom PV Require Import Ops.Model Generated.C14_Builtins Ops.Derived.\n"
          "Import ListNotations.\n")


def eval_models(mods, idx, self_mro=None):
  """mods: [(classes, [stmt])] -> per module (py codes, c codes), all modules in files of <= 500 statements."""
  files, cur, cur_n, cur_mods = [], [HEADER], 0, []
  for mi, (classes, sts) in enumerate(mods):
    if cur_n and cur_n + len(sts) > 500:
      files.append((f"c14d_cases_{len(files)}", cur, cur_mods))
      cur, cur_n, cur_mods = [HEADER], 0, []
    mros = g.user_mro(classes)
    lks = looks(classes, mros)
    k = len(cur_mods)
    cur += [f"Definition upy{k} : table := " + coq_table(classes, mros, lks, idx, "py", self_mro) + ".",
            f"Definition urt{k} : table := " + coq_table(classes, mros, lks, idx, "rt") + ".",
            f"Definition sts{k} : list stmt := [" + "; ".join(coq_stmt(s, idx) for s in sts) + "].",
            f"Eval vm_compute in (map (fun s => code (run_py (mk_table_d py_rows upy{k}) s)) sts{k}).",
            f"Eval vm_compute in (map (fun s => code (run_c (mk_table_d rt_rows urt{k}) s)) sts{k})."]
    cur_mods.append((mi, len(sts)))
    cur_n += len(sts)
  if cur_mods:
    files.append((f"c14d_cases_{len(files)}", cur, cur_mods))
  res = common.run_cases_parallel([(n, "\n".join(b) + "\n") for n, b, _ in files])
  out = [None] * len(mods)
  for n, _, fm in files:
    ok, txt = res[n]
    if not ok:
      raise common.BuildError("model evaluation failed for %s:\n%s" % (n, txt[-1500:]))
    vals = common.parse_coq_eval(txt)
    if len(vals) != 2 * len(fm):
      raise common.BuildError("unexpected coqc output for %s: %s" % (n, txt[-500:]))
    for k, (mi, cnt) in enumerate(fm):
      both = []
      for side in (0, 1):
        got = [int(t) for t in re.findall(r"\d+", vals[2 * k + side])]
        if len(got) != cnt:
          raise common.BuildError("model printed %d results for %d statements in %s" % (len(got), cnt, n))
        both.append(got)
      out[mi] = tuple(both)
  return out


def modules(r, tier):
  """-> [(tag, classes, recs)]: the fixed table (its cross product in thorough) and random tables."""
  thorough = tier == "thorough"
  fc = fixed_classes()
  mods = []
  recs = statements(fc, r, 200, full=thorough)
  for off in range(0, len(recs), 100):
    mods.append(("derived", fc, recs[off:off + 100]))
  for t in range(12 if thorough else 2):
    cl = random_classes(r, r.randint(3, 6))
    mods.append((f"drand{t}", cl, statements(cl, r, 100)))
  return mods


# ------------------------------------------------------------------------------------------
# vm_utils._overrides(subcls, supercls, attr) starts with `supercls in subcls.mro`, an IDENTITY test on abstract class
# objects.  For some builtin heads the class object of a literal is not the object found in the MRO of a class
# deriving from that head (observed: dict), so _overrides is False there and pytype tries the forward dunder of the
# builtin operand first.  The result type differs from CPython's, the set of options (hence error-ness) does not.
# Observed on the real VM on every run; the pytype-side linearisation handed to the model drops the root for those.

def _overrides_batch(job):
  from pytype import vm_utils  # pylint: disable=import-outside-toplevel
  pre, lines = job
  npre = pre.count("\n")
  seen = {}
  orig = vm_utils._overrides  # pylint: disable=protected-access

  def wrapped(subcls, supercls, attr):
    r = orig(subcls, supercls, attr)
    try:
      from pytype import state as _st  # pylint: disable=import-outside-toplevel,unused-import
      line = subcls.ctx.vm.frame.current_opcode.line - npre - 1
      seen.setdefault(line, []).append(bool(subcls and supercls and supercls in subcls.mro))
    except Exception as e:  # pylint: disable=broad-except
      seen.setdefault(-1, []).append(repr(e))
    return r

  vm_utils._overrides = wrapped  # pylint: disable=protected-access
  try:
    res = g._pytype_batch(job)  # pylint: disable=protected-access
  finally:
    vm_utils._overrides = orig  # pylint: disable=protected-access
  if res[0] != "ok":
    return res
  return ("ok", [seen.get(j, []) for j in range(len(lines))], res[2], seen.get(-1, []))


def probe_self_mro():
  """-> sorted list of root heads B such that, for `class P(B)`, the class of B's literal is in P's MRO as pytype's
  _overrides tests it.  Fail closed when the hook is not reached exactly once per probe."""
  pre = "".join(f"class P{b}_({g.HEADS[b][0]}):\n  def __radd__(self, o): return 0\n" for b in ROOTS)
  lines = [f"a{j} = {g.HEADS[b][1]}; b{j} = P{b}_({g.HEADS[b][1]}); v{j} = (a{j}) + (b{j})" for j, b in enumerate(ROOTS)]
  pool = g._pool()  # pylint: disable=protected-access
  r = pool.apply_async(_overrides_batch, ((pre, lines),)).get(timeout=g.BATCH_TIMEOUT)
  if r[0] != "ok" or r[2] or r[3]:
    raise g.TranslatorError(f"_overrides probe failed: {r!r}"[:400])
  out = []
  for b, seen in zip(ROOTS, r[1]):
    if len(seen) != 1:
      raise g.TranslatorError(f"vm_utils._overrides called {len(seen)} times for the probe of {g.HEADS[b][0]}")
    if seen[0]:
      out.append(b)
  return out
