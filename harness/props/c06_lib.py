"""C06 helpers: the model's type AST on the Python side, translation from/to pytd and Coq, the real
convert -> output round trip driven through a downstream module, and the type generator."""
import os
import re
import shutil

import common

# ---------------------------------------------------------------------------------------------
# class table (must agree with coq/Conv/Model.v: type_id.. and builtin_arity; checked on every run)

BUILTIN = {
    "builtins.type": 1, "builtins.NoneType": 2, "builtins.tuple": 3, "typing.Callable": 4,
    "builtins.object": 5, "builtins.list": 6, "builtins.dict": 7, "builtins.set": 8,
    "builtins.frozenset": 9, "builtins.int": 10, "builtins.str": 11, "builtins.float": 12,
    "builtins.bool": 13, "builtins.bytes": 14, "builtins.complex": 15,
}
ARITY = {1: 1, 2: 0, 3: 1, 4: 2, 5: 0, 6: 1, 7: 2, 8: 1, 9: 1}
TYPE_ID, NONE_ID, TUPLE_ID, CALLABLE_ID, OBJECT_ID = 1, 2, 3, 4, 5
USER_BASE = 32
N_USER = 4                      # classes C0..C3 defined in the upstream stub
SHORT = {v: k.split(".")[-1] for k, v in BUILTIN.items()}


def arity(c):
  return ARITY.get(c, 0)


class Untranslatable(Exception):
  pass


def cls_id(name, user_module="A"):
  name = {"NoneType": "builtins.NoneType", "typing.Tuple": "builtins.tuple", "typing.Type": "builtins.type",
          "typing.List": "builtins.list", "typing.Dict": "builtins.dict"}.get(name, name)
  if name in BUILTIN:
    return BUILTIN[name]
  if "builtins." + name in BUILTIN:
    return BUILTIN["builtins." + name]
  m = re.fullmatch(r"(?:%s\.)?C(\d+)" % re.escape(user_module), name)
  if m and int(m.group(1)) < 64:
    return USER_BASE + int(m.group(1))
  raise Untranslatable("class " + name)


# types are tuples: ("any",) ("nothing",) ("cls", id) ("gen", id, (ps..)) ("tup", (ps..)) ("call", (args..), ret)
# ("union", (ts..)) ("err",)
ANY = ("any",)
NOTHING = ("nothing",)


def from_pytd(t, user_module="A"):
  from pytype.pytd import pytd
  if isinstance(t, pytd.AnythingType):
    return ANY
  if isinstance(t, pytd.NothingType):
    return NOTHING
  if isinstance(t, (pytd.NamedType, pytd.ClassType)):
    return ("cls", cls_id(t.name, user_module))
  if isinstance(t, pytd.TupleType):
    return ("tup", tuple(from_pytd(p, user_module) for p in t.parameters))
  if isinstance(t, pytd.CallableType):
    return ("call", tuple(from_pytd(p, user_module) for p in t.args), from_pytd(t.ret, user_module))
  if isinstance(t, pytd.GenericType):
    return ("gen", cls_id(t.base_type.name, user_module), tuple(from_pytd(p, user_module) for p in t.parameters))
  if isinstance(t, pytd.UnionType):
    return ("union", tuple(from_pytd(p, user_module) for p in t.type_list))
  raise Untranslatable(type(t).__name__ + " " + str(t))


def to_coq(t):
  k = t[0]
  if k == "any":
    return "TAny"
  if k == "nothing":
    return "TNothing"
  if k == "err":
    return "TError"
  if k == "cls":
    return "(TClass %d)" % t[1]
  lst = lambda xs: "[" + "; ".join(to_coq(x) for x in xs) + "]"
  if k == "gen":
    return "(TGeneric %d %s)" % (t[1], lst(t[2]))
  if k == "tup":
    return "(TTuple %s)" % lst(t[1])
  if k == "call":
    return "(TCallable %s %s)" % (lst(t[1]), to_coq(t[2]))
  if k == "union":
    return "(TUnion %s)" % lst(t[1])
  raise ValueError(t)


def def_to_coq(d):
  return "(%s %s)" % ("DAlias" if d[0] == "alias" else "DConst", to_coq(d[1]))


def cls_name(c):
  if c == NONE_ID:
    return "None"
  if c in SHORT:
    return SHORT[c]
  return "C%d" % (c - USER_BASE)


def to_text(t):
  """pyi source text of a type (what a stub would contain)."""
  k = t[0]
  if k == "any":
    return "Any"
  if k == "nothing":
    return "nothing"
  if k == "cls":
    return cls_name(t[1])
  if k == "gen":
    c, ps = t[1], t[2]
    if c == TUPLE_ID and len(ps) == 1:
      return "tuple[%s, ...]" % to_text(ps[0])
    if c == CALLABLE_ID and len(ps) == 2:
      return "Callable[..., %s]" % to_text(ps[1])
    return "%s[%s]" % (cls_name(c), ", ".join(to_text(p) for p in ps))
  if k == "tup":
    return "tuple[%s]" % (", ".join(to_text(p) for p in t[1]) if t[1] else "()")
  if k == "call":
    return "Callable[[%s], %s]" % (", ".join(to_text(p) for p in t[1]), to_text(t[2]))
  if k == "union":
    return "Union[%s]" % ", ".join(to_text(p) for p in t[1])
  raise ValueError(t)


def size(t):
  k = t[0]
  if k in ("any", "nothing", "cls", "err"):
    return 1
  if k == "gen":
    return 1 + sum(size(p) for p in t[2])
  if k == "call":
    return 1 + sum(size(p) for p in t[1]) + size(t[2])
  return 1 + sum(size(p) for p in t[1])


def shape(t, depth=2):
  """coarse shape key used to count distinct non-trivial cases."""
  k = t[0]
  if depth == 0 or k in ("any", "nothing", "err"):
    return k
  if k == "cls":
    return "c%d" % min(t[1], USER_BASE)
  if k == "gen":
    return "g%d(%s)" % (t[1], ",".join(shape(p, depth - 1) for p in t[2]))
  if k == "call":
    return "f(%s)%s" % (",".join(shape(p, depth - 1) for p in t[1]), shape(t[2], depth - 1))
  return k[0] + "(" + ",".join(shape(p, depth - 1) for p in t[1]) + ")"


# ---------------------------------------------------------------------------------------------
# generator

PLAIN = [10, 11, 12, 14, 15, 13]          # int str float bytes complex bool
CONTAINERS = [6, 7, 8, 9]                 # list dict set frozenset


def gen_member(r, depth, dialect, used):
  """a union member with a base class not in `used` (dialect) or anything (wild)."""
  for _ in range(20):
    t = gen_type(r, depth, dialect, pos="member")
    if not dialect:
      return t
    b = base(t)
    if b not in used and t[0] not in ("any", "nothing", "union"):
      used.add(b)
      return t
  return None


def base(t):
  k = t[0]
  if k == "cls" or k == "gen":
    return t[1]
  if k == "tup":
    return TUPLE_ID
  if k == "call":
    return CALLABLE_ID
  return 0


_UNDER_TYPE = [0]       # nesting depth of type[...]: pytype cannot emit `nothing` below it


def gen_type(r, depth, dialect, pos="top"):
  """dialect=True: only types a stub written by pytype can contain (fixed points of Optimize with unrelated
  classes); dialect=False additionally produces everything the pyi parser accepts in this grammar."""
  x = r.random()
  leaf = depth <= 0
  if leaf or x < 0.30:
    y = r.random()
    if y < 0.45:
      return ("cls", r.choice(PLAIN[:5] if dialect else PLAIN))
    if y < 0.65:
      return ("cls", USER_BASE + r.randrange(N_USER))
    if y < 0.72:
      return ("cls", NONE_ID)
    if y < 0.80:
      return ANY if pos != "member" or not dialect else ("cls", 10)
    if y < 0.86 and pos == "param" and not (dialect and _UNDER_TYPE[0]):
      return NOTHING
    if y < 0.94:
      return ("cls", r.choice(CONTAINERS + [TUPLE_ID, CALLABLE_ID]))     # bare generic class
    if not dialect:
      return ("cls", r.choice([TYPE_ID, OBJECT_ID]))
    return ("cls", r.choice(PLAIN[:5]))
  if x < 0.50:
    c = r.choice(CONTAINERS)
    ps = tuple(gen_type(r, depth - 1, dialect, "param") for _ in range(arity(c)))
    if dialect and all(p == ANY for p in ps):
      return ("cls", c)
    return ("gen", c, ps)
  if x < 0.58:
    p = gen_type(r, depth - 1, dialect, "param")
    if dialect and p == ANY:
      return ("cls", TUPLE_ID)
    return ("gen", TUPLE_ID, (p,))
  if x < 0.68:
    return ("tup", tuple(gen_type(r, depth - 1, dialect, "param") for _ in range(r.choice([0, 1, 1, 2, 2, 3]))))
  if x < 0.78:
    n = r.choice([0, 1, 1, 2, 3])
    args = tuple(gen_type(r, depth - 1, dialect, "cparam") for _ in range(n))
    return ("call", args, gen_type(r, depth - 1, dialect, "cparam"))
  if x < 0.82:
    ret = gen_type(r, depth - 1, dialect, "param")
    if dialect and ret == ANY:
      return ("cls", CALLABLE_ID)
    return ("gen", CALLABLE_ID, (ANY, ret))
  if x < 0.90:
    _UNDER_TYPE[0] += 1
    try:
      u = gen_type(r, depth - 1, dialect, "cls")
    finally:
      _UNDER_TYPE[0] -= 1
    if dialect and (u in (ANY, NOTHING) or u == ("cls", TYPE_ID)):
      u = ("cls", USER_BASE)
    return ("gen", TYPE_ID, (u,))
  # union
  n = r.choice([2, 2, 2, 3, 3, 4])
  used = set()
  ms = []
  for _ in range(n):
    m = gen_member(r, depth - 1, dialect, used)
    if m is not None:
      ms.append(m)
  if not dialect and r.random() < 0.3 and ms:
    ms.append(r.choice(ms))                    # duplicate member
  if not dialect and r.random() < 0.15:
    ms.append(ANY)
  if len(ms) < 2:
    return ms[0] if ms else ("cls", 10)
  return ("union", tuple(ms))


# ---------------------------------------------------------------------------------------------
# the real round trip: upstream stub  x_i: T_i  ->  downstream  `from A import x_i as y_i`  ->  y_i's type

PRELUDE = "from typing import Any, Callable, Union\n" + "".join("class C%d: ...\n" % i for i in range(N_USER))


class Recorder:
  """Wraps optimize.Optimize as seen from pytype.io to record the AST handed to it (the pre-Optimize AST)."""

  def __init__(self):
    from pytype import io
    self.io = io
    self.orig = io.optimize.Optimize
    self.last = None

  def __enter__(self):
    def wrapper(node, *a, **k):
      self.last = node
      return self.orig(node, *a, **k)
    self.io.optimize.Optimize = wrapper
    return self

  def __exit__(self, *a):
    self.io.optimize.Optimize = self.orig


def defs_of(ast, names, user_module="A"):
  """{name: ("const"|"alias", ty)} for the requested names of a TypeDeclUnit."""
  out = {}
  for c in ast.constants:
    n = c.name.rsplit(".", 1)[-1]
    if n in names:
      try:
        out[n] = ("const", from_pytd(c.type, user_module))
      except Untranslatable as e:
        out[n] = ("untranslatable", str(e))
  for a in ast.aliases:
    n = a.name.rsplit(".", 1)[-1]
    if n in names:
      try:
        out[n] = ("alias", from_pytd(a.type, user_module))
      except Untranslatable as e:
        out[n] = ("untranslatable", str(e))
  for c in ast.classes:
    n = c.name.rsplit(".", 1)[-1]
    if n in names:
      out[n] = ("untranslatable", "class definition")
  for f in ast.functions:
    n = f.name.rsplit(".", 1)[-1]
    if n in names:
      out[n] = ("untranslatable", "function definition")
  return out


def round_trip(stub_lines, workdir, kind="x"):
  """stub_lines: list of stub source lines declaring x0.. (e.g. 'x0: list[int]' or 'x0 = list[int]').
  Returns (loaded, pre, post, errors): loaded[i] the definition of x_i as the loader resolved it,
  pre[i]/post[i] the definition of y_i before/after Optimize+CanonicalOrdering; errors the downstream log."""
  from pytype import config, io
  shutil.rmtree(workdir, ignore_errors=True)
  os.makedirs(workdir)
  n = len(stub_lines)
  with open(os.path.join(workdir, "A.pyi"), "w") as f:
    f.write(PRELUDE + "\n".join(stub_lines) + "\n")
  src = "".join("from A import x%d as y%d\n" % (i, i) for i in range(n))
  opts = config.Options.create(python_version=(3, 12), pythonpath=workdir, module_name="B")
  with Recorder() as rec:
    ret = io.generate_pyi_ast(src, opts)
    pre_ast = rec.last
  a_ast = ret.context.loader.import_name("A")
  xs = {"x%d" % i for i in range(n)}
  ys = {"y%d" % i for i in range(n)}
  loaded = defs_of(a_ast, xs)
  pre = defs_of(pre_ast, ys)
  post = defs_of(ret.ast, ys)
  errors = [(e.name, e.line, str(e.message)) for e in ret.context.errorlog]
  return ([loaded.get("x%d" % i) for i in range(n)], [pre.get("y%d" % i) for i in range(n)],
          [post.get("y%d" % i) for i in range(n)], errors)


# ---------------------------------------------------------------------------------------------
# shrinking of a failing stub type (the verdict itself is always taken in Coq; this Python copy of
# Model.v's nf / sort_ty is used only to steer the shrinker)

def py_nf(t):
  k = t[0]
  if k == "gen":
    ps = tuple(py_nf(p) for p in t[2])
    if t[1] == TYPE_ID and len(ps) == 1:
      u = ps[0]
      one = lambda e: ("cls", TYPE_ID) if e == ANY else ("gen", TYPE_ID, (e,))
      return ("union", tuple(one(e) for e in u[1])) if u[0] == "union" else one(u)
    return ("cls", t[1]) if all(p == ANY for p in ps) else ("gen", t[1], ps)
  if k == "tup":
    return ("tup", tuple(py_nf(p) for p in t[1]))
  if k == "call":
    return ("call", tuple(py_nf(p) for p in t[1]), py_nf(t[2]))
  if k == "union":
    ms = []
    for m in t[1]:
      n = py_nf(m)
      ms.extend(n[1] if n[0] == "union" else ([] if n == NOTHING else [n]))
    return NOTHING if not ms else ms[0] if len(ms) == 1 else ("union", tuple(ms))
  return t


def py_sort(t):
  k = t[0]
  if k == "gen":
    return ("gen", t[1], tuple(py_sort(p) for p in t[2]))
  if k == "tup":
    return ("tup", tuple(py_sort(p) for p in t[1]))
  if k == "call":
    return ("call", tuple(py_sort(p) for p in t[1]), py_sort(t[2]))
  if k == "union":
    return ("union", tuple(sorted({py_sort(m) for m in t[1]}, key=repr)))
  return t


def py_canon(t):
  return py_sort(py_nf(t))


def subterms(t):
  k = t[0]
  if k == "gen":
    return list(t[2])
  if k in ("tup", "union"):
    return list(t[1])
  if k == "call":
    return list(t[1]) + [t[2]]
  return []


def simplifications(t):
  """smaller candidates: a child alone, or the type with one child replaced by `int` / dropped."""
  out = [c for c in subterms(t) if c not in (ANY, NOTHING)]
  k = t[0]
  leaf = ("cls", 10)
  def rebuild(children):
    if k == "gen":
      return ("gen", t[1], tuple(children))
    if k == "tup":
      return ("tup", tuple(children))
    if k == "union":
      return ("union", tuple(children)) if len(children) >= 2 else None
    return ("call", tuple(children[:-1]), children[-1])
  cs = subterms(t)
  for i, c in enumerate(cs):
    for sub in simplifications(c):
      r = rebuild(cs[:i] + [sub] + cs[i + 1:])
      if r:
        out.append(r)
    if c != leaf and k != "union":
      r = rebuild(cs[:i] + [leaf] + cs[i + 1:])
      if r:
        out.append(r)
    if k in ("tup", "union") or (k == "call" and i < len(cs) - 1):
      r = rebuild(cs[:i] + cs[i + 1:])
      if r:
        out.append(r)
  return out


def shrink_type(t, still_bad, budget_s=20.0):
  import time
  deadline = time.time() + budget_s
  changed = True
  while changed and time.time() < deadline:
    changed = False
    for c in sorted(simplifications(t), key=size):
      if time.time() > deadline:
        break
      if size(c) < size(t) and still_bad(c):
        t = c
        changed = True
        break
  return t
