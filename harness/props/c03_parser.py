"""C03 — tie between the parser model (coq/Directors/Parser.v) and the real pytype/directors/parser.py.

* project(): Python's real `ast` -> the mini tree of the model (node kinds the visitor distinguishes, children in
  the order pytype/ast/visitor.py yields them; nodes without action are spliced out).
* raw_of(): the real tokenizer pass (parser._process_comments) -> the model's raw comment map.
* real_sections(): runs the real visitor and flattens EVERYTHING the Director reads from it into integer sections
  (same layout as Directors/ParserCases.sections); Coq compares (cases.v, vm_compute).
* oracles(): the statements of the parser theorems (Props/C03.v, section "parser") evaluated directly on the real
  visitor's output, independent of the model.
"""
import ast

import c03_model as M


class DataIds:
  """Numbers distinct (tool, data) pairs (dataclass equality of _StructuredComment) and match names."""

  def __init__(self):
    self.ids = {}

  def of(self, tool, data):
    return self.ids.setdefault((tool, data), len(self.ids))


# ----------------------------------------------------------------------------------------------------
# projection of the real ast

NODE_CHILDREN = {            # BaseVisitor._node_children (visit_decorators=True), re-stated independently
    ast.Module: ["body"],
    ast.ClassDef: ["decorator_list", "keywords", "bases", "body"],
    ast.FunctionDef: ["decorator_list", "body", "args", "returns"],
    ast.Assign: ["targets", "value"],
}


def _children(node):
  ks = NODE_CHILDREN.get(node.__class__)
  if ks:
    return [getattr(node, k) for k in ks]
  return [v for _, v in ast.iter_fields(node)]


def _pat(p, names):
  if isinstance(p, ast.MatchAs):
    return ("PAs", None if p.name is None else names.of("name", p.name), None if p.pattern is None else _pat(p.pattern, names))
  return ("POther",)


def _decs(node):
  return [(d.lineno, d.end_lineno) for d in node.decorator_list]


def project_value(v, names):
  if isinstance(v, ast.AST):
    return project_node(v, names)
  if isinstance(v, list):
    out = []
    for x in v:
      out.extend(project_value(x, names))
    return out
  return []


def project_node(n, names):
  kids = []
  for v in _children(n):
    kids.extend(project_value(v, names))
  if isinstance(n, (ast.Call, ast.Compare, ast.Subscript)):
    return [("NCall", n.lineno, n.end_lineno, kids)]
  if isinstance(n, ast.AnnAssign):
    return [("NAnn", n.lineno, n.end_lineno, bool(n.value), kids)]
  if isinstance(n, (ast.Try, getattr(ast, "TryStar", ast.Try))):
    return [("NTry", [(h.type.lineno, h.type.end_lineno) for h in n.handlers if h.type], kids)]
  if isinstance(n, (ast.With, ast.AsyncWith)):
    it = n.items[-1]
    return [("NWith", n.lineno, n.end_lineno, it.optional_vars.end_lineno if it.optional_vars else None,
             it.context_expr.end_lineno, kids)]
  if isinstance(n, ast.Match):
    return [("NMatch", n.lineno, n.end_lineno,
             [(c.pattern.lineno, c.pattern.end_lineno, _pat(c.pattern, names)) for c in n.cases], kids)]
  if isinstance(n, ast.Return):
    return [("NReturn", n.lineno, n.end_lineno, kids)]
  if isinstance(n, ast.ClassDef):
    return [("NClass", n.lineno, _decs(n), kids)]
  if isinstance(n, (ast.FunctionDef, ast.AsyncFunctionDef)):
    f = (n.lineno, n.end_lineno, n.returns.end_lineno if n.returns else None,
         n.args.args[-1].end_lineno if n.args.args else None, n.body[0].lineno, _decs(n))
    return [("NFunc", f, kids)]
  if isinstance(n, ast.stmt):
    if hasattr(n, "body"):
      prev = None
      for name, val in ast.iter_fields(n):
        if name == "body":
          break
        prev = val
      return [("NStmt", n.lineno, prev.end_lineno, kids)]
    return [("NStmt", n.lineno, n.end_lineno, kids)]
  return kids


def project(tree, names):
  return project_value(tree.body, names)


def tree_size(nodes):
  return sum(1 + tree_size(n[-1]) for n in nodes)


# ----------------------------------------------------------------------------------------------------
# Coq text

z = M.z


def zo(x):
  return "None" if x is None else "(Some %s)" % z(x)


def pairs(ps):
  return "[" + "; ".join("(%s, %s)" % (z(a), z(b)) for a, b in ps) + "]"


def pat_text(p):
  if p[0] == "POther":
    return "POther"
  return "(PAs %s %s)" % ("None" if p[1] is None else "(Some %d%%N)" % p[1],
                          "None" if p[2] is None else "(Some %s)" % pat_text(p[2]))


def node_text(n):
  k = n[0]
  kids = "[" + "; ".join(node_text(c) for c in n[-1]) + "]"
  if k in ("NCall", "NStmt", "NReturn"):
    return "%s %s %s %s" % (k, z(n[1]), z(n[2]), kids)
  if k == "NAnn":
    return "NAnn %s %s %s %s" % (z(n[1]), z(n[2]), "true" if n[3] else "false", kids)
  if k == "NTry":
    return "NTry %s %s" % (pairs(n[1]), kids)
  if k == "NWith":
    return "NWith %s %s %s %s %s" % (z(n[1]), z(n[2]), zo(n[3]), z(n[4]), kids)
  if k == "NMatch":
    cs = "[" + "; ".join("(%s, %s, %s)" % (z(a), z(b), pat_text(p)) for a, b, p in n[3]) + "]"
    return "NMatch %s %s %s %s" % (z(n[1]), z(n[2]), cs, kids)
  if k == "NClass":
    return "NClass %s %s %s" % (z(n[1]), pairs(n[2]), kids)
  if k == "NFunc":
    f = n[1]
    return "NFunc (mkF %s %s %s %s %s %s) %s" % (z(f[0]), z(f[1]), zo(f[2]), zo(f[3]), z(f[4]), pairs(f[5]), kids)
  raise ValueError(k)


def raw_text(raw, ids, data_ids):
  rows = []
  for line, cs in raw:
    cc = "; ".join("C %s %s %s %d%%N" % (z(c.line), M.tokenise(c.tool, c.data, ids), "true" if c.open_ended else "false",
                                        data_ids.of(c.tool, c.data)) for c in cs)
    rows.append("(%s, [%s])" % (z(line), cc))
  return "[" + ";\n   ".join(rows) + "]"


def sections_text(secs):
  return "[" + ";\n   ".join("[" + "; ".join(z(x) for x in s) + "]" for s in secs) + "]"


# ----------------------------------------------------------------------------------------------------
# the real parser

class RealParse:
  pass


def real_parse_full(src):
  """Runs the real tokenizer pass and the real visitor.  Raw comments are snapshotted BEFORE the visit (the
  visitor's defaultdict grows while it runs)."""
  from pytype.directors import directors, parser
  st = directors.parse_src(src, (3, 12))
  rp = RealParse()
  rp.ast = st.ast
  rp.raw = [(k, list(v)) for k, v in st.structured_comments.items()]
  v = parser.visit_src_tree(st)
  rp.visitor = v
  rp.raw_after = [k for k in st.structured_comments]
  rp.groups = [(isinstance(lr, parser.Call), lr.start_line, lr.end_line, list(cs))
               for lr, cs in v.structured_comment_groups.items()]
  return rp


def real_sections(rp, data_ids):
  v = rp.visitor
  g = []
  for ic, s, e, cs in rp.groups:
    g += [1 if ic else 0, s, e, len(cs)]
    for c in cs:
      g += [c.line, data_ids.of(c.tool, c.data), 1 if c.open_ended else 0]
  fr = [x for kv in v.function_ranges.items() for x in kv]
  br = v.block_returns
  blocks = [x for b in br._block_ranges for x in (b.start_line, b.end_line)]    # pylint: disable=protected-access
  brs = []
  for start, rets in br:
    brs += [start, len(rets)] + list(rets)
  decs = []
  for line, ds in v.decorators.items():
    decs += [line, len(ds)] + [d[0] for d in ds]
  ms = []
  for m in v.matches.matches:
    ms += [m.start, m.end, len(m.cases)]
    for c in m.cases:
      ms += [c.start, c.end, 0 if c.as_name is None else data_ids.of("name", c.as_name) + 1,
             1 if c.is_underscore else 0, c.match_line]
  return [g, fr, list(br._returns), blocks, brs, decs,    # pylint: disable=protected-access
          [] if v.defs_start is None else [v.defs_start],
          [x for a in v.variable_annotations for x in (a.start_line, a.end_line)],
          [x for a in v.param_annotations for x in (a.start_line, a.end_line)],
          ms, rp.raw_after]


SECTION_NAMES = ["structured_comment_groups", "function_ranges", "returns", "block_ranges", "block_returns",
                 "decorators", "defs_start", "variable_annotations", "param_annotations", "matches",
                 "raw_structured_comments keys"]


def case_parts(rp, ids, data_ids):
  """(raw text, body text, expected sections text, number of mini-tree nodes)."""
  body = project(rp.ast, data_ids)
  return (raw_text(rp.raw, ids, data_ids), "[" + ";\n   ".join(node_text(n) for n in body) + "]",
          sections_text(real_sections(rp, data_ids)), tree_size(body))


IMPORTS = "From PV Require Import Directors.Parser Directors.ParserCases.\n"

HEADER = ("From Coq Require Import ZArith List NArith Bool.\n"
          "From PV Require Import Directors.Model.\n"
          "Import ListNotations.\nOpen Scope Z_scope.\n")


def cases_body(parts):
  """Definitions + one Eval for a list of case_parts; identical trees are defined once."""
  out = [IMPORTS]
  trees = {}
  for i, (raw, body, secs, _) in enumerate(parts):
    if body not in trees:
      trees[body] = "ptree_%d" % len(trees)
      out.append("Definition %s : list node :=\n  %s.\n" % (trees[body], body))
    out.append("Definition pcase_%d : list nat :=\n  check_parse\n  %s\n  %s\n  %s.\n" % (i, raw, trees[body], secs))
  out.append("Eval vm_compute in (bad_parse_cases [%s]).\n" % "; ".join(
      "(%d%%nat, pcase_%d)" % (i, i) for i in range(len(parts))))
  return "".join(out)


def cases_file(parts):
  return HEADER + cases_body(parts)


def parse_bad_term(t):
  """`[(3, [0; 5]); ...]` -> {3: [0, 5]} or None when the term is not of that shape."""
  res = {}
  for m in M.re.finditer(r"\((\d+)(?:%nat)?,\s*\[([^\]]*)\]\)", t):
    res[int(m.group(1))] = [int(x.replace("%nat", "")) for x in m.group(2).split(";") if x.strip()]
  if t.strip() not in ("[]", "nil") and not res:
    return None
  return res


# ----------------------------------------------------------------------------------------------------
# direct oracles on the real visitor's output (no model involved)

IGNORE = M.re.compile(r"^ignore(\[.+\])?$")


def _directive_like(c):
  return (not c.open_ended) and (c.tool == "pytype" or (c.tool == "type" and bool(IGNORE.match(c.data))))


def expected_ranges(tree, all_raw=()):
  """Independent reading of the source: the statement ranges (base requests), call ranges, function ranges and
  return lines the parser is documented to produce, straight from Python's ast (ast.walk, no visiting order)."""
  base, calls, fr, rets = [], [], {}, []
  funcs = []
  for n in ast.walk(tree):
    if isinstance(n, (ast.Call, ast.Compare, ast.Subscript)):
      calls.append((n.lineno, n.end_lineno))
    if isinstance(n, ast.Return):
      rets.append(n.lineno)
    if isinstance(n, (ast.FunctionDef, ast.AsyncFunctionDef, ast.ClassDef)):
      for d in n.decorator_list:
        base.append((d.lineno, d.end_lineno))
    if isinstance(n, (ast.FunctionDef, ast.AsyncFunctionDef)):
      funcs.append(n)
      maybe = n.returns.end_lineno if n.returns else (n.args.args[-1].end_lineno if n.args.args else n.lineno)
      body_line = n.body[0].lineno
      if body_line <= maybe:
        base.append((n.lineno, maybe))
      else:
        tc = [c.line for c in all_raw if c.tool == "type" and c.open_ended and maybe <= c.line < body_line]
        base.append((n.lineno, (min(tc) if tc else body_line) - 1))
    elif isinstance(n, (ast.Try, getattr(ast, "TryStar", ast.Try))):
      base += [(h.type.lineno, h.type.end_lineno) for h in n.handlers if h.type]
    elif isinstance(n, (ast.With, ast.AsyncWith)):
      it = n.items[-1]
      base.append((n.lineno, (it.optional_vars or it.context_expr).end_lineno))
    elif isinstance(n, (ast.If, ast.While)):
      base.append((n.lineno, n.test.end_lineno))
    elif isinstance(n, (ast.For, ast.AsyncFor)):
      base.append((n.lineno, n.iter.end_lineno))
    elif isinstance(n, ast.AnnAssign):
      if n.value:
        base.append((n.lineno, n.end_lineno))
    elif isinstance(n, ast.stmt) and not isinstance(n, (ast.ClassDef, ast.Match, ast.FunctionDef, ast.AsyncFunctionDef)):
      base.append((n.lineno, n.end_lineno))
  return base, calls, funcs, sorted(set(rets))


def oracles(rp):
  """Returns list of (fingerprint, detail) for every statement of the parser theorems that the REAL visitor's
  output violates."""
  out = []
  groups = rp.groups
  base_groups = [(s, e, cs) for ic, s, e, cs in groups if not ic]
  call_groups = [(s, e, cs) for ic, s, e, cs in groups if ic]
  all_raw = [c for _, cs in rp.raw for c in cs]
  # (1) groups sorted by start line
  starts = [s for _, s, _, _ in groups]
  if starts != sorted(starts):
    out.append(("parser-groups-not-sorted", f"start lines {starts[:12]}"))
  # (2) every comment in exactly one statement-range group, whose range contains its line
  for c in all_raw:
    homes = [(s, e) for s, e, cs in base_groups for x in cs if x is c or x == c]
    n_same = sum(1 for x in all_raw if x == c)
    if len(homes) != n_same or any(not (s <= c.line <= e) for s, e in homes):
      out.append(("parser-comment-not-in-exactly-one-statement-range", f"{c} is in statement ranges {homes}"))
      break
  n_grouped = sum(len(cs) for _, _, cs in base_groups)
  if n_grouped != len(all_raw):
    out.append(("parser-statement-groups-not-a-partition", f"{n_grouped} grouped comments, {len(all_raw)} in the source"))
  # (3) every call-range group holds exactly the trailing directive comments of its lines, in order, once
  for s, e, cs in call_groups:
    want = []
    for c in all_raw:
      if s <= c.line <= e and _directive_like(c) and c not in want:
        want.append(c)
    if list(cs) != want:
      out.append(("parser-call-group-content", f"Call({s},{e}) holds lines {[c.line for c in cs]}, "
                  f"expected {[c.line for c in want]}"))
      break
  base_req, call_req, funcs, rets = expected_ranges(rp.ast, all_raw)
  raw_lines = [l for l, cs in rp.raw]
  # (3b) a call range with a comment line inside it has a group
  have = {(s, e) for s, e, _ in call_groups}
  for s, e in call_req:
    if any(s <= l <= e for l in raw_lines) and (s, e) not in have:
      out.append(("parser-call-group-missing", f"Call({s},{e}) has comment lines but no group"))
      break
  # (4) return lines and function ranges are exact
  v = rp.visitor
  if sorted(v.block_returns.all_returns()) != rets:
    out.append(("parser-return-lines", f"{sorted(v.block_returns.all_returns())} vs ast {rets}"))
  want_fr = {}
  for f in funcs:
    st = min([d.lineno for d in f.decorator_list]) if f.decorator_list else f.lineno
    want_fr.setdefault(st, set()).add(f.end_lineno)
  got_fr = dict(v.function_ranges.items())
  if set(got_fr) != set(want_fr) or any(got_fr[k] not in want_fr[k] for k in got_fr):
    out.append(("parser-function-ranges", f"{sorted(got_fr.items())} vs ast {sorted((k, sorted(x)) for k, x in want_fr.items())}"))
  # (6) every statement range with a comment line inside is covered by a statement-range group
  for r in sorted(set(base_req)):
    if r[0] <= r[1] and any(r[0] <= l <= r[1] for l in raw_lines):
      if not any(s <= r[0] and r[1] <= e for s, e, _ in base_groups):
        out.append(("parser-statement-range-not-covered", f"statement range {r} holds a comment line but no statement group covers it"))
        break
  # (7) block ranges are the with statements that are not inside another with (block_depth is never reset), and
  #     block_returns maps each such block's first line to the sorted return lines inside it
  want_blocks = []
  def walk_with(n, depth):
    is_with = isinstance(n, (ast.With, ast.AsyncWith))
    if is_with and depth == 0:
      want_blocks.append((n.lineno, n.end_lineno))
    for ch in ast.iter_child_nodes(n):
      walk_with(ch, depth + (1 if is_with else 0))
  walk_with(rp.ast, 0)
  got_blocks = [(b.start_line, b.end_line) for b in v.block_returns._block_ranges]    # pylint: disable=protected-access
  all_rets = [n.lineno for n in ast.walk(rp.ast) if isinstance(n, ast.Return)]
  want_br = {}
  for bs, be in want_blocks:
    want_br[bs] = sorted(r for r in all_rets if bs <= r <= be)
  if sorted(got_blocks) != sorted(want_blocks) or {k: sorted(x) for k, x in v.block_returns} != \
      {k: x for k, x in want_br.items()} and len({b[0] for b in want_blocks}) == len(want_blocks):
    out.append(("parser-block-returns", f"blocks {sorted(got_blocks)} vs outermost with statements {sorted(want_blocks)}; "
                f"block_returns {dict(v.block_returns)}"))
  # (5) where statement ranges do not overlap each other: a comment's group is the statement range holding its line
  for c in all_raw:
    holding = sorted({r for r in base_req if r[0] <= c.line <= r[1]})
    if len(holding) != 1:
      continue
    r = holding[0]
    others = [q for q in base_req if q != r and not (q[1] < r[0] or r[1] < q[0])]
    if others or any(cs_ == r[0] and ce > r[1] for cs_, ce in call_req):
      continue
    homes = [(s, e) for s, e, cs in base_groups if c in cs]
    if homes and homes[0] != r:
      out.append(("parser-comment-not-in-its-statement-range", f"comment on line {c.line}: statement range {r}, grouped under {homes[0]}"))
      break
  return out


# ----------------------------------------------------------------------------------------------------
# small programs that reach every branch of the visitor (parser leg only: no pytype analysis is run on them)

SHAPES = {
    "async": 'async def af(a,\n             b=g(1,\n                 2)) -> int:\n  async with cm(a,\n                b) as w, cm(\n      1) as v:\n    async for i in rng(\n        3):\n      return await h(i,\n                     2)\n  return 1\n',
    "try": 'try:\n  x = f(1,\n        2)\nexcept (A,\n        B) as e:\n  y = 1\nexcept C: z = 2\nexcept:\n  pass\nelse:\n  w = g(\n      3)\nfinally:\n  v = 4\n',
    "trystar": 'try:\n  x = 1\nexcept* (A,\n         B):\n  y = f(2,\n        3)\n',
    "match": 'def m(x, y):\n  match f(x,\n          y):\n    case [1,\n          2] as p:\n      return 1\n    case {"a": q} as r if g(q,\n                            r):\n      return 2\n    case _ as s:\n      return 3\n    case t:\n      return 4\n    case _:\n      return 5\n',
    "nested-with": 'def w(a):\n  with cm(1) as p:\n    with cm(2,\n            3) as q:\n      if a:\n        return 1\n    def inner():\n      with cm(4):\n        return 2\n      return 3\n  with cm(5):\n    return 4\n  return 5\n',
    "class-decorators": '@deco(1,\n      2)\n@plain\nclass K(Base,\n        metaclass=M(1,\n                    2)):\n  x: int\n  y: int = f(1,\n             2)\n  @staticmethod\n  @deco(\n      3)\n  def meth(a, *, k=g(4,\n                     5)):\n    return a\n',
    "function-type-comment": 'def ft(a,\n       b):\n  # type: (int, int) -> int\n  return a\ndef fu(a, b=f(1,\n              2)):  # trailing\n  # type: (int, int) -> int\n  return b\ndef fv(a=f(1,\n           2,\n  # type: ignore\n           3)):\n  return a\n',
    "semicolons": 'x = (1,\n     2); y = f(3,\n               4); z = 5\nif (x and\n    y): z = g(1,\n              2)\nfor i in rng(2): w = h(i,\n                       3)\nwhile x: x = 0; y = 0\n',
    "signatures": 'def s1(a: int,\n       b: str = "x",\n       *args,\n       c=1,\n       **kw) -> Dict[str,\n                     int]: return {}\ndef s2(\n    a,\n    b,\n):\n  return a\ndef s3(): return 1\ndef s4(*,\n       k=2):\n  pass\ndef s5(a, /, b,\n       ) -> None: pass\n',
    "lambda-calls": 'f = lambda a, b=g(1,\n                  2): h(a,\n                        b)\nv = [k(i,\n       1) for i in rng(3)\n     if i < m(2,\n              3)]\nd = {a[1,\n       2]: b[3:\n             4] for a, b in it}\nt = x if c(1,\n           2) else y\n',
    "misc-stmts": 'import a, b\nfrom c import (d,\n               e)\nglobal_v: int\ndef gs():\n  global gg\n  nonlocal_ok = 1\n  assert f(1,\n           2), "m"\n  del x[1,\n        2]\n  raise E(1,\n          2) from None\n  x += g(3,\n         4)\n  pass\n  yield f(5,\n          6)\ntype_alias = List[\n    int]\n',
    "annassign": 'a: int = f(1,\n           2)\nb: List[\n    int]\nc: int = 3  \nclass Q:\n  d: str = g(\n      "s")\n  e: str\ndef an():\n  f_: int = 1\n  g_: int\n',
    "deep": 'def o1():\n  def o2():\n    @deco(1,\n          2)\n    def o3(a,\n           b):\n      with cm(1):\n        return f(a,\n                 g(b,\n                   h(1,\n                     2)))\n    return o3\n  return o2\nclass C1:\n  class C2:\n    def me(self): return self.x[1][\n        2](3,\n           4)\n',
}

COMMENT_POOL = ["# pytype: disable=wrong-arg-types", "# type: ignore", "# pytype: enable=wrong-arg-types",
                "# type: int", "# pytype: disable=attribute-error,name-error", "# plain comment",
                "# type: ignore[foo]", "# pytype: disable=wrong-arg-types  # pytype: disable=wrong-arg-types",
                "# type: (int) -> int", "# x # type: str", "# pytype: disable=*"]


def shape_variants(r, n_per_shape):
  """(name, text) — each shape as is and with 2-6 comments appended to lines / inserted as stand-alone lines."""
  import c03_progs as P
  out = []
  for name, src in sorted(SHAPES.items()):
    out.append((name, src))
    for j in range(n_per_shape):
      text = src
      for _ in range(r.randint(2, 6)):
        app = P.appendable_lines(text)
        if app and r.random() < 0.7:
          text = P.append_to_line(text, r.choice(app), r.choice(COMMENT_POOL))
        else:
          text = P.insert_line_before(text, r.randint(1, len(text.split("\n"))), r.choice(COMMENT_POOL))
      try:
        ast.parse(text)
      except SyntaxError:
        continue
      out.append((f"{name}#{j}", text))
  return out


def base_groups_disjoint(rp):
  """Hypothesis of parser_comment_in_own_statement_partial, evaluated on the real output (statistics only)."""
  b = sorted((s, e) for ic, s, e, _ in rp.groups if not ic)
  return all(b[i][1] < b[i + 1][0] for i in range(len(b) - 1))
