"""C19 — the whole-project build plan orders every analysis after the stubs it reads.

Proof: coq/Props/C19.v over the model coq/Plan/Model.v (get_module_action, yield_sorted_modules,
get_imports_map, setup_build, deps_from_import_graph, escape_ninja_path, ninja's path/value lexer).
Tie: the extracted model and the real PytypeRunner.setup_build run on the same sorted_sources
(exhaustive dependency structures, random ones, adversarial names, real importlab graphs); build.ninja and
the *.imports files are parsed back and compared with the model's plan; the lexer model and the escaping are
validated against the real ninja binary.  A direct oracle interprets the written plan as a graph.
"""
import itertools
import json
import multiprocessing
import os
import shutil
import subprocess
import sys
import time

import common
import c19_lib as L
import c19_text as T

DRIVER = os.path.join(common.VERIF, "harness", "ocaml", "plan_driver.ml")


# ---------------------------------------------------------------------------------------------
# generators

def compositions(n):
  if n == 0:
    yield []
    return
  for k in range(1, n + 1):
    for rest in compositions(n - k):
      yield [k] + rest


def subsets(xs):
  xs = list(xs)
  for r in range(len(xs) + 1):
    yield from itertools.combinations(xs, r)


def structures(n):
  """Every sorted_sources shape over n modules: consecutive groups (size >= 2 = import cycle), each group's
  direct deps any subset of the modules of earlier groups."""
  for comp in compositions(n):
    groups = []
    start = 0
    for c in comp:
      groups.append(list(range(start, start + c)))
      start += c
    choices = [list(subsets(range(g[0]))) for g in groups]
    for combo in itertools.product(*choices):
      yield [[g, list(d)] for g, d in zip(groups, combo)]


def plain_mod(i, kind):
  if kind in ("System", "Builtin"):
    return ["/usr/lib/py/", "s%d.py" % i, "s%d" % i, kind]
  if i % 2:
    return ["/src/", "pkg/m%d.py" % i, "pkg.m%d" % i, kind]
  return ["/src/", "m%d.py" % i, "m%d" % i, kind]


def full_of(m):
  return os.path.join(m[0], m[1])


def exhaustive_cases(n, kinds, lo=0, hi=None):
  for st in itertools.islice(structures(n), lo, hi):
    for kv in itertools.product(kinds, repeat=n):
      mods = [plain_mod(i, k) for i, k in enumerate(kv)]
      fulls = [full_of(m) for m in mods]
      for req in subsets(range(n)):
        yield {"mods": mods, "groups": st, "req": [fulls[i] for i in req]}


def sampled_cases(n, kinds, per_structure, r):
  for st in structures(n):
    for _ in range(per_structure):
      kv = [r.choice(kinds) for _ in range(n)]
      mods = [plain_mod(i, k) for i, k in enumerate(kv)]
      fulls = [full_of(m) for m in mods]
      req = [fulls[i] for i in range(n) if r.random() < 0.4]
      yield {"mods": mods, "groups": st, "req": req}


ADV = ["a", "b", " ", ":", "$", "$x", "${x}", "$$", "::", " $", "c d", "e:f", "g$h", "-", "_", "$ ", "$:"]


def adv_component(r):
  s = "".join(r.choice(ADV) for _ in range(r.randint(1, 3)))
  if s.strip(".") == "" or "/" in s:
    s = "q" + s
  return s


def random_case(r, nmax, adversarial=False, flavour=None):
  n = r.randint(1, nmax)
  # groups
  groups = []
  i = 0
  while i < n:
    k = 1 if r.random() < 0.6 else r.randint(2, 5)
    k = min(k, n - i)
    groups.append(list(range(i, i + k)))
    i += k
  mods = []
  for i in range(n):
    kr = r.random()
    kind = "Local" if kr < 0.6 else "Direct" if kr < 0.7 else "System" if kr < 0.85 else "Builtin"
    if adversarial:
      comp = adv_component(r)
      pk = adv_component(r) if r.random() < 0.3 else None
      path = r.choice(["/src/", "/s p:c$d/", "rel $x/", ""])
      if pk:
        mods.append([path, pk + "/" + comp + ".py", pk + "." + comp, kind])
      else:
        mods.append([path, comp + ".py", comp, kind])
    else:
      m = plain_mod(i, kind)
      t = r.random()
      if kind in ("System", "Builtin") and t < 0.25:
        m = ["/usr/lib/py/", "pytype_extensions/e%d.py" % i, "pytype_extensions.e%d" % i, kind]
      elif t < 0.08:
        m = ["/src/", "p%d/__init__.py" % i, "p%d.__init__" % i, kind]
      elif t < 0.12:
        m = ["/src/", "x/y%d.py" % i, "z.w%d" % i, kind]          # name/target mismatch: fallback output path
      elif t < 0.16:
        m = ["", ".hid/h%d.py" % i, ".hid.h%d" % i, kind]
      elif t < 0.2:
        m = ["rel/", "r%d.py" % i, "r%d" % i, kind]
      mods.append(m)
  # de-duplicate accidental full-path clashes in adversarial mode (collisions are a separate flavour)
  seen = set()
  for i, m in enumerate(mods):
    while (full_of(m)) in seen or (m[2] in {x[2] for x in mods[:i]}):
      m[1] = "u%d" % i + m[1]
      m[2] = "u%d" % i + m[2]
    seen.add(full_of(m))
  out = []
  earlier = []
  for g in groups:
    d = [j for j in earlier if r.random() < min(0.5, 2.0 / max(1, len(earlier)))]
    r.shuffle(d)
    if d and r.random() < 0.15:
      d.append(r.choice(d))                                      # duplicate dependency
    out.append([g, d])
    earlier += g
  fulls = [full_of(m) for m in mods]
  t = r.random()
  if t < 0.1:
    req = list(fulls)
  elif t < 0.15:
    req = []
  else:
    req = [f for f in fulls if r.random() < 0.35]
  if r.random() < 0.1:
    req.append("/elsewhere/not_in_graph.py")
  case = {"mods": mods, "groups": out, "req": req}
  if flavour == "dangling" and n >= 2:
    gi = r.randrange(len(out))
    later = [j for g, _ in out[gi:] for j in g]
    out[gi][1].append(r.choice(later))                           # forward or self reference -> KeyError
  elif flavour == "dup-module" and len(out) >= 2:
    gi = r.randrange(1, len(out))
    out[gi][0].append(r.choice([j for g, _ in out[:gi] for j in g]))
  elif flavour == "same-key" and n >= 2:
    a, b = r.sample(range(n), 2)
    mods[b][1], mods[b][2] = mods[a][1], mods[a][2]
    mods[b][0] = "/other%d/" % b                                  # another root, same module name
  elif flavour == "same-name" and n >= 2:
    a, b = r.sample(range(n), 2)
    mods[a][0], mods[a][1], mods[a][2] = "/src/", "nn/c%d.py" % a, "nn.c%d" % a
    mods[b][0], mods[b][1], mods[b][2] = "/src/", "nn.c%d.py" % a, "nn.c%d" % a   # nn.cK.py vs nn/cK.py
  fulls2 = [full_of(m) for m in mods]
  case["req"] = [fulls2[fulls.index(f)] if f in fulls else f for f in case["req"]]
  return case


# ---------------------------------------------------------------------------------------------
# comparing one batch of cases (runs in a worker)

def structure_key(case):
  return json.dumps([case["groups"], [m[3] for m in case["mods"]],
                     sorted(case["req"])], sort_keys=True)


def cmp_plans(model, impl, check_module=True):
  if model == "ERR" or impl == "ERR":
    return None if model == impl else "model=%s impl=%s" % ("ERR" if model == "ERR" else "plan", "ERR" if impl == "ERR" else "plan")
  mf, ms = model
  jf, js = impl
  if mf != jf:
    return "returned files differ: model %r impl %r" % (mf, jf)
  if len(ms) != len(js):
    return "number of build statements differs: model %d impl %d" % (len(ms), len(js))
  for i, (a, b) in enumerate(zip(ms, js)):
    for k in ("out", "action", "input", "deps", "impfile"):
      if a[k] != b[k]:
        return "statement %d field %s: model %r impl %r" % (i, k, a[k], b[k])
    want_lines = ["%s %s" % tuple(x) for x in a["imports"]]
    if b["import_lines"] != want_lines:
      return "statement %d imports file content: model %r impl %r" % (i, want_lines, b["import_lines"])
    if check_module and a["module"] != b["module"]:
      return "statement %d module: model %r impl %r" % (i, a["module"], b["module"])
  return None


def run_batch(args):
  """cases -> stats.  Runs the extracted model once for the batch, the real setup_build per case."""
  cases, exe, outdir, opts = args
  L.setup()
  if isinstance(cases, tuple):       # ("ex", n, kinds, lo, hi): generate in the worker
    _, n, kinds, lo, hi = cases
    cases = list(exhaustive_cases(n, kinds, lo, hi))
  lines = []
  its = []
  for c in cases:
    ln, it = L.model_line(c)
    lines.append(ln); its.append(it)
  pr = subprocess.run([exe], input="\n".join(lines) + "\n", capture_output=True, text=True)
  if pr.returncode != 0:
    return {"fatal": "model run failed: " + pr.stderr[-1500:]}
  mouts = pr.stdout.split("\n")
  st = {"n": 0, "mismatch": [], "viol": [], "keys": set(), "hist": {}, "samples": []}
  def h(k):
    st["hist"][k] = st["hist"].get(k, 0) + 1
  for c, it, mo in zip(cases, its, mouts):
    st["n"] += 1
    try:
      model = L.decode_model(mo, it, outdir)
      impl = L.run_impl(c, outdir)
    except Exception as e:   # pylint: disable=broad-except
      st["mismatch"].append(("exception while running/reading back the implementation: %r" % (e,), c))
      continue
    wf = L.wf_case(c)
    kinj, ninj = L.injective_case(c)
    d = cmp_plans(model, impl, check_module=not opts.get("adversarial"))
    if d:
      st["mismatch"].append((d, c))
    # classification
    if impl == "ERR":
      h("keyerror")
      if wf:
        st["viol"].append(("keyerror-on-wellformed", "setup_build raised KeyError on well-formed sorted_sources", c))
      continue
    nsteps = len(impl[1])
    cyc = max(len(g) for g, _ in c["groups"]) if c["groups"] else 0
    nmods = len(c["mods"])
    emitted_inputs = {s["input"] for s in impl[1] if isinstance(s["input"], str)}
    skipped = any(L.action_of(c, c["mods"][i]) == "analyse" and full_of(c["mods"][i]) not in emitted_inputs
                  for g, _ in c["groups"] for i in g)
    h("steps=%d" % min(nsteps, 12)); h("maxcycle=%d" % min(cyc, 6)); h("modules=%d" % nmods)
    h("wf" if wf else "not-wf"); h("early-skip" if skipped else "no-skip")
    if not kinj: h("key-collision")
    if not ninj: h("name-collision")
    nontrivial = nsteps >= 2 and any(s["deps"] for s in impl[1])
    st["keys"].add(hash(structure_key(c)) if nontrivial else None)
    if not wf:
      continue            # outside the theorems' hypothesis: correspondence only
    bad = L.oracle(c, outdir, impl)
    if opts.get("count_orders") and nsteps <= 8 and not bad:
      no = L.count_orders(impl)
      h("orders<=1" if no <= 1 else "orders<=10" if no <= 10 else "orders<=100" if no <= 100 else "orders>100")
    for fp, msg in bad:
      st["viol"].append((fp, msg, c))
    if len(st["samples"]) < 2 and nontrivial and cyc >= 2 and nmods <= 4:
      st["samples"].append({"groups": c["groups"], "kinds": [m[3] for m in c["mods"]], "req": c["req"],
                            "plan": [(s["action"], s["out"].replace(outdir, "$O"), [x.replace(outdir, "$O") for x in s["deps"]])
                                     for s in impl[1]]})
  st["viol"] = st["viol"][:40]
  st["mismatch"] = st["mismatch"][:5]
  return st


def run_parallel(batches, exe, root, opts, nproc=4):
  # one output dir per batch index to avoid clashes between concurrently running workers
  args = [(b, exe, os.path.join(root, "b%d" % i), opts) for i, b in enumerate(batches)]
  if nproc <= 1 or len(args) <= 1:
    return [run_batch(a) for a in args]
  ctx = multiprocessing.get_context("fork")
  with ctx.Pool(nproc) as p:
    res = p.map(run_batch, args, chunksize=1)
  return res


def chunks(it, size):
  buf = []
  for x in it:
    buf.append(x)
    if len(buf) >= size:
      yield buf; buf = []
  if buf:
    yield buf


# ---------------------------------------------------------------------------------------------
# shrinking a violating case

def shrink_case(case, fp, outdir, budget_s=20.0):
  deadline = time.time() + budget_s
  def bad(c):
    try:
      if not L.wf_case(c):
        return False
      r = L.run_impl(c, outdir)
      return any(f == fp for f, _ in L.oracle(c, outdir, r)) or (fp == "keyerror-on-wellformed" and r == "ERR")
    except Exception:   # pylint: disable=broad-except
      return False
  def drop_module(c, k):
    mods = [m for i, m in enumerate(c["mods"]) if i != k]
    ren = lambda i: i if i < k else i - 1
    groups = []
    for g, d in c["groups"]:
      g2 = [ren(i) for i in g if i != k]
      d2 = [ren(i) for i in d if i != k]
      if g2:
        groups.append([g2, d2])
    gone = full_of(c["mods"][k])
    return {"mods": mods, "groups": groups, "req": [f for f in c["req"] if f != gone]}
  cur = case
  changed = True
  while changed and time.time() < deadline:
    changed = False
    for k in range(len(cur["mods"]) - 1, -1, -1):
      cand = drop_module(cur, k)
      if cand["mods"] and bad(cand):
        cur = cand; changed = True; break
    if changed:
      continue
    for gi, (g, d) in enumerate(cur["groups"]):
      for di in range(len(d)):
        cand = json.loads(json.dumps(cur))
        del cand["groups"][gi][1][di]
        if bad(cand):
          cur = cand; changed = True; break
      if changed:
        break
    if changed:
      continue
    for ri in range(len(cur["req"])):
      cand = json.loads(json.dumps(cur))
      del cand["req"][ri]
      if bad(cand):
        cur = cand; changed = True; break
  return cur


# ---------------------------------------------------------------------------------------------
# text level: render / parse_build of the model against the real text and the real ninja binary

def codes(s):
  return [str(b) for b in s.encode("utf-8")]


def lenc(s):
  c = codes(s)
  return [str(len(c))] + c


def detect_module_escaping(outdir):
  """Is `module = ...` written escaped (fixed tree) or raw (the code as found)?"""
  c = {"mods": [["/src/", "a$b.py", "a$b", "Local"]], "groups": [[[0], []]], "req": ["/src/a$b.py"]}
  L.run_impl(c, outdir)
  txt = open(os.path.join(outdir, "build.ninja")).read()
  if "  module = a$$b\n" in txt:
    return True
  if "  module = a$b\n" in txt:
    return False
  return None


def text_leg(res, exe, root, r, n_cases):
  """Adversarial names: statement text == model render; model parse_build reads it back; the real ninja binary's
  view (targets/query/commands with a dummy rule) == expected strings; *.imports through the real reader."""
  S = L.setup()
  outdir = os.path.join(root, "o $x:y d")          # the output directory itself needs escaping
  esc_mod = detect_module_escaping(os.path.join(root, "probe"))
  res.extra["module_binding_escaped"] = esc_mod
  res.obligation("correspondence:module-binding-variant-recognised", esc_mod is not None,
                 "write_build_statement writes the module binding neither raw nor escaped")
  n_stmt = n_bad = n_view = n_unreadable = 0
  viol = []
  charhist = {" ": 0, ":": 0, "$": 0}
  keyspace = 0
  tcases = [c for c in (random_case(r, 6, adversarial=True) for _ in range(n_cases)) if L.wf_case(c)]
  mlines = [L.model_line(c) for c in tcases]
  mouts = subprocess.run([exe], input="\n".join(l for l, _ in mlines) + "\n", capture_output=True,
                         text=True).stdout.split("\n")
  pending = []          # (msteps, texts, first line index) for the batched render / parse_build run
  rb_lines = []
  for c, (ln, it), mo in zip(tcases, mlines, mouts):
    impl = L.run_impl(c, outdir)
    if impl == "ERR":
      continue
    model = L.decode_model(mo, it, outdir)
    d = cmp_plans(model, impl, check_module=False)
    if d:
      n_bad += 1
      if n_bad <= 3:
        res.obligation("correspondence:adversarial-structure", False, d + " case=" + json.dumps(c)[:600])
      for fp, msg in L.oracle(c, outdir, impl):       # what does the property say about the implementation here?
        viol.append((fp, msg, c))
      continue
    texts = L.statements_text(outdir)
    _, msteps = model
    if len(texts) != len(msteps):
      n_bad += 1
      res.obligation("correspondence:adversarial-text-count", False, "%d statements vs %d" % (len(texts), len(msteps)))
      continue
    # model render and parse_build of the real text (run in one batch after the loop)
    lines = []
    for s in msteps:
      toks = ["R", "1" if esc_mod else "0"] + lenc(s["out"]) + lenc(s["action"]) + lenc(s["input"])
      toks += [str(len(s["deps"]))] + [t for dd in s["deps"] for t in lenc(dd)]
      toks += lenc(s["impfile"]) + lenc(s["module"])
      lines.append(" ".join(toks))
    for t in texts:
      lines.append("B " + " ".join(codes(t)))
    pending.append((msteps, texts, len(rb_lines)))
    rb_lines += lines
    # the real ninja binary's view
    unreadable = getattr(impl[1], "unreadable", None)
    view = L.ninja_view(outdir, [] if unreadable else impl[1])
    kinj, ninj = L.injective_case(c)
    if "error" in view:
      if "multiple rules generate" in view["error"] and not kinj:
        pass
      elif unreadable and not esc_mod:
        n_unreadable += 1          # the port and the binary agree: a raw '$' in `module = ...` breaks the file
      else:
        n_bad += 1
        res.obligation("ninja-binary:loads-the-plan", False, view["error"][:400] + " case=" + json.dumps(c)[:400])
    elif unreadable:
      if len(view["targets"]) < len(msteps) and not esc_mod:
        n_unreadable += 1          # ninja loads a plan with statements missing (continuation)
      else:
        n_bad += 1
        res.obligation("ninja-binary:loads-the-plan", False, "port: %s, but ninja loads it" % unreadable)
    else:
      n_view += 1
      exp_targets = ["%s: %s" % (s["out"], s["action"]) for s in msteps]
      if view["targets"] != exp_targets:
        n_bad += 1
        res.obligation("ninja-binary:targets", False, "%r vs %r" % (view["targets"][:4], exp_targets[:4]))
      if len(view["edges"]) != len(msteps):
        n_bad += 1
        res.obligation("ninja-binary:query", False, "%r" % (view["edges"][-1:],))
      for s, e in zip(msteps, view["edges"]):
        if "error" in e or e["rule"] != s["action"] or e["ins"] != [s["input"]] or e["implicit"] != s["deps"]:
          n_bad += 1
          res.obligation("ninja-binary:query", False, "ninja reads %r, expected in=%r deps=%r" % (e, s["input"], s["deps"]))
          break
      want_cmds = []
      for s in msteps:
        want_mod = s["module"] if esc_mod else L.py_lex(s["module"].lstrip(" ") + "\n", 0, False)[0]
        want_cmds.append("I<%s>M<%s>" % (s["impfile"], want_mod))
      if sorted(want_cmds) != view["cmds"]:
        n_bad += 1
        res.obligation("ninja-binary:bindings", False, "ninja evaluates %r, expected %r" % (view["cmds"][:3], sorted(want_cmds)[:3]))
    # oracle (uses the Python parse, which the legs above tie to ninja's reading)
    for fp, msg in L.oracle(c, outdir, impl):
      viol.append((fp, msg, c))
    # the real reader of the imports files
    builder = S["iml"].ImportsMapBuilder(type("O", (), {"open_function": staticmethod(open)}))
    for s in msteps:
      if any(" " in k or k != k.strip() for k, _ in s["imports"]):
        keyspace += 1
        continue
      got = builder._read_from_file(s["impfile"])     # pylint: disable=protected-access
      if [tuple(x) for x in got] != [tuple(x) for x in s["imports"]]:
        n_bad += 1
        res.obligation("imports-file:real-reader", False, "reader %r expected %r" % (got, s["imports"]))
  out_all = subprocess.run([exe], input="\n".join(rb_lines) + "\n", capture_output=True, text=True).stdout.split("\n")
  for msteps, texts, off in pending:
    out = out_all[off:off + 2 * len(msteps)]
    for k, (s, t) in enumerate(zip(msteps, texts)):
      n_stmt += 1
      for ch in charhist:
        if ch in t:
          charhist[ch] += 1
      rendered = bytes(int(x) for x in out[k].split()).decode("utf-8")
      if rendered != t:
        n_bad += 1
        if n_bad <= 3:
          res.obligation("correspondence:render-vs-write_build_statement", False,
                         "model %r real %r" % (rendered, t))
      pb = out[len(msteps) + k]
      exp = expected_parse(s, esc_mod)
      if pb != exp and not (isinstance(exp, ExpectPrefix) and pb == "FAIL"):
        n_bad += 1
        if n_bad <= 3:
          res.obligation("correspondence:parse_build-of-real-text", False, "model parse %r expected %r text %r" % (pb, exp, t))
  res.extra["text_leg"] = {"statements": n_stmt, "ninja_views": n_view, "statements_containing": charhist, "plans_ninja_rejects(raw $ in module binding)": n_unreadable,
                           "imports_files_with_space_in_key_not_read_back": keyspace}
  res.obligation("correspondence:adversarial-names(text,parse_build,ninja-binary,reader)", n_bad == 0,
                 "%d disagreements over %d statements" % (n_bad, n_stmt))
  res.count(None, n_stmt)
  return viol


def tl(s):
  return " ".join("l%d" % b for b in s.encode("utf-8"))


def expected_parse(s, esc_mod):
  """What Model.parse_build must return for the statement of step s (driver format)."""
  mod = s["module"]
  if esc_mod or ("$" not in mod and not mod.startswith(" ")):
    modtoks = tl(mod)
  else:
    modtoks = None
  outs = tl(s["out"]); ins = tl(s["input"]); imps = ",".join(tl(d) for d in s["deps"])
  rule = " ".join(codes(s["action"]))
  binds = " ".join(codes("imports")) + "=" + tl(s["impfile"]) + "," + " ".join(codes("module")) + "="
  if modtoks is None:
    return ExpectPrefix("/".join([outs, rule, ins, imps, binds]))
  return "/".join([outs, rule, ins, imps, binds + modtoks]) + "#"


class ExpectPrefix(str):
  """Equal to any string that starts with it (module binding with a raw '$' lexes to something else)."""
  def __eq__(self, other):
    return isinstance(other, str) and other.startswith(str(self))
  def __ne__(self, other):
    return not self.__eq__(other)
  __hash__ = str.__hash__


# ---------------------------------------------------------------------------------------------
# lexer model vs Python port vs the real ninja binary, on raw (unescaped, adversarial) text

RAW = ["a", "b", "x", " ", ":", "$", "|", "{", "}", ".", "-", "$$", "$ ", "$:", "$\n", "${x}", "$x", "${a.b}", "$a-b",
       "\n", "\r", "\r\n", "$\r\n", "  ", "||", "|@", "$.", "${", "$}", "\0"]
ENV = {"x": "X", "a-b": "Q", "a.b": "D", "ab": "AB", "a": "A", "b": "B"}


def toks_eval(txt):
  out = []
  for t in txt.split():
    if t[0] == "l":
      out.append(int(t[1:]))
    else:
      name = bytes(int(x) for x in t[1:].split(".")).decode() if len(t) > 1 else ""
      out += list(ENV.get(name, "").encode())
  return bytes(out).decode("utf-8", "replace")


def mini_parse_inputs(text):
  """ninja's reading of `build OUT_: r TEXT` from TEXT on (ins, implicit, order-only, validations)."""
  pos = L._eat_ws(text, 0)   # pylint: disable=protected-access
  def paths(pos):
    return L.read_path_list(text, pos, ENV)
  ins, pos = paths(pos)
  imp, oo, val = [], [], []
  def tok(pos):
    if text.startswith("|@", pos): return "|@"
    if text.startswith("||", pos): return "||"
    if text.startswith("|", pos): return "|"
    return None
  if tok(pos) == "|":
    imp, pos = paths(L._eat_ws(text, pos + 1))  # pylint: disable=protected-access
  if tok(pos) == "||":
    oo, pos = paths(L._eat_ws(text, pos + 2))   # pylint: disable=protected-access
  if tok(pos) == "|@":
    val, pos = paths(L._eat_ws(text, pos + 2))  # pylint: disable=protected-access
  if text.startswith("\r\n", pos):
    pos += 2
  elif text.startswith("\n", pos):
    pos += 1
  else:
    raise ValueError("expected newline")
  return ins, imp, oo, val, pos


def parse_query(out, names):
  """`ninja -t query n1 n2 ...` -> {name: (ins, implicit, order_only)}."""
  res = {}
  lines = out.split("\n")
  k = 0
  for nm in names:
    if k >= len(lines) or lines[k] != nm + ":":
      return None
    k += 1
    gi, gm, go = [], [], []
    if k < len(lines) and lines[k].startswith("  input: "):
      k += 1
      while k < len(lines) and lines[k].startswith("    "):
        l = lines[k][4:]
        if l.startswith("|| "): go.append(l[3:])
        elif l.startswith("| "): gm.append(l[2:])
        else: gi.append(l)
        k += 1
    while k < len(lines) and lines[k].startswith("  ") :
      k += 1            # outputs: / validations: sections
    res[nm] = (gi, gm, go)
  return res


def ninja_paths_batch(d, header, items):
  """items: [(key, text)] with text placed as the inputs of `build OUT_<i>: r <text>`.  One ninja run for
  the whole batch; if ninja rejects the file each item is run alone.  Returns {key: (ins, imp, oo) | "FAIL"}."""
  def run(sub):
    with open(os.path.join(d, "build.ninja"), "w", newline="") as f:
      f.write(header + "".join("build OUT_%d: r %s" % (i, t) for i, (_, t) in enumerate(sub)))
    names = ["OUT_%d" % i for i in range(len(sub))]
    rc, o, e = L.ninja(["-t", "query"] + names, d)
    if rc != 0:
      return None
    q = parse_query(o, names)
    return None if q is None else {k: q["OUT_%d" % i] for i, (k, _) in enumerate(sub)}
  if not items:
    return {}
  got = run(items)
  if got is not None:
    return got
  res = {}
  for it in items:
    g = run([it])
    res[it[0]] = "FAIL" if g is None else g[it[0]]
  return res


def ninja_values_batch(d, header, items):
  """items: [(key, text)] with text as the value of a binding; evaluated through `-t commands`."""
  def run(sub):
    with open(os.path.join(d, "build.ninja"), "w", newline="") as f:
      f.write(header + "".join("build OUT_%d: r\n  i = %d\n  v = %s" % (i, i, t) for i, (_, t) in enumerate(sub)))
    rc, o, e = L.ninja(["-t", "commands"], d)
    if rc != 0:
      return None
    got = {}
    for l in o.split("\n"):
      if l.startswith("#"):
        idx, _, v = l[1:].partition("<")
        got[int(idx)] = "<" + v
    return {k: got.get(i, "MISSING") for i, (k, _) in enumerate(sub)}
  if not items:
    return {}
  got = run(items)
  if got is not None:
    return got
  res = {}
  for it in items:
    g = run([it])
    res[it[0]] = "FAIL" if g is None else g[it[0]]
  return res


def lexer_leg(res, exe, root, r, n_raw, n_esc):
  d = os.path.join(root, "lex")
  os.makedirs(d, exist_ok=True)
  header = "rule r\n  command = #$i<$v>\n" + "".join("%s = %s\n" % kv for kv in ENV.items())
  n = n_bad = n_err = n_term = 0
  def report(name, detail):
    nonlocal n_bad
    n_bad += 1
    if n_bad <= 4:
      res.obligation(name, False, detail)
  raws = []
  for _ in range(n_raw):
    raws.append("".join(r.choice(RAW) for _ in range(r.randint(0, 6))))
  raws = sorted(set(raws))
  # (1) Coq lexer == Python port, both modes
  lines = []
  for t in raws:
    for mode in (1, 0):
      lines.append("L %d " % mode + " ".join(codes(t + "\n")))
  out = subprocess.run([exe], input="\n".join(lines) + "\n", capture_output=True, text=True).stdout.split("\n")
  k = 0
  for t in raws:
    for mode in (1, 0):
      txt = t + "\n"
      try:
        v, pos = L.py_lex(txt, 0, mode == 1, ENV)
        want = (v, txt[pos:])
      except ValueError:
        want = "FAIL"
      got = out[k]; k += 1
      if got == "FAIL":
        g = "FAIL"
      else:
        a, _, b = got.partition("#")
        g = (toks_eval(a), bytes(int(x) for x in b.split()).decode())
      n += 1
      if g != want:
        report("correspondence:lexer-model-vs-port", "text %r mode %d: model %r port %r" % (txt, mode, g, want))
  # (2) Python port (and so the model) == the real ninja binary: text as the inputs of a build statement ...
  ok_items, err_items, wants = [], [], {}
  for t in raws:
    if "\0" in t:
      continue
    txt = t + "\n"
    try:
      ins, imp, oo, val, pos = mini_parse_inputs(txt)
      if pos != len(txt):
        continue          # the text continues on a further line: not a single statement
      wants[t] = (ins, imp, oo)
      ok_items.append((t, txt))
    except ValueError:
      wants[t] = "FAIL"
      err_items.append((t, txt))
  got = ninja_paths_batch(d, header, ok_items)
  for t, txt in err_items[:20]:
    got.update(ninja_paths_batch(d, header, [(t, txt)]))
  for t, g in got.items():
    n += 1
    if wants[t] == "FAIL": n_err += 1
    if g != wants[t]:
      report("ninja-binary:lexer-paths", "text %r: ninja %r port %r" % (t + "\n", g, wants[t]))
  # ... and as the value of a binding
  ok_items, err_items, wants = [], [], {}
  for t in raws:
    if "\0" in t or "\r" in t.replace("$\r\n", "") or "\n" in t.replace("$\r\n", "").replace("$\n", ""):
      continue
    txt = t + "\n"
    try:
      p0 = L._eat_ws(txt, 0)   # pylint: disable=protected-access
      v, pos = L.py_lex(txt, p0, False, ENV)
      if pos != len(txt):
        continue
      wants[t] = "<" + v + ">"
      ok_items.append((t, txt))
    except ValueError:
      wants[t] = "FAIL"
      err_items.append((t, txt))
  got = ninja_values_batch(d, header, ok_items)
  for t, txt in err_items[:20]:
    got.update(ninja_values_batch(d, header, [(t, txt)]))
  for t, g in got.items():
    n += 1
    if wants[t] == "FAIL": n_err += 1
    if g != wants[t]:
      report("ninja-binary:lexer-values", "text %r: ninja %r port %r" % (t + "\n", g, wants[t]))
  # (3) escape: real escape_ninja_path == model escape; the real ninja reads the escaped name back unchanged
  #     exactly for names without newline / CR / '|' / NUL (path) resp. newline / CR / NUL (value): the
  #     character classes of the theorems
  pr = L.setup()["pr"]
  names = set()
  for _ in range(n_esc):
    names.add("".join(r.choice(["a", "b", " ", ":", "$", "$x", "${x}", "|", "\n", "\r", ".", "-", "\u00e9", "{", "}"])
                      for _ in range(r.randint(1, 7))))
  names = sorted(x for x in names if x.strip(".") != "")     # '.' alone is canonicalised by ninja
  lines = ["E " + " ".join(codes(s)) for s in names]
  out = subprocess.run([exe], input="\n".join(lines) + "\n", capture_output=True, text=True).stdout.split("\n")
  esc = {}
  for s, o in zip(names, out):
    real = pr.escape_ninja_path(s)
    model = bytes(int(x) for x in o.split()).decode("utf-8")
    n += 1
    esc[s] = real
    if real != model:
      report("correspondence:escape", "escape_ninja_path(%r)=%r model %r" % (s, real, model))
  in_p = [s for s in names if not any(ch in s for ch in "\n\r|\0")]
  out_p = [s for s in names if s not in in_p][:15]
  got = ninja_paths_batch(d, header, [(s, esc[s] + "\n") for s in in_p])
  for s in in_p:
    n += 1
    if got[s] != ([s], [], []):
      report("ninja-binary:escaped-path-roundtrip", "name %r escaped %r: ninja reads %r" % (s, esc[s], got[s]))
  for s in out_p:
    g = ninja_paths_batch(d, header, [(s, esc[s] + "\n")])[s]
    n += 1; n_term += 1
    if g == ([s], [], []):
      report("char-class-not-exact", "name %r (outside the class) survived: the theorem's class is too small" % s)
  in_v = [s for s in names if not any(ch in s for ch in "\n\r\0")]
  out_v = [s for s in names if s not in in_v][:15]
  got = ninja_values_batch(d, header, [(s, esc[s] + "\n") for s in in_v])
  for s in in_v:
    n += 1
    if got[s] != "<" + s + ">":
      report("ninja-binary:escaped-value-roundtrip", "value %r escaped %r: ninja gives %r" % (s, esc[s], got[s]))
  for s in out_v:
    g = ninja_values_batch(d, header, [(s, esc[s] + "\n")])[s]
    n += 1; n_term += 1
    if g == "<" + s + ">":
      report("char-class-not-exact", "value %r (outside the class) survived" % s)
  res.extra["lexer_leg"] = {"comparisons": n, "predicted_and_observed_errors": n_err,
                            "names_outside_class_confirmed_not_surviving": n_term,
                            "escaped_names_in_class": len(in_p)}
  res.obligation("correspondence:lexer-model/port/ninja-binary", n_bad == 0, "%d disagreements of %d" % (n_bad, n))
  res.count(None, n)


# ---------------------------------------------------------------------------------------------
# deps_from_import_graph: model vs real, on synthetic deps_list()s and on real importlab graphs

class FakeGraph:
  def __init__(self, deps_list, provenance):
    self._dl = deps_list
    self.provenance = provenance
  def deps_list(self):
    return self._dl


class FakeNodeSet:
  def __init__(self, nodes):
    self.nodes = sorted(nodes)


class Resolved:
  def __init__(self, path, short_path, module_name):
    self.path = path; self.short_path = short_path; self.module_name = module_name


def dfig_model_line(rev, provenance):
  """rev = reversed(deps_list()) as [(node, deps)] with node a str or an object with .nodes."""
  pr = L.setup()["pr"]
  files = []
  fidx = {}
  def fid(f):
    if f not in fidx:
      fidx[f] = len(files); files.append(f)
    return fidx[f]
  def names(node):
    return [node] if isinstance(node, str) else sorted(node.nodes)
  nodes = []
  for node, deps in rev:
    nodes.append(([fid(f) for f in names(node)], [[fid(f) for f in names(dn)] for dn in deps]))
  mods = []
  for f in files:
    m = pr.resolved_file_to_module(provenance[f])
    mods.append([m.path, m.target, m.name, m.kind if m.kind in L.KINDS else "Local"])
  it = L.Interner()
  toks = ["G"] + L.encode_mods({"mods": mods}, it)
  toks.append(str(len(files)))
  for i, f in enumerate(files):
    toks += [str(i), "1" if pr._is_type_stub(f) else "0"]    # pylint: disable=protected-access
  toks.append(str(len(nodes)))
  for node, deps in nodes:
    toks += [str(len(node))] + [str(x) for x in node] + [str(len(deps))]
    for dn in deps:
      toks += [str(len(dn))] + [str(x) for x in dn]
  return " ".join(toks), it


def render_sources(ss, it):
  def ms(m):
    return "%d.%d.%d.%d" % (it("p:" + m.path), it("t:" + m.target), it("n:" + m.name),
                            L.KINDS.index(m.kind if m.kind in L.KINDS else "Local"))
  return ";".join(",".join(ms(m) for m in g) + "|" + ",".join(ms(m) for m in d) for g, d in ss)


def sources_to_case(ss, req):
  mods = []
  idx = {}
  def mi(m):
    if m not in idx:
      idx[m] = len(mods); mods.append([m.path, m.target, m.name, m.kind])
    return idx[m]
  groups = [[[mi(m) for m in g], [mi(m) for m in d]] for g, d in ss]
  return {"mods": mods, "groups": groups, "req": list(req)}


def synthetic_graph(r):
  """A random collapsed import DAG in importlab's deps_list() form with stubs and cycles."""
  nn = r.randint(1, 7)
  nodes = []
  prov = {}
  k = 0
  for i in range(nn):
    size = 1 if r.random() < 0.7 else r.randint(2, 3)
    fs = []
    for _ in range(size):
      stub = r.random() < 0.3
      name = "f%d" % k
      f = "/r/%s.%s" % (name, "pyi" if stub else "py")
      cls = type(r.choice(["Local", "Local", "System", "Direct"]), (Resolved,), {})
      prov[f] = cls(f, name + (".pyi" if stub else ".py"), name)
      fs.append(f); k += 1
    nodes.append(fs[0] if size == 1 else FakeNodeSet(fs))
  # topological: node i may depend on nodes j > i (importer first, like nx.topological_sort of importer->imported)
  dl = []
  for i, nd in enumerate(nodes):
    deps = [nodes[j] for j in range(i + 1, nn) if r.random() < 0.45]
    r.shuffle(deps)
    dl.append((nd, deps))
  return dl, prov


def graph_files(node):
  return [node] if isinstance(node, str) else sorted(node.nodes)


def wf_graph_py(rev, provenance):
  """The hypothesis of deps_output_wf (Plan/GraphProofs.v wf_graph) on reversed(deps_list()): every file of every
  dependency node occurs in an earlier node, and the source files have pairwise distinct full paths."""
  pr = L.setup()["pr"]
  seen = set()
  fulls = []
  for node, deps in rev:
    for dn in deps:
      if any(f not in seen for f in graph_files(dn)):
        return False
    for f in graph_files(node):
      seen.add(f)
      if not pr._is_type_stub(f):    # pylint: disable=protected-access
        fulls.append(pr.resolved_file_to_module(provenance[f]).full_path)
  return len(set(fulls)) == len(fulls)


def sources_kept(rev, provenance, real):
  """deps_members / deps_complete on the real output: the group members are exactly the graph's source files."""
  pr = L.setup()["pr"]
  want = [pr.resolved_file_to_module(provenance[f]) for node, _ in rev for f in graph_files(node)
          if not pr._is_type_stub(f)]    # pylint: disable=protected-access
  return want == [m for grp, _ in real for m in grp]


def system_provenance_probe(root):
  """Informational: importlab overwrites the provenance of a requested file that another input imports through the
  interpreter's own path, so whether that requested file is analysed (Direct) or gets the default stub (System,
  with a logged warning - by design in get_module_action) depends on the order of the inputs."""
  from importlab import environment, fs, graph   # pylint: disable=import-outside-toplevel
  import importlib                                # pylint: disable=import-outside-toplevel
  pr = L.setup()["pr"]
  d = os.path.join(root, "sysprobe")
  shutil.rmtree(d, ignore_errors=True)
  os.makedirs(os.path.join(d, "src")); os.makedirs(os.path.join(d, "site"))
  with open(os.path.join(d, "src", "y.py"), "w") as f: f.write("import c19probe_xs\n")
  with open(os.path.join(d, "site", "c19probe_xs.py"), "w") as f: f.write("v = 1\n")
  out = {}
  sys.path.append(os.path.join(d, "site"))
  try:
    importlib.invalidate_caches()
    for tag, inputs in (("requested-first", ["site/c19probe_xs.py", "src/y.py"]), ("importer-first", ["src/y.py", "site/c19probe_xs.py"])):
      path = fs.Path(); path.add_path(os.path.join(d, "src"), "os")
      env = environment.Environment(path, sys.version_info[:2])
      g = graph.ImportGraph.create(env, [os.path.join(d, i) for i in inputs], trim=True)
      ss = pr.deps_from_import_graph(g)
      out[tag] = [m.kind for grp, _ in ss for m in grp if m.full_path.endswith("c19probe_xs.py")]
  except Exception as e:   # pylint: disable=broad-except
    out["error"] = repr(e)
  finally:
    sys.path.remove(os.path.join(d, "site"))
    importlib.invalidate_caches()
  return out


def dfig_leg(res, exe, root, r, n_syn, n_real):
  pr = L.setup()["pr"]
  n = n_bad = n_notwf = 0
  n_graph_notwf = n_dropped = n_req_sys = 0
  stubs_seen = 0
  viol = []
  lines = []
  wants = []
  cases = []
  for _ in range(n_syn):
    dl, prov = synthetic_graph(r)
    g = FakeGraph(dl, prov)
    real = pr.deps_from_import_graph(g)
    ln, it = dfig_model_line(list(reversed(dl)), prov)
    lines.append(ln); wants.append(render_sources(real, it))
    if not wf_graph_py(list(reversed(dl)), prov):
      n_graph_notwf += 1
    if not sources_kept(list(reversed(dl)), prov, real):
      n_dropped += 1
      viol.append(("source-file-dropped", "deps_from_import_graph lost or duplicated a source file of the graph",
                   sources_to_case(real, [])))
    stubs_seen += sum(1 for f in prov if f.endswith(".pyi"))
    fulls = [m.full_path for grp, _ in real for m in grp]
    cases.append(sources_to_case(real, [f for f in fulls if r.random() < 0.4]))
  out = subprocess.run([exe], input="\n".join(lines) + "\n", capture_output=True, text=True).stdout.split("\n")
  for w, o in zip(wants, out):
    n += 1
    if w != o:
      n_bad += 1
      if n_bad <= 3:
        res.obligation("correspondence:deps_from_import_graph", False, "model %r real %r" % (o[:300], w[:300]))
  # real importlab on generated projects
  real_stats = {"projects": 0, "cycles": 0, "system": 0, "unresolved": 0, "stubs": 0}
  if n_real:
    from importlab import environment, fs, graph   # pylint: disable=import-outside-toplevel
    for pi in range(n_real):
      proj = os.path.join(root, "proj%d" % pi)
      shutil.rmtree(proj, ignore_errors=True)
      os.makedirs(os.path.join(proj, "src", "pk"))
      os.makedirs(os.path.join(proj, "stubs"))
      nm = r.randint(2, 7)
      names = []
      for i in range(nm):
        names.append(("pk.m%d" % i, "pk/m%d.py" % i) if r.random() < 0.35 else ("m%d" % i, "m%d.py" % i))
      open(os.path.join(proj, "src", "pk", "__init__.py"), "w").close()
      for i, (mn, rel) in enumerate(names):
        body = []
        for j, (on, _) in enumerate(names):
          if j != i and r.random() < 0.3:
            body.append("import %s" % on)
        if r.random() < 0.3: body.append("import os")
        if r.random() < 0.2: body.append("import sys")
        if r.random() < 0.2: body.append("import no_such_module_%d" % i)
        if r.random() < 0.3: body.append("import st%d" % (i % 2))
        with open(os.path.join(proj, "src", rel), "w") as f:
          f.write("\n".join(body) + "\nx = 1\n")
      for q in range(2):
        with open(os.path.join(proj, "stubs", "st%d.pyi" % q), "w") as f:
          f.write(("import m0\n" if q == 0 else "import st0\n") + "y: int\n")
      path = fs.Path()
      path.add_path(os.path.join(proj, "src"), "os")
      path.add_path(os.path.join(proj, "stubs"), "pyi")
      env = environment.Environment(path, sys.version_info[:2])
      inputs = [os.path.join(proj, "src", rel) for _, rel in names if r.random() < 0.5] or \
               [os.path.join(proj, "src", names[0][1])]
      g = graph.ImportGraph.create(env, inputs, trim=True)
      real = pr.deps_from_import_graph(g)
      ln, it = dfig_model_line(list(reversed(g.deps_list())), g.provenance)
      o = subprocess.run([exe], input=ln + "\n", capture_output=True, text=True).stdout.strip("\n")
      n += 1
      if o != render_sources(real, it):
        n_bad += 1
        res.obligation("correspondence:deps_from_import_graph(importlab)", False, "model %r real %r" % (o[:300], render_sources(real, it)[:300]))
      rev = list(reversed(g.deps_list()))
      if not wf_graph_py(rev, g.provenance):
        n_graph_notwf += 1
        if n_graph_notwf <= 2:
          res.obligation("hypothesis-monitor:wf_graph(importlab deps_list)", False,
                         "project %s inputs %r: deps_list %r" % (proj, inputs, [(graph_files(a), [graph_files(b) for b in c]) for a, c in rev][:8]))
      if not sources_kept(rev, g.provenance, real):
        n_dropped += 1
        viol.append(("source-file-dropped", "deps_from_import_graph lost or duplicated a source file of the importlab graph",
                     sources_to_case(real, inputs)))
      n_req_sys += sum(1 for grp, _ in real for m in grp if m.full_path in inputs and m.kind in ("System", "Builtin"))
      real_stats["projects"] += 1
      real_stats["cycles"] += sum(1 for grp, _ in real if len(grp) > 1)
      real_stats["system"] += sum(1 for grp, _ in real for m in grp if m.kind == "System")
      real_stats["unresolved"] += len(g.get_all_unresolved())
      real_stats["stubs"] += sum(1 for f in g.provenance if f.endswith(".pyi"))
      cases.append(sources_to_case(real, inputs))
  # the hypothesis of the theorems holds for what deps_from_import_graph returns; then plan + oracle
  outdir = os.path.join(root, "dfig_o")
  plines = []
  its = []
  for c in cases:
    ln, it = L.model_line(c); plines.append(ln); its.append(it)
  out = subprocess.run([exe], input="\n".join(plines) + "\n", capture_output=True, text=True).stdout.split("\n")
  for c, it, mo in zip(cases, its, out):
    if not L.wf_case(c):
      n_notwf += 1
      if n_notwf <= 2:
        res.obligation("hypothesis-monitor:deps_from_import_graph-output-wellformed", False, json.dumps(c)[:800])
      continue
    impl = L.run_impl(c, outdir)
    d = cmp_plans(L.decode_model(mo, it, outdir), impl)
    n += 1
    if d:
      n_bad += 1
      if n_bad <= 3:
        res.obligation("correspondence:setup_build(on deps_from_import_graph output)", False, d)
    if impl == "ERR":
      viol.append(("keyerror-on-wellformed", "KeyError", c))
      continue
    for fp, msg in L.oracle(c, outdir, impl):
      viol.append((fp, msg, c))
  res.extra["dfig_leg"] = {"synthetic_graphs": n_syn, "stub_files": stubs_seen, "importlab": real_stats,
                           "outputs_not_wellformed": n_notwf, "input_graphs_not_wf_graph": n_graph_notwf,
                           "graphs_with_dropped_or_duplicated_sources": n_dropped,
                           "requested_files_with_system_or_builtin_provenance": n_req_sys}
  if n_real:
    res.extra["requested_file_provenance_depends_on_input_order(informational)"] = system_provenance_probe(root)
  res.obligation("correspondence:deps_from_import_graph+wellformedness-monitor", n_bad == 0 and n_notwf == 0,
                 "%d disagreements, %d non-well-formed outputs of %d" % (n_bad, n_notwf, n))
  res.obligation("hypothesis-monitor:wf_graph(every synthetic and importlab graph)", n_graph_notwf == 0,
                 "%d graphs violate the hypothesis of deps_output_wf" % n_graph_notwf)
  res.count(None, n)
  return viol


# ---------------------------------------------------------------------------------------------
# the extracted OCaml model agrees with the Coq kernel's own evaluation (vm_compute) on sample cases

def kernel_leg(res, exe, cases):
  def path(p):
    if p == "D":
      return "PDefault"
    k, f = p.rsplit(".", 1)
    return "PPyi %s %s" % (k, "true" if f == "1" else "false")
  def lst(xs):
    return "[" + "; ".join(xs) + "]"
  lines = [L.model_line(c)[0] for c in cases]
  outs = subprocess.run([exe], input="\n".join(lines) + "\n", capture_output=True, text=True).stdout.split("\n")
  body = ("From Coq Require Import List NArith Bool.\nFrom PV Require Import Plan.Model.\nImport ListNotations.\n"
          "Local Open Scope N_scope.\n"
          "Definition view (r : option st) := option_map (fun s => map (fun t => (s_out t, s_action t, s_input t, "
          "s_deps t, s_impfile t, s_imports t, s_module t)) (plan s)) r.\n")
  for ln, out in zip(lines, outs):
    t = ln.split()[1:]
    i = 0
    nm = int(t[i]); i += 1
    mods = []
    for _ in range(nm):
      p_, t_, n_, k_, f_, key_, e_ = t[i:i + 7]; i += 7
      mods.append("(Module %s %s %s %s %s %s %s)" % (p_, t_, n_, L.KINDS[int(k_)], f_, key_, "true" if e_ == "1" else "false"))
    nr = int(t[i]); i += 1
    req = t[i:i + nr]; i += nr
    ng = int(t[i]); i += 1
    groups = []
    for _ in range(ng):
      n1 = int(t[i]); i += 1
      g = [mods[int(x)] for x in t[i:i + n1]]; i += n1
      n2 = int(t[i]); i += 1
      d = [mods[int(x)] for x in t[i:i + n2]]; i += n2
      groups.append("(%s, %s)" % (lst(g), lst(d)))
    if out.strip() == "ERR":
      want = "None"
    else:
      steps = []
      body_ = out.strip()[3:].partition("#")[2]
      for st in body_.split(";") if body_ else []:
        o, a, inp, ds, f, im, _fin, mod = st.split("|")
        nm_, first = f.split(":")
        imps = lst(["(%s, %s)" % (e.split("=")[0], path(e.split("=")[1])) for e in im.split(" ")] if im else [])
        steps.append("(%s, %s, %s, %s, (%s, %s), %s, %s)" % (
            path(o), a.upper(), inp, lst([path(x) for x in ds.split(" ")] if ds else []),
            nm_, "true" if first == "1" else "false", imps, mod))
      want = "Some " + lst(steps)
    body += "Goal view (setup_build %s %s) = %s.\nProof. vm_compute. reflexivity. Qed.\n" % (lst(req), lst(groups), want)
  ok, log = common.run_cases_v("c19_kernel", body)
  res.obligation("correspondence:extracted-model-vs-coq-kernel(vm_compute)", ok,
                 "%d sample cases" % len(cases) if ok else log[-1500:])
  res.count(None, len(cases))


# ---------------------------------------------------------------------------------------------

FINDING_CASES = [
    # two requested scripts outside the pythonpath: importlab gives both the module name '' -> one shared
    # imports file ('.imports'); reproduced end to end with importlab in the dfig leg's sibling below
    ("imports-file-overwritten", {
        "mods": [["/p/src/", "m2.py", "m2", "Local"], ["/p/src/", "m1.py", "m1", "Local"],
                 ["/p/scripts/", "b.py", "", "Direct"], ["/p/scripts/", "a.py", "", "Direct"]],
        "groups": [[[0], []], [[1], []], [[2], [0]], [[3], [1]]],
        "req": ["/p/scripts/a.py", "/p/scripts/b.py"]}),
    # two requested files with the same module name under different roots -> same output path
    ("dup-output", {
        "mods": [["/p/src/", "m2.py", "m2", "Local"], ["/p/src/", "m1.py", "m1", "Local"],
                 ["/p/d2/", "x.py", "x", "Direct"], ["/p/d1/", "x.py", "x", "Direct"]],
        "groups": [[[0], []], [[1], []], [[2], [0]], [[3], [1]]],
        "req": ["/p/d1/x.py", "/p/d2/x.py"]}),
]


def report_violations(res, viol, root):
  """De-duplicate by fingerprint, shrink, report (<= 3 unlisted ones)."""
  by = {}
  for fp, msg, c in viol:
    # the two collision findings are only "known" where their cause is present in the input
    if fp.startswith("dup-output:") or fp.startswith("imports-file-overwritten:"):
      kinj, ninj = L.injective_case(c)
      if (fp.startswith("dup-output:") and kinj) or (fp.startswith("imports-file-overwritten:") and ninj):
        fp = "UNEXPECTED:" + fp
    by.setdefault(fp, (msg, c))
  reported = 0
  for fp, (msg, c) in sorted(by.items()):
    if fp in res.known:
      res.violation(fp, msg, {"case": c})
      continue
    if reported >= 3:
      continue
    small = shrink_case(c, fp.replace("UNEXPECTED:", ""), os.path.join(root, "shrink"), budget_s=20.0 if reported == 0 else 5.0)
    res.violation(fp, msg, {"case": small, "original": c if small != c else None})
    reported += 1
  res.extra["violation_fingerprints"] = {fp: sum(1 for f, _, _ in viol if f == fp.replace("UNEXPECTED:", "")) for fp in by}


def run(res):
  res.rule = ("sorted_sources = groups of modules (size>=2: import cycle) with direct deps among earlier groups; "
              "quick: every structure over <=4 modules (1+3+15+135 shapes) x kinds {Local,System}^n x every requested "
              "subset; thorough: kinds {Local,System,Builtin}^n for n<=4, all 2295 shapes over 5 modules x 48 sampled "
              "(kinds, requested); random structures to 12 modules (cycles to 5, duplicate/shuffled deps, "
              "Direct/Builtin/pytype_extensions, __init__, hidden and name/target-mismatch modules, requested files "
              "outside the graph; 10% non-well-formed inputs: dangling deps -> KeyError, a file in two groups; 10% "
              "colliding module names), adversarial names (space, colon, dollar, ${x}, $x) incl. the output directory, "
              "synthetic deps_list()s with stubs and real importlab graphs of generated projects. Every written plan is "
              "read back and checked as a graph; all linear schedules are enumerated for plans of <=8 statements. "
              "Non-trivial = >=2 statements with a declared dependency; distinct by (groups, kinds, requested).")
  res.assumptions = [
      "module.full_path, _module_to_output_path and name.startswith('pytype_extensions.') are uninterpreted in the model "
      "(ids computed by the real functions); output/imports paths are structured (PDefault/PPyi key first), i.e. "
      "join(pyi_dir, key+'.pyi'+suffix) is assumed injective in (key, suffix) and distinct from default.pyi",
      "ninja's lexer/parser is modelled from lexer.in.cc / the manual and validated against the ninja 1.11.1 binary "
      "(`-t targets all`, `-t query`, `-t commands` with dummy rules; pytype is never run through ninja); "
      "ninja's path canonicalisation ('./', '//', '..') is not modelled (names with '/'-level oddities not generated)",
      "importlab's graph construction is not modelled: deps_output_wf/composed_plan_correct assume wf_graph of "
      "reversed(deps_list()) (dependency nodes earlier, distinct source paths), monitored on every importlab graph built; "
      "the kind (Direct/Local/System) importlab assigns to a file is taken as given",
      "the reader of the *.imports files, the rule block, ninja's evaluation of the command ($in/$out shell-escaped, "
      "$imports/$module raw) and the word splitting of /bin/sh are modelled over code points (Plan/Text.v); the shell "
      "model covers blanks, '...', backslash, $name with field splitting and declines every other special character "
      "(validated against the real /bin/sh = dash whenever it does not decline); os.path.abspath is a parameter of the "
      "reader theorem (applied by the real function in the check); file-system encoding (UTF-8, no lone surrogates) is assumed",
      "keys: the theorems need components without '.', ' ', line breaks; whether importlab can produce such a dependency "
      "is taken from importlab (monitored: finder_oracle counts lookups outside the hypotheses)",
      "extraction via ExtrOcamlBasic + harness/ocaml/plan_driver.ml; generator/differ/oracle in harness/props/c19*.py"]
  t_start = time.time()
  common.coq_obligations(res, "C19")
  res.extra["coq_leg_wall_s(incl. waiting for the shared coq lock)"] = round(time.time() - t_start, 1)
  t_start = time.time()
  common.bootstrap_pytype()
  L.setup()
  exe = common.build_extracted("plan", "Extract/ExtractPlan.v", DRIVER, ["plan_model"])
  res.extra["bootstrap+extraction_wall_s"] = round(time.time() - t_start, 1)
  res.trusted_base += ["Coq extraction (ExtrOcamlBasic only) + OCaml ocamlopt + harness/ocaml/plan_driver.ml",
                       "ninja 1.11.1 binary from the `ninja` wheel in /venv (used as reference reader only)"]
  thorough = res.tier == "thorough"
  r = common.rng(res.seed, "c19")
  root = L.scratch_root()
  viol = []
  try:
    t0 = time.time()
    # ---- corpus + the two known-finding reproducers first
    corpus = []
    cdir = os.path.join(common.CORPUS, "C19")
    for f in sorted(os.listdir(cdir)) if os.path.isdir(cdir) else []:
      corpus.append(json.load(open(os.path.join(cdir, f)))["case"])
    corpus += [c for _, c in FINDING_CASES]
    # ---- exhaustive structures
    batches = [corpus]
    kinds2 = ["Local", "System"]
    kinds3 = ["Local", "System", "Builtin"]
    for n in (1, 2, 3, 4):
      ns = sum(1 for _ in structures(n))
      per = max(1, 1500 // ((len(kinds3 if thorough else kinds2) * 2) ** n))
      batches += [("ex", n, kinds3 if thorough else kinds2, lo, min(ns, lo + per)) for lo in range(0, ns, per)]
    if thorough:
      batches += list(chunks(sampled_cases(5, kinds3, 48, common.rng(res.seed, "c19", "n5")), 1500))
    # ---- random
    rnd = []
    n_rand = 12000 if thorough else 800
    for i in range(n_rand):
      fl = None
      t = i % 20
      if t == 0: fl = "dangling"
      elif t == 1: fl = "dup-module"
      elif t == 2: fl = "same-key"
      elif t == 3: fl = "same-name"
      rnd.append(random_case(r, 12, flavour=fl))
    batches += list(chunks(rnd, 500))
    stats = run_parallel(batches, exe, root, {"count_orders": True}, nproc=4)
    total = 0
    n_mism = 0
    hist = {}
    for s in stats:
      if "fatal" in s:
        res.obligation("model-run", False, s["fatal"])
        return "proof"
      total += s["n"]
      for k, v in s["hist"].items():
        hist[k] = hist.get(k, 0) + v
      for key in s["keys"]:
        res.count(key, 0)
      for d, c in s["mismatch"]:
        n_mism += 1
        if n_mism <= 3:
          res.obligation("correspondence:case", False, d + " case=" + json.dumps(c)[:700])
        if L.wf_case(c):
          # always also ask the oracle about the implementation on this input
          o = os.path.join(root, "mm")
          for fp, msg in L.oracle(c, o, L.run_impl(c, o)):
            viol.append((fp, msg, c))
      viol += s["viol"]
      for smp in s["samples"]:
        res.sample(smp, cap=3)
    res.evaluations += total
    res.obligation("correspondence:model-vs-PytypeRunner.setup_build", n_mism == 0,
                   "%d of %d cases disagree" % (n_mism, total))
    res.extra["cases"] = total
    res.extra["histogram"] = dict(sorted(hist.items()))
    res.extra["exhaustive_scope"] = ("<=4 modules, kinds {Local,System,Builtin}, all requested subsets; 5 modules: all structures x 48 samples"
                               if thorough else "<=4 modules, kinds {Local,System}, all requested subsets")
    res.extra["sweep_wall_s"] = round(time.time() - t0, 1)
    # ---- the extracted model against the kernel's evaluation of the same definitions
    kr = common.rng(res.seed, "c19", "kernel")
    kernel_leg(res, exe, corpus + [random_case(kr, 8, flavour=[None, None, "dangling", "same-key"][i % 4])
                                   for i in range(60 if thorough else 24)])
    res.extra["kernel_leg_wall_s"] = round(time.time() - t0 - res.extra["sweep_wall_s"], 1)
    # ---- adversarial names: text, parse_build, ninja binary, reader
    t1 = time.time()
    viol += text_leg(res, exe, root, common.rng(res.seed, "c19", "text"), 400 if thorough else 60)
    res.extra["text_leg_wall_s"] = round(time.time() - t1, 1); t1 = time.time()
    # ---- lexer model vs port vs ninja binary
    lexer_leg(res, exe, root, common.rng(res.seed, "c19", "lex"), 1500 if thorough else 220, 600 if thorough else 120)
    res.extra["lexer_leg_wall_s"] = round(time.time() - t1, 1); t1 = time.time()
    # ---- deps_from_import_graph
    viol += dfig_leg(res, exe, root, common.rng(res.seed, "c19", "dfig"), 1500 if thorough else 200, 40 if thorough else 6)
    res.extra["dfig_leg_wall_s"] = round(time.time() - t1, 1); t1 = time.time()
    report_violations(res, viol, root)
    res.extra["shrink_report_wall_s"] = round(time.time() - t1, 1); t1 = time.time()
    # ---- character level: *.imports reader, rule block / ninja command / shell, module names and keys
    tr = common.rng(res.seed, "c19", "textx")
    adv_cases = [c for c in (random_case(tr, 5, adversarial=True) for _ in range(160 if thorough else 28)) if L.wf_case(c)]
    plain_cases = [c for c in (random_case(tr, 8) for _ in range(200 if thorough else 30)) if L.wf_case(c)]
    xv, plan_files = T.finder_oracle(res, root, adv_cases + plain_cases)
    xv += T.reader_leg(res, exe, root, tr, 3000 if thorough else 400, plan_files)
    res.extra["reader+finder_wall_s"] = round(time.time() - t1, 1); t1 = time.time()
    xv += T.command_leg(res, exe, root, tr, adv_cases, 2500 if thorough else 250)
    res.extra["command_leg_wall_s"] = round(time.time() - t1, 1); t1 = time.time()
    xv += T.names_leg(res, exe, tr, 6000 if thorough else 700)
    res.extra["names_leg_wall_s"] = round(time.time() - t1, 1)
    T.report(res, xv)
  finally:
    shutil.rmtree(root, ignore_errors=True)
  if thorough:
    ok, out = common_coqchk("C19")
    res.obligation("coqchk", ok, out[-1500:])
  return "proof"


def common_coqchk(pid):
  r = subprocess.run(["timeout", "1500", "coqchk", "-silent", "-o", "-Q", common.COQ, "PV", f"PV.Props.{pid}"],
                     capture_output=True, text=True, cwd=common.COQ)
  return r.returncode == 0, r.stdout + r.stderr


def replay(res, path):
  common.bootstrap_pytype()
  L.setup()
  d = json.load(open(path))
  if d["replay"].get("kind"):
    return T.replay(res, d)
  c = d["replay"]["case"]
  root = L.scratch_root()
  try:
    o = os.path.join(root, "replay")
    impl = L.run_impl(c, o)
    print("case :", json.dumps(c))
    print("wf   :", L.wf_case(c), " (keys distinct, names distinct):", L.injective_case(c))
    if impl == "ERR":
      print("impl : KeyError")
      return 1 if L.wf_case(c) else 0
    for s in impl[1]:
      print("impl :", s["action"], s["out"], "<-", s["input"], "|", s["deps"], " imports:", s["imports"], " module:", repr(s["module"]))
    bad = L.oracle(c, o, impl)
    for fp, msg in bad:
      print("oracle:", fp, "-", msg)
    want = d.get("fingerprint", "").replace("UNEXPECTED:", "")
    return 1 if any(fp == want for fp, _ in bad) or (bad and not want) else 0
  finally:
    shutil.rmtree(root, ignore_errors=True)
