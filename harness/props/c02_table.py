"""C02: fail-closed translator  pytype's loaded builtins/typing stubs + matcher constants  ->  class table.

Everything is read through pytype's own loader / converter (no text parsing of the .pytd files):
  * the MRO of every class of the universe, and for every MRO entry how each of its template parameters is
    resolved on an *instance* of the class (own parameter i / a constant instance such as str for Sequence[str]
    in str's MRO / an empty variable) -- asked from a real abstract.Instance via get_instance_type_parameter;
  * is_protocol / protocol_attributes / has_protocol_base, own attributes (restricted to protocol-relevant names);
  * the compat pairs the matcher was constructed with (AbstractMatcher._compatible_builtins);
  * the names special-cased by matcher.py (_satisfies_noniterable_str lists), read from the live function.
The table is rendered to coq/Generated/C02_Builtins.v; any class or shape the Coq side has no constructor for
raises TranslateError (the check turns that into a failed obligation)."""
import inspect
import re


class TranslateError(Exception):
  pass


# Every builtin class name Model.v has a constructor for (bname).  Order is irrelevant.
BNAMES = [
    "builtins.int", "builtins.float", "builtins.complex", "builtins.bool", "builtins.str", "builtins.bytes",
    "builtins.bytearray", "builtins.memoryview", "builtins.NoneType", "builtins.object", "builtins.list",
    "builtins.tuple",
    "builtins.set", "builtins.frozenset", "builtins.dict", "builtins.type",
    "typing.Sequence", "typing.MutableSequence", "typing.Iterable", "typing.Collection", "typing.Container",
    "typing.Mapping", "typing.MutableMapping", "typing.AbstractSet", "typing.MutableSet", "typing.Sized",
    "typing.Callable", "typing.Hashable", "typing.Reversible", "typing.Iterator", "typing.Generic",
    "typing.Protocol", "typing.List", "typing.Dict", "typing.Set", "typing.FrozenSet", "typing.Tuple",
    "typing.Type", "typing.SupportsInt", "typing.SupportsFloat", "typing.SupportsAbs", "typing.SupportsComplex",
    "typing.SupportsIndex", "typing.SupportsRound", "typing.SupportsBytes",
]
# classes whose rows are generated (the value classes, the annotation heads and what their MROs mention)
SEED = [
    "builtins.int", "builtins.float", "builtins.complex", "builtins.bool", "builtins.str", "builtins.bytes",
    "builtins.bytearray", "builtins.NoneType", "builtins.object", "builtins.list", "builtins.tuple",
    "builtins.set", "builtins.frozenset", "builtins.dict", "builtins.type",
    "typing.Sequence", "typing.MutableSequence", "typing.Iterable", "typing.Collection", "typing.Container",
    "typing.Mapping", "typing.MutableMapping", "typing.AbstractSet", "typing.MutableSet", "typing.Sized",
    "typing.Callable", "typing.Hashable", "typing.Reversible", "typing.Iterator",
]


def coq_bname(full):
  return "B_" + full.replace("builtins.", "").replace("typing.", "t_")


def coq_attr(a):
  return "A_" + a.strip("_") if a.startswith("__") else "A_m_" + a


def make_ctx():
  from pytype import config, context, load_pytd   # pylint: disable=import-outside-toplevel
  opts = config.Options.create(python_version=(3, 12))
  loader = load_pytd.create_loader(opts)
  return context.Context(opts, loader, src="")


def build(ctx=None):
  """Returns the table as a plain dict (see keys below)."""
  from pytype.abstract import abstract   # pylint: disable=import-outside-toplevel
  from pytype import matcher as matcher_mod   # pylint: disable=import-outside-toplevel
  ctx = ctx or make_ctx()
  classes = {}
  todo = list(SEED)
  known = set(BNAMES)
  objs = {}
  def lookup(full):
    mod, nm = full.split(".", 1)
    return ctx.convert.lookup_value(mod, nm)
  while todo:
    full = todo.pop(0)
    if full in classes:
      continue
    if full not in known:
      raise TranslateError("class %s is reachable from the universe but Model.v has no name for it" % full)
    try:
      cls = lookup(full)
    except Exception as e:   # pylint: disable=broad-except
      raise TranslateError("cannot load %s through pytype's loader: %r" % (full, e))
    if not isinstance(cls, abstract.PyTDClass):
      raise TranslateError("%s is %s, expected PyTDClass" % (full, type(cls).__name__))
    objs[full] = cls
    inst = abstract.Instance(cls, ctx)
    itp = inst.instance_type_parameters
    own = [itp[t.full_name] for t in cls.template]
    mro = []
    for b in cls.mro:
      if isinstance(b, abstract.ParameterizedClass):
        bc = b.base_cls
      elif isinstance(b, abstract.Class):
        bc = b
      else:
        raise TranslateError("MRO of %s contains %r (ambiguous/unsupported base)" % (full, b))
      if bc.full_name not in known:
        raise TranslateError("MRO of %s mentions %s which Model.v has no name for" % (full, bc.full_name))
      pmap = []
      for t in bc.template:
        v = inst.get_instance_type_parameter(t.full_name)
        hit = [i for i, ov in enumerate(own) if ov is v]
        if hit:
          pmap.append(("idx", hit[0]))
        elif not v.bindings:
          pmap.append(("empty",))
        elif len(v.bindings) == 1 and isinstance(v.data[0], abstract.Instance) and \
            isinstance(v.data[0].cls, abstract.PyTDClass) and not v.data[0].cls.template:
          if v.data[0].cls.full_name not in known:
            raise TranslateError("parameter of %s in MRO of %s is an instance of unknown %s"
                                 % (bc.full_name, full, v.data[0].cls.full_name))
          pmap.append(("inst", v.data[0].cls.full_name))
        else:
          raise TranslateError("parameter %s of %s in the MRO of %s has unsupported shape %r"
                               % (t.name, bc.full_name, full, v.data))
      mro.append((bc.full_name, pmap))
      if bc.full_name not in classes:
        todo.append(bc.full_name)
    classes[full] = {
        "arity": len(cls.template),
        "mro": mro,
        "is_protocol": bool(cls.is_protocol),
        "pattrs": sorted(cls.protocol_attributes) if cls.is_protocol else [],
        "has_protocol_base": bool(cls.has_protocol_base()),
    }
  relevant = set()
  for c in classes.values():
    relevant.update(c["pattrs"])
  for full, cls in objs.items():
    classes[full]["own"] = sorted(a for a in cls.get_own_attributes() if a in relevant)
  # compat pairs as the matcher instance holds them
  m = ctx.matcher(ctx.root_node)
  compat = []
  compat_error = None
  raw = m._compatible_builtins   # pylint: disable=protected-access
  if not isinstance(raw, (list, tuple)) or not all(
      isinstance(p, tuple) and len(p) == 2 and all(isinstance(x, str) for x in p) for p in raw):
    # not the list of (compatible, builtin) name pairs the model mirrors: fail closed (the check then targets
    # every promotion the model was proved against)
    compat_error = "AbstractMatcher._compatible_builtins is %s, expected a list of (str, str) pairs" % (
        type(raw).__name__)
    raw = []
  for a, b in raw:
    if a == "builtins.None":
      continue          # no class of that name exists; the pair can never fire
    if a not in known or b not in known:
      raise TranslateError("compat pair (%s, %s) mentions a class Model.v has no name for" % (a, b))
    compat.append((a, b))
  # _satisfies_noniterable_str's two lists, from the live source of the method
  src = inspect.getsource(matcher_mod.AbstractMatcher._satisfies_noniterable_str)   # pylint: disable=protected-access
  def strlist(var):
    mm = re.search(var + r"\s*=\s*\[(.*?)\]", src, re.S)
    if not mm:
      raise TranslateError("cannot find %s in _satisfies_noniterable_str" % var)
    return re.findall(r'"([\w.]+)"', mm.group(1))
  conflicting = strlist("conflicting_iter_types")
  str_types = [s for s in strlist("str_types") if s != "builtins.unicode"]
  for n in conflicting + str_types:
    if n not in known:
      raise TranslateError("noniterable-str list mentions unknown %s" % n)
  ft = ctx.convert.function_type.full_name
  if ft not in known:
    raise TranslateError("function_type is %s" % ft)
  # names the class-object / function branches of _match_type_against_type accept outright
  src2 = inspect.getsource(matcher_mod.AbstractMatcher._match_type_against_type)   # pylint: disable=protected-access
  mm = re.search(r"elif other_type\.full_name in \[(.*?)\]:\s*return subst\s*elif _is_callback_protocol", src2, re.S)
  if not mm:
    raise TranslateError("cannot find the class-object accept list in _match_type_against_type")
  class_accept = re.findall(r'"([\w.]+)"', mm.group(1))
  for n in class_accept:
    if n not in known:
      raise TranslateError("class-object accept list mentions unknown %s" % n)
  return {"classes": classes, "compat": compat, "noniter_abcs": conflicting, "str_types": str_types,
          "function_type": ft, "class_accept": class_accept, "attrs": sorted(relevant),
          "compat_error": compat_error}


# the compat pairs Model.v's run-time table (rt_reach + the two flagged deviations) was proved against
EXPECTED_COMPAT = [("builtins.int", "builtins.float"), ("builtins.int", "builtins.complex"),
                   ("builtins.float", "builtins.complex"), ("builtins.bytearray", "builtins.bytes"),
                   ("builtins.memoryview", "builtins.bytes"), ("builtins.NoneType", "builtins.bool")]


def compat_drift(tbl):
  """Symmetric difference between the regenerated compat pairs and the ones the model was proved against."""
  if tbl.get("compat_error"):
    return list(EXPECTED_COMPAT)
  have, want = set(map(tuple, tbl["compat"])), set(EXPECTED_COMPAT)
  return sorted(have ^ want)


def render_coq(tbl):
  """coq/Generated/C02_Builtins.v"""
  out = ["(* GENERATED by harness/props/c02_table.py from pytype's loaded stubs -- do not edit. *)",
         "From Coq Require Import List.", "From PV Require Import Match.Model.", "Import ListNotations.", ""]
  def cid(full):
    return "CB " + coq_bname(full)
  def parg(p):
    if p[0] == "idx":
      return "PIdx %d" % p[1]
    if p[0] == "inst":
      return "PInst (%s)" % cid(p[1])
    return "PEmpty"
  out.append("Definition gen_binfo (b : bname) : option binfo :=")
  out.append("  match b with")
  for full in sorted(tbl["classes"]):
    c = tbl["classes"][full]
    mro = "; ".join("(%s, [%s])" % (cid(b), "; ".join(parg(p) for p in pm)) for b, pm in c["mro"])
    out.append("  | %s => Some {| b_arity := %d; b_mro := [%s];" % (coq_bname(full), c["arity"], mro))
    out.append("      b_proto := %s; b_pattrs := [%s]; b_own := [%s]; b_has_proto_base := %s |}" % (
        "true" if c["is_protocol"] else "false",
        "; ".join("AB " + coq_attr(a) for a in c["pattrs"]),
        "; ".join("AB " + coq_attr(a) for a in c["own"]),
        "true" if c["has_protocol_base"] else "false"))
  out.append("  | _ => None")
  out.append("  end.")
  out.append("")
  out.append("Definition gen_compat : list (cid * cid) := [%s]." %
             "; ".join("(%s, %s)" % (cid(a), cid(b)) for a, b in tbl["compat"]))
  out.append("Definition gen_noniter_abcs : list cid := [%s]." % "; ".join(cid(a) for a in tbl["noniter_abcs"]))
  out.append("Definition gen_str_types : list cid := [%s]." % "; ".join(cid(a) for a in tbl["str_types"]))
  out.append("Definition gen_class_accept : list cid := [%s]." % "; ".join(cid(a) for a in tbl["class_accept"]))
  out.append("Definition gen_function_type : cid := %s." % cid(tbl["function_type"]))
  out.append("")
  out.append("Definition gen_builtins : btable :=")
  out.append("  {| bt_info := gen_binfo; bt_compat := gen_compat; bt_noniter_abcs := gen_noniter_abcs;")
  out.append("     bt_str_types := gen_str_types; bt_class_accept := gen_class_accept;")
  out.append("     bt_function_type := gen_function_type |}.")
  return "\n".join(out) + "\n"
