"""C05: generator of small Python programs (no stdlib imports except typing) whose inferred stubs exercise the
printer: functions with defaults / *args / keyword-only / positional-only parameters, classes with bases, generics,
properties, static and class methods, nested classes, TypeVars, Optional/Union/Callable/tuple/Literal/type[...]
annotations, aliases, constants, mutated parameters."""

SIMPLE = ["int", "str", "float", "bool", "bytes", "complex", "object", "None"]


class ProgGen:
  def __init__(self, r, allow_self=False):
    self.r = r
    self.allow_self = allow_self          # typing.Self only once its finding is listed
    self.metas = []
    self.classes = []
    self.tvars = []
    self.lines = []
    self.n = 0

  def fresh(self, p):
    self.n += 1
    return "%s%d" % (p, self.n)

  def lit(self):
    r = self.r
    return r.choice(["0", "1", "2", "-1", "True", "False", "'a'", "'b c'", "b'x'", "None", "7"])

  def ann(self, depth=2, allow_tvar=True):
    r = self.r
    if depth <= 0 or r.random() < 0.3:
      k = r.random()
      if k < 0.6:
        return r.choice(SIMPLE)
      if k < 0.75 and self.classes:
        return r.choice(self.classes)
      if k < 0.85 and self.tvars and allow_tvar:
        return r.choice(self.tvars)
      if k < 0.92:
        return "Any"
      return r.choice(["NoReturn", "list", "dict", "tuple", "type"])
    sub = lambda: self.ann(depth - 1, allow_tvar)
    k = r.random()
    if k < 0.12:
      return "Optional[%s]" % sub()
    if k < 0.27:
      n = r.choice([2, 2, 3, 4])
      return "Union[%s]" % ", ".join(sub() for _ in range(n))
    if k < 0.37:
      return "List[%s]" % sub()
    if k < 0.44:
      return "Dict[%s, %s]" % (r.choice(["str", "int"]), sub())
    if k < 0.50:
      return "Set[%s]" % sub()
    if k < 0.57:
      return "Tuple[%s, ...]" % sub()
    if k < 0.64:
      n = r.choice([0, 1, 2, 3])
      return "Tuple[()]" if n == 0 else "Tuple[%s]" % ", ".join(sub() for _ in range(n))
    if k < 0.73:
      n = r.choice([0, 1, 1, 2])
      return "Callable[[%s], %s]" % (", ".join(sub() for _ in range(n)), sub())
    if k < 0.78:
      return "Callable[..., %s]" % sub()
    if k < 0.88:
      n = r.choice([1, 2, 3])
      return "Literal[%s]" % ", ".join(self.lit() for _ in range(n))
    if k < 0.94:
      return "Type[%s]" % r.choice(SIMPLE[:5] + self.classes)
    if k < 0.97:
      return "Sequence[%s]" % sub()
    return "Iterable[%s]" % sub()

  def default_for(self):
    return self.r.choice(["None", "0", "''", "1.0", "()", "[]", "True", "b''"])

  def params(self, method=None):
    """Returns (param source, list of names)."""
    r = self.r
    names = ["a", "b", "c", "d", "e", "x", "y", "z", "u", "v", "w", "g"]
    r.shuffle(names)
    parts = []
    used = []
    if method == "self":
      parts.append("self")
    elif method == "cls":
      parts.append("cls")
    npos = r.choice([0, 0, 0, 1, 2])
    nreg = r.choice([0, 1, 1, 2, 3])
    nkw = r.choice([0, 0, 1, 2])
    seen_def = False

    def one(nm, force_def=False, kwonly=False):
      nonlocal seen_def
      ann = r.random() < 0.75
      has_def = force_def or r.random() < (0.4 if kwonly else 0.3)
      s = nm
      if ann:
        s += ": " + self.ann()
      if has_def:
        s += " = " + self.default_for()
        if not kwonly:
          seen_def = True
      used.append(nm)
      return s

    for _ in range(npos):
      parts.append(one(names.pop(), seen_def))
    if npos:
      parts.append("/")
    for _ in range(nreg):
      parts.append(one(names.pop(), seen_def))
    if r.random() < 0.3:
      nm = names.pop()
      parts.append("*" + nm + (": " + self.ann(1) if r.random() < 0.5 else ""))
      used.append(nm)
    elif nkw:
      parts.append("*")
    else:
      nkw = 0
    for _ in range(nkw):
      parts.append(one(names.pop(), False, True))
    if r.random() < 0.3:
      nm = names.pop()
      parts.append("**" + nm + (": " + self.ann(1) if r.random() < 0.5 else ""))
      used.append(nm)
    if parts and parts[-1] == "/" and len(parts) == 1:
      parts = []
    return ", ".join(parts), used

  def body(self, used, indent):
    r = self.r
    k = r.random()
    pad = " " * indent
    if k < 0.35:
      return pad + "...\n"
    if k < 0.5 and used:
      return pad + "return %s\n" % r.choice(used)
    if k < 0.6:
      return pad + "raise ValueError()\n"
    if k < 0.7 and used:
      return pad + "return [%s]\n" % ", ".join(r.sample(used, min(len(used), 2)))
    if k < 0.8 and used:
      return pad + "return (%s,)\n" % r.choice(used)
    if k < 0.9:
      return pad + "return %s\n" % r.choice(["1", "'s'", "None", "1.5", "{}", "[1]", "(1, 'a')"])
    return pad + "pass\n"

  def func(self, indent=0, method=None, name=None, deco=None):
    r = self.r
    pad = " " * indent
    name = name or self.fresh("f")
    ps, used = self.params(method)
    ret = (" -> " + self.ann()) if r.random() < 0.6 else ""
    s = ""
    if deco:
      s += pad + deco + "\n"
    s += pad + "def %s(%s)%s:\n" % (name, ps, ret)
    s += self.body(used, indent + 2)
    return s

  def klass(self, indent=0, depth=0):
    r = self.r
    pad = " " * indent
    name = self.fresh("C")
    bases = []
    k = r.random()
    if k < 0.15 and self.tvars:
      bases.append("Generic[%s]" % r.choice(self.tvars))
    elif k < 0.22 and len(self.tvars) >= 2:
      tv = r.sample(self.tvars, 2)
      bases.append("Generic[%s, %s]" % (tv[0], tv[1]))
    elif k < 0.28 and self.tvars:
      bases.append("Protocol[%s]" % r.choice(self.tvars))
    elif k < 0.42 and self.classes:
      bases.append(r.choice(self.classes))
    elif k < 0.50:
      bases.append(r.choice(["List[int]", "Dict[str, int]", "object", "Exception"]))
    elif k < 0.56 and indent == 0:
      # NamedTuple / TypedDict in class form
      if r.random() < 0.5:
        s = pad + "class %s(NamedTuple):\n" % name
        s += pad + "  a: %s\n" % self.ann(1, allow_tvar=False)
        s += pad + "  b: %s = %s\n" % (r.choice(["int", "str"]), r.choice(["1", "'x'"])) if r.random() < 0.6 else ""
      else:
        s = pad + "class %s(TypedDict%s):\n" % (name, ", total=False" if r.random() < 0.5 else "")
        s += pad + "  k: %s\n" % self.ann(1, allow_tvar=False)
        s += pad + "  v: %s\n" % self.ann(1, allow_tvar=False) if r.random() < 0.6 else ""
      self.classes.append(name)
      return s
    if r.random() < 0.1 and indent == 0 and self.metas and not any(b.startswith(("Generic", "Protocol")) for b in bases):
      bases.append("metaclass=" + r.choice(self.metas))
    s = ""
    if r.random() < 0.12:
      s += pad + "@final\n"
    s += pad + "class %s%s:\n" % (name, "(" + ", ".join(bases) + ")" if bases else "")
    n = 0
    # __slots__: absent, empty, one, several; sometimes the only content of the class
    sl = r.choice([None, None, None, None, "()", "()", "('x',)", "('a', 'b')"])
    if sl is not None and not any(b.startswith(("List", "Dict", "Exception")) for b in bases):
      s += pad + "  __slots__ = %s\n" % sl
      n += 1
      if r.random() < 0.4:
        if indent == 0:
          self.classes.append(name)
        return s
    if r.random() < 0.08:
      s += pad + "  pass\n"
      if indent == 0:
        self.classes.append(name)
      return s
    if r.random() < 0.6 and sl is None:
      for _ in range(r.choice([1, 2])):
        s += pad + "  %s: %s%s\n" % (self.fresh("v"), self.ann(), " = " + self.default_for() if r.random() < 0.3 else "")
        n += 1
    if r.random() < 0.5 and sl is None:
      s += pad + "  def __init__(self%s) -> None:\n" % (", q: " + self.ann() if r.random() < 0.6 else ", q=1")
      s += pad + "    self.%s = q\n" % self.fresh("at")
      n += 1
    for _ in range(r.choice([0, 1, 2, 3])):
      k = r.random()
      if k < 0.4:
        s += self.func(indent + 2, "self", deco="@final" if r.random() < 0.1 else None)
      elif k < 0.52:
        s += self.func(indent + 2, "cls", deco="@classmethod")
      elif k < 0.64:
        s += self.func(indent + 2, None, deco="@staticmethod")
      elif k < 0.74:
        on = self.fresh("o")
        s += pad + "  @overload\n" + pad + "  def %s(self, x: int) -> int: ...\n" % on
        s += pad + "  @overload\n" + pad + "  def %s(self, x: str) -> str: ...\n" % on
        s += pad + "  def %s(self, x):\n" % on + pad + "    return x\n"
      elif k < 0.80 and self.allow_self:
        s += pad + "  def %s(self%s) -> Self:\n" % (self.fresh("sf"), ", other: Self" if r.random() < 0.4 else "")
        s += pad + "    return self\n"
      else:
        pn = self.fresh("p")
        s += pad + "  @property\n" + pad + "  def %s(self)%s:\n" % (pn, " -> " + self.ann() if r.random() < 0.6 else "")
        s += pad + "    return %s\n" % r.choice(["1", "'s'", "None", "self"])
        if r.random() < 0.4:
          s += pad + "  @%s.setter\n" % pn + pad + "  def %s(self, v) -> None:\n" % pn + pad + "    pass\n"
          if r.random() < 0.4:
            s += pad + "  @%s.deleter\n" % pn + pad + "  def %s(self) -> None:\n" % pn + pad + "    pass\n"
      n += 1
    if depth < 2 and r.random() < 0.3:
      inner_before = self.n
      s += self.klass(indent + 2, depth + 1)
      n += 1
      if r.random() < 0.4:
        # alias to the nested class just defined
        m = [l for l in s.split("\n") if l.startswith(pad + "  class ") or l.startswith(pad + "  @final")]
        nested = [l.strip()[6:].split("(")[0].split(":")[0] for l in m if l.strip().startswith("class ")]
        if nested:
          s += pad + "  %s = %s\n" % (self.fresh("al"), nested[-1])
    if not n:
      s += pad + "  pass\n"
    if indent == 0:
      self.classes.append(name)
    return s

  def program(self):
    r = self.r
    out = ["from typing import (Any, Callable, Dict, Generic, Iterable, List, Literal, NamedTuple, NoReturn, Optional,",
           "                    ParamSpec, Protocol, Self, Sequence, Set, Tuple, Type, TypedDict, TypeVar, Union, final,",
           "                    overload)", ""]
    if r.random() < 0.3:
      mn = self.fresh("Meta")
      out.append("class %s(type): pass" % mn)
      self.metas.append(mn)
    for _ in range(r.choice([0, 1, 1, 2, 2])):
      tv = self.fresh("T")
      k = r.random()
      if k < 0.6:
        out.append("%s = TypeVar(%r)" % (tv, tv))
      elif k < 0.8:
        out.append("%s = TypeVar(%r, bound=int)" % (tv, tv))
      else:
        out.append("%s = TypeVar(%r, int, str)" % (tv, tv))
      self.tvars.append(tv)
    n_items = r.choice([2, 3, 4, 5, 6])
    for _ in range(n_items):
      k = r.random()
      if k < 0.4:
        out.append(self.func())
      elif k < 0.7:
        out.append(self.klass())
      elif k < 0.74 and self.classes:
        out.append("%s = %s" % (self.fresh("CAlias"), r.choice(self.classes)))      # alias to a class
      elif k < 0.77 and self.tvars:
        ps = self.fresh("P")
        out.append("%s = ParamSpec(%r)" % (ps, ps))
        out.append("def %s(f: Callable[%s, %s]) -> Callable[%s, %s]:\n  return f\n" % (self.fresh("deco"), ps, self.tvars[0], ps, self.tvars[0]))
      elif k < 0.8:
        out.append("%s = %s" % (self.fresh("Alias"), self.ann(2, allow_tvar=False)))
      elif k < 0.9:
        out.append("%s: %s = %s" % (self.fresh("k"), self.ann(2, allow_tvar=False), self.default_for()))
      else:
        # a function that mutates a container parameter
        nm = self.fresh("m")
        out.append("def %s(x: List[int], y: Dict[str, int]) -> None:\n  x.append(%s)\n  y[%s] = %s\n"
                   % (nm, r.choice(["'a'", "1.5", "None"]), r.choice(["1", "'k'"]), r.choice(["'v'", "2"])))
    return "\n".join(out) + "\n"


def gen_program(r, allow_self=False):
  return ProgGen(r, allow_self).program()
