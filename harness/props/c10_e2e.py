"""C10 end-to-end worker: runs real pytype (io.generate_pyi) on generated programs.

stdin: one JSON list of jobs {id, text, pyi (optional stub text for module foo)};
stdout: one JSON line per job {id, errors: [[name, line, message]], pyi, mro_calls: [[cls, [bases], [mro]|null]], exc}.
Every call of class_mixin.Class.compute_mro on a class named C<n> is recorded (observation only: the
wrapper calls the original and returns/raises what it returned/raised).
"""
import json
import os
import re
import shutil
import sys

import common


def install_hook():
  """Wraps class_mixin.Class.compute_mro (observation only: the wrapper calls the original and returns or
  raises exactly what it returned or raised).  Returns the list that receives [name, None, mro names | None]
  for every class named C<n>.  Call after common.bootstrap_pytype()."""
  from pytype.abstract import _classes, class_mixin
  from pytype.pytd import mro

  calls = []
  orig = class_mixin.Class.compute_mro
  user = re.compile(r"^(?:foo\.)?C(\d+)$")

  def nm(c):
    n = getattr(c, "full_name", None) or getattr(c, "name", "?")
    # a ParameterizedClass (A[T], Generic[T]) carries the name of its base_cls: mark it (c10_attr.gname_to_ref)
    return n + "[p]" if isinstance(c, _classes.ParameterizedClass) else n

  def wrapped(self):
    m = user.match(nm(self))
    try:
      r = orig(self)
    except mro.MROError:
      if m:
        calls.append([nm(self), None, None])
      raise
    if m:
      calls.append([nm(self), None, [nm(c) for c in r]])
    return r

  patched = 0
  for v in vars(_classes).values():
    if isinstance(v, type) and v.__dict__.get("compute_mro") is orig:
      v.compute_mro = wrapped
      patched += 1
  if not patched:
    raise RuntimeError("compute_mro hook: no class carries class_mixin.Class.compute_mro")
  return calls


def main():
  common.bootstrap_pytype()
  from pytype import config, io
  calls = install_hook()

  jobs = json.load(sys.stdin)
  scratch = os.path.join(common.BUILD, "c10", "stubs", str(os.getpid()))
  for job in jobs:
    del calls[:]
    out = {"id": job["id"], "errors": [], "pyi": "", "mro_calls": [], "exc": None}
    try:
      kw = {}
      if job.get("pyi") is not None:
        shutil.rmtree(scratch, ignore_errors=True)
        os.makedirs(scratch)
        with open(os.path.join(scratch, "foo.pyi"), "w") as f:
          f.write(job["pyi"])
        kw["pythonpath"] = scratch
      opts = config.Options.create(python_version=(3, 12), **kw)
      ret, pyi = io.generate_pyi(job["text"], opts)
      out["errors"] = [[e.name, e.line, e.message] for e in ret.context.errorlog]
      out["pyi"] = pyi
    except Exception as e:  # reported to the parent, which decides (UsageError = not explorable)
      out["exc"] = "%s: %s" % (type(e).__name__, str(e)[:300])
    out["mro_calls"] = list(calls)
    sys.stdout.write(json.dumps(out) + "\n")
    sys.stdout.flush()
  shutil.rmtree(scratch, ignore_errors=True)


if __name__ == "__main__":
  main()
