"""C11 helpers: class universe, generator of pytd declarations, canonical s-expression codec,
implementation runner and the independent finite-universe membership oracle.

Import only after common.bootstrap_pytype() (pytype.pytd.base_visitor imports the C++ typegraph).
"""
import collections
import itertools

from pytype.pytd import optimize
from pytype.pytd import pytd
from pytype.pytd import visitors

# ----------------------------------------------------------------------------------------------
# universe: class name <-> id.  Ids 1..8 are fixed by coq/Opt/Syntax.v (names the optimiser mentions).
FIXED = {
    1: "builtins.object", 2: "builtins.NoneType", 3: "builtins.tuple", 4: "typing.Tuple",
    5: "typing.Callable", 6: "NoneType", 7: "builtins.type", 8: "builtins.int",
    9: "typing.Sequence", 10: "builtins.list", 11: "builtins.dict", 12: "dep.G", 13: "dep.GS",
}
# direct bases of the fixed classes (ids); 6 ("NoneType", the unresolved spelling) is not a class
FIXED_BASES = {1: [], 2: [1], 3: [1], 4: [1], 5: [1], 7: [1], 8: [1], 9: [1], 10: [9], 11: [1],
               12: [1], 13: [12]}
USER_IDS = list(range(20, 27))          # the 7-class hierarchy K0..K6
GENERIC_BASES = {10: 1, 11: 2, 9: 1, 12: 1, 13: 1}     # container id -> arity


class Universe:
  """One hierarchy: which user classes exist, where (node or deps) and their bases."""

  def __init__(self, r):
    self.names = dict(FIXED)
    self.bases = {k: list(v) for k, v in FIXED_BASES.items()}
    self.in_node = set()
    for i, cid in enumerate(USER_IDS):
      local = r.random() < 0.6
      self.names[cid] = ("K%d" % i) if local else ("dep.K%d" % i)
      if local:
        self.in_node.add(cid)
      cands = [1, 10, 12] + USER_IDS[:i]
      nb = 1 if r.random() < 0.7 else 2
      bs = []
      for _ in range(nb):
        # prefer other user classes so that chains and diamonds are common
        pool = USER_IDS[:i] if (USER_IDS[:i] and r.random() < 0.75) else cands
        b = r.choice(pool)
        if b not in bs:
          bs.append(b)
      self.bases[cid] = bs
    self.ids = {n: i for i, n in self.names.items()}
    self._deps = None

  def class_ids(self):
    return [c for c in self.names if c != 6]

  def hier_table(self, node_first=True):
    """Effective superclass table as Optimize builds it: node entries shadow deps entries."""
    node = [(c, self.bases[c]) for c in sorted(self.in_node)]
    deps = [(c, self.bases[c]) for c in sorted(self.bases) if c not in self.in_node]
    return node, deps

  def mk_class(self, cid, methods=(), constants=()):
    return pytd.Class(name=self.names[cid], keywords=(),
                      bases=tuple(pytd.ClassType(self.names[b]) for b in self.bases[cid]),
                      methods=tuple(methods), constants=tuple(constants), classes=(), decorators=(),
                      slots=None, template=())

  def deps(self):
    if self._deps is None:
      classes = tuple(self.mk_class(c) for c in sorted(self.bases) if c not in self.in_node)
      d = pytd.TypeDeclUnit(name="deps", constants=(), type_params=(), classes=classes, functions=(),
                            aliases=())
      # node-local bases cannot be resolved from deps alone; deps classes only have deps/fixed bases
      self._deps = d
    return self._deps


def subclass_closure(table):
  """table: dict id -> list of direct bases.  Returns dict id -> set of all (reflexive) ancestors."""
  anc = {}
  def go(c, seen):
    if c in anc:
      return anc[c]
    res = {c}
    if c in seen:
      return res
    for b in table.get(c, []):
      res |= go(b, seen | {c})
    anc[c] = res
    return res
  for c in list(table):
    go(c, frozenset())
  return anc


# ----------------------------------------------------------------------------------------------
# generator (builds real pytd nodes through the real constructors)

class Gen:
  def __init__(self, r, uni, kind, allow_named_none=True, templates=False):
    self.r = r
    self.u = uni
    self.kind = kind            # "n" NamedType, "c" ClassType, "mixed"
    self.allow_named_none = allow_named_none
    self.templates = templates  # generic classes / signatures with TypeParameters (bounds, constraints)
    self.tvars = []             # the TypeParameters in scope at the position being generated
    self._tp = 0

  def new_tparam(self, scope, plain=False):
    """A fresh TypeParameter; 25% bounded, 10% constrained (bounds/constraints are parameter-free types)."""
    r = self.r
    self._tp += 1
    x = r.random()
    bound, cons = None, ()
    if not plain:
      if x < 0.25:
        bound = self.ref(r.choice([8, 1, 9] + USER_IDS[:3]))
      elif x < 0.35:
        cons = tuple(self.ref(c) for c in r.sample([8, 2, 10, 9] + USER_IDS[:2], 2))
    return pytd.TypeParameter(name="T%d" % self._tp, constraints=cons, bound=bound, scope=scope)

  def ref(self, cid):
    k = self.kind if self.kind != "mixed" else self.r.choice("nc")
    name = self.u.names[cid]
    return pytd.NamedType(name) if k == "n" else pytd.ClassType(name)

  def leaf(self):
    r = self.r
    if self.tvars and r.random() < 0.3:
      return r.choice(self.tvars)
    x = r.random()
    if x < 0.08:
      return pytd.AnythingType()
    if x < 0.11:
      return pytd.NothingType()
    if x < 0.16:
      return pytd.Literal(value=r.randrange(3))
    if x < 0.24:
      return self.ref(1)
    if x < 0.31:
      if self.kind == "n" and self.allow_named_none and r.random() < 0.3:
        return pytd.NamedType("NoneType")
      return self.ref(2)
    if x < 0.38:
      return self.ref(r.choice([8, 10, 9, 3, 11, 12]))
    return self.ref(r.choice(USER_IDS))

  def ty(self, depth, width=None):
    r = self.r
    if depth <= 0:
      return self.leaf()
    x = r.random()
    if x < 0.30:
      return self.leaf()
    if x < 0.58:
      w = width if width is not None else r.choice([2, 2, 2, 3, 3, 4, 5, 6, 7, 8, 9])
      members = []
      style = r.random()
      if len(self.tvars) >= 2 and r.random() < 0.6:
        # unions of type parameters: what MergeTypeParameters looks for
        members = r.sample(self.tvars, r.choice([2, 2, 3]) if len(self.tvars) >= 3 else 2)
        w = max(0, min(w, 3) - len(members)) + (1 if r.random() < 0.3 else 0)
      for i in range(w):
        if style < 0.35 and members and r.random() < 0.6:
          # same-base containers / related members so that merging and absorption fire
          m = self.related(r.choice(members), depth - 1)
        else:
          m = self.ty(depth - 1)
        members.append(m)
      return pytd.UnionType(tuple(members))
    if x < 0.80:
      cid = r.choice(list(GENERIC_BASES) + USER_IDS[:2] + [3])
      arity = GENERIC_BASES.get(cid, 1)
      if r.random() < 0.05:
        arity = r.choice([1, 2])
      return pytd.GenericType(self.ref(cid), tuple(self.ty(depth - 1) for _ in range(arity)))
    if x < 0.91:
      n = r.choice([0, 1, 1, 2, 2, 3])
      return pytd.TupleType(self.ref(r.choice([3, 3, 3, 4])), tuple(self.ty(depth - 1) for _ in range(n)))
    n = r.choice([0, 1, 1, 2])
    return pytd.CallableType(self.ref(5), tuple(self.ty(depth - 1) for _ in range(n + 1)))

  def related(self, m, depth):
    """A type likely to interact with m inside a union."""
    r = self.r
    if isinstance(m, pytd.TupleType):
      if r.random() < 0.5:
        return pytd.GenericType(m.base_type, (self.ty(depth),))
      n = r.choice([len(m.parameters), len(m.parameters) + 1, 1])
      return pytd.TupleType(m.base_type, tuple(self.ty(depth) for _ in range(n)))
    if isinstance(m, pytd.CallableType):
      if r.random() < 0.4:
        return pytd.GenericType(m.base_type, (pytd.AnythingType(), self.ty(depth)))
      n = r.choice([len(m.parameters), len(m.parameters) + 1])
      return pytd.CallableType(m.base_type, tuple(self.ty(depth) for _ in range(max(1, n))))
    if isinstance(m, pytd.GenericType):
      x = r.random()
      if x < 0.25:
        return m.base_type
      if x < 0.45:
        return pytd.GenericType(m.base_type, tuple(pytd.AnythingType() for _ in m.parameters))
      if x < 0.55:
        return pytd.GenericType(m.base_type, tuple(self.ref(1) for _ in m.parameters))
      return pytd.GenericType(m.base_type, tuple(self.ty(depth) for _ in m.parameters))
    if isinstance(m, (pytd.NamedType, pytd.ClassType)):
      cid = self.u.ids.get(m.name)
      if cid in USER_IDS:
        rel = [c for c in USER_IDS if cid in self.u.bases[c]] + list(self.u.bases[cid])
        if rel and r.random() < 0.8:
          return self.ref(r.choice(rel))
      if cid in GENERIC_BASES and r.random() < 0.6:
        return pytd.GenericType(m, tuple(self.ty(depth) for _ in range(GENERIC_BASES[cid])))
    return self.ty(depth)

  def param(self, idx, name=None, allow_mut=True):
    r = self.r
    t = self.ty(r.choice([0, 1, 2, 2, 3]))
    mut = None
    if allow_mut and r.random() < 0.2:
      mut = self.related(t, 1) if r.random() < 0.6 else self.ty(2)
    kind = r.choice([pytd.ParameterKind.REGULAR] * 4 + [pytd.ParameterKind.POSONLY, pytd.ParameterKind.KWONLY])
    return pytd.Parameter(name=name or ("p%d" % idx), type=t, kind=kind, optional=r.random() < 0.2,
                          mutated_type=mut)

  def signature(self, params=None, template=()):
    r = self.r
    if params is None:
      params = tuple(self.param(i + 2) for i in range(r.choice([0, 1, 1, 2, 3])))
    star = self.param(90, "args", False) if r.random() < 0.1 else None
    starstar = self.param(91, "kwargs", False) if r.random() < 0.1 else None
    exc = tuple(self.ty(1) for _ in range(r.choice([0, 0, 0, 1, 2])))
    return pytd.Signature(params=tuple(params), starargs=star, starstarargs=starstar,
                          return_type=self.ty(r.choice([1, 2, 3, 3])), exceptions=exc,
                          template=tuple(pytd.TemplateItem(t) for t in template))

  def function(self, idx, cls_id=None):
    r = self.r
    kind = pytd.MethodKind.METHOD
    first = None
    if cls_id is not None:
      kind = r.choice([pytd.MethodKind.METHOD] * 3 + [pytd.MethodKind.STATICMETHOD, pytd.MethodKind.CLASSMETHOD,
                                                     pytd.MethodKind.PROPERTY])
      x = r.random()
      if kind in (pytd.MethodKind.METHOD, pytd.MethodKind.PROPERTY):
        if x < 0.3:
          st = pytd.AnythingType()
        elif x < 0.6:
          st = pytd.GenericType(self.ref(cls_id), (self.ty(1),))
        elif x < 0.7:
          st = pytd.GenericType(self.ref(r.choice(USER_IDS)), (self.ty(1),))
        else:
          st = self.ref(cls_id)
        first = pytd.Parameter(name="self", type=st, kind=pytd.ParameterKind.REGULAR, optional=False,
                               mutated_type=self.ty(2) if r.random() < 0.2 else None)
      elif kind == pytd.MethodKind.CLASSMETHOD:
        first = pytd.Parameter(name="cls", type=pytd.AnythingType() if x < 0.6 else self.ty(1),
                               kind=pytd.ParameterKind.REGULAR, optional=False, mutated_type=None)
    nsig = r.choice([1, 1, 2, 2, 3, 4])
    sigs = []
    base_params = None
    outer = list(self.tvars)
    ftps = []
    if self.templates and r.random() < (0.7 if outer else 0.35):
      ftps = [self.new_tparam("f%d" % idx) for _ in range(r.choice([1, 1, 2, 3]))]
    self.tvars = outer + ftps
    try:
      for _ in range(nsig):
        if base_params is not None and r.random() < 0.65:
          # overloads that differ only in return/exceptions, or exact duplicates
          prev = r.choice(sigs)
          if r.random() < 0.3:
            sigs.append(prev)
          else:
            s = self.signature(params=prev.params, template=ftps)
            sigs.append(s.Replace(starargs=prev.starargs, starstarargs=prev.starstarargs))
          continue
        ps = [self.param(i + 2) for i in range(r.choice([0, 1, 1, 2, 3] if not ftps else [1, 1, 2, 3]))]
        if first is not None:
          ps = [first] + ps
        base_params = ps
        sigs.append(self.signature(params=ps, template=ftps))
    finally:
      self.tvars = outer
    return pytd.Function(name="f%d" % idx, signatures=tuple(sigs), kind=kind)

  def constant(self, idx):
    return pytd.Constant(name="x%d" % idx, type=self.ty(self.r.choice([1, 2, 3, 3])))

  def unit(self, n_decl):
    r = self.r
    consts, funcs = [], []
    for i in range(n_decl):
      if r.random() < 0.5:
        consts.append(self.constant(i))
      else:
        funcs.append(self.function(i))
    classes = []
    for cid in sorted(self.u.in_node):
      ms, cs = [], []
      ctps = []
      if self.templates and r.random() < 0.55:
        ctps = [self.new_tparam(self.u.names[cid], plain=r.random() < 0.6) for _ in range(r.choice([1, 1, 2]))]
      self.tvars = list(ctps)
      if r.random() < (0.9 if ctps else 0.35):
        for j in range(r.choice([1, 1, 2])):
          if r.random() < 0.7 or ctps:
            ms.append(self.function(100 + j, cls_id=cid))
          else:
            cs.append(self.constant(100 + j))
      self.tvars = []
      cls = self.u.mk_class(cid, ms, cs)
      if ctps:
        cls = cls.Replace(template=tuple(pytd.TemplateItem(t) for t in ctps))
      if self.kind == "n":
        cls = cls.Replace(bases=tuple(pytd.NamedType(b.name) for b in cls.bases))
      classes.append(cls)
    return pytd.TypeDeclUnit(name="m", constants=tuple(consts), type_params=(), classes=tuple(classes),
                             functions=tuple(funcs), aliases=())


# ----------------------------------------------------------------------------------------------
# canonical s-expression codec (same syntax as harness/ocaml/opt_driver.ml)

class Unsupported(Exception):
  pass


_PK = {pytd.ParameterKind.REGULAR: 0, pytd.ParameterKind.POSONLY: 1, pytd.ParameterKind.KWONLY: 2}
_MK = {pytd.MethodKind.METHOD: 0, pytd.MethodKind.STATICMETHOD: 1, pytd.MethodKind.CLASSMETHOD: 2,
       pytd.MethodKind.PROPERTY: 3}


def _num(name, prefix):
  if not name.startswith(prefix) or not name[len(prefix):].isdigit():
    raise Unsupported("name %r" % name)
  return int(name[len(prefix):])


def pname(name):
  if name == "self":
    return 0
  if name == "cls":
    return 1
  if name == "args":
    return 90
  if name == "kwargs":
    return 91
  return _num(name, "p")


class Codec:
  def __init__(self, uni):
    self.u = uni

  def base(self, b):
    cls = type(b)
    if cls is pytd.NamedType:
      k = "n"
    elif cls is pytd.ClassType:
      k = "c"
    else:
      raise Unsupported("base %r" % (b,))
    if b.name not in self.u.ids:
      raise Unsupported("class name %r" % b.name)
    return k + str(self.u.ids[b.name])

  def scope(self, sc):
    """None -> 0, a class of the universe -> its id, "f<k>" -> 1000 + k"""
    if sc is None:
      return 0
    if sc in self.u.ids:
      return self.u.ids[sc]
    return 1000 + _num(sc, "f")

  def tmpl(self, items):
    for it in items:
      if type(it.type_param) is not pytd.TypeParameter:
        raise Unsupported("template item %r" % (it,))
    return " (tmpl%s)" % "".join(" " + self.ty(it.type_param) for it in items) if items else ""

  def ty(self, t):
    cls = type(t)
    if cls in (pytd.NamedType, pytd.ClassType):
      return self.base(t)
    if cls is pytd.AnythingType:
      return "A"
    if cls is pytd.NothingType:
      return "Z"
    if cls is pytd.Literal:
      if type(t.value) is not int:
        raise Unsupported("literal %r" % (t,))
      return "L%d" % t.value
    if cls is pytd.UnionType:
      return "(U %s)" % " ".join(self.ty(x) for x in t.type_list)
    if cls is pytd.TypeParameter:
      if t.default is not None:
        raise Unsupported("type parameter default")
      kids = ([t.bound] if t.bound is not None else []) + list(t.constraints)
      return "(V %d %d %d%s)" % (_num(t.name, "T"), self.scope(t.scope), 1 if t.bound is not None else 0,
                                 "".join(" " + self.ty(x) for x in kids))
    tag = {pytd.GenericType: "G", pytd.TupleType: "T", pytd.CallableType: "F"}.get(cls)
    if tag is None:
      raise Unsupported("type node %s" % cls.__name__)
    return "(%s %s)" % (tag, " ".join([self.base(t.base_type)] + [self.ty(x) for x in t.parameters]))

  def param(self, p):
    if p is None:
      return "-"
    return "(P %d %s %d %d %s)" % (pname(p.name), self.ty(p.type), _PK[p.kind], 1 if p.optional else 0,
                                   "-" if p.mutated_type is None else self.ty(p.mutated_type))

  def sig(self, s):
    return "(S (params%s) %s %s %s (exc%s)%s)" % (
        "".join(" " + self.param(p) for p in s.params), self.param(s.starargs), self.param(s.starstarargs),
        self.ty(s.return_type), "".join(" " + self.ty(e) for e in s.exceptions), self.tmpl(s.template))

  def func(self, f):
    if f.decorators or f.flags != pytd.MethodFlag.NONE:
      raise Unsupported("function flags/decorators")
    return "(D %d %d%s)" % (_num(f.name, "f"), _MK[f.kind], "".join(" " + self.sig(s) for s in f.signatures))

  def const(self, c):
    if c.value is not None:
      raise Unsupported("constant value")
    return "(K %d %s)" % (_num(c.name, "x"), self.ty(c.type))

  def cls(self, c):
    if c.keywords or c.classes or c.decorators or c.slots is not None:
      raise Unsupported("class features")
    return "(C %d (bases%s) (methods%s) (consts%s)%s)" % (
        self.u.ids[c.name], "".join(" " + self.base(b) for b in c.bases),
        "".join(" " + self.func(f) for f in c.methods), "".join(" " + self.const(k) for k in c.constants),
        self.tmpl(c.template))

  def unit(self, u):
    if u.type_params or u.aliases:
      raise Unsupported("unit features")
    return "(unit (consts%s) (classes%s) (funcs%s))" % (
        "".join(" " + self.const(c) for c in u.constants), "".join(" " + self.cls(c) for c in u.classes),
        "".join(" " + self.func(f) for f in u.functions))

  def hier(self, entries):
    return "(hier%s)" % "".join(" (%s)" % " ".join(map(str, [c] + list(bs))) for c, bs in entries)


def opts_sx(o):
  return "(opts %d %d %d %d %d %d)" % (1 if o["deps"] else 0, 1 if o.get("lossy") else 0,
                                      1 if o.get("use_abcs") else 0, o["max_union"],
                                      1 if o["remove_mutable"] else 0, 1 if o["can_do_lookup"] else 0)


# --- decoding (for replay / corpus): s-expression -> real pytd nodes
def parse_sx(s):
  toks = s.replace("(", " ( ").replace(")", " ) ").split()
  pos = 0
  def item():
    nonlocal pos
    t = toks[pos]
    pos += 1
    if t == "(":
      out = []
      while toks[pos] != ")":
        out.append(item())
      pos += 1
      return out
    return t
  return item()


class Decoder:
  def __init__(self, names):
    self.names = names       # id -> name

  def base(self, a):
    n = self.names[int(a[1:])]
    return pytd.NamedType(n) if a[0] == "n" else pytd.ClassType(n)

  def ty(self, x):
    if isinstance(x, str):
      if x == "A":
        return pytd.AnythingType()
      if x == "Z":
        return pytd.NothingType()
      if x[0] == "L":
        return pytd.Literal(value=int(x[1:]))
      return self.base(x)
    tag = x[0]
    if tag == "U":
      return pytd.UnionType(tuple(self.ty(y) for y in x[1:]))
    if tag == "V":
      sc = int(x[2])
      scope = None if sc == 0 else ("f%d" % (sc - 1000) if sc >= 1000 else self.names[sc])
      kids = [self.ty(y) for y in x[4:]]
      bound = kids.pop(0) if x[3] == "1" else None
      return pytd.TypeParameter(name="T" + x[1], constraints=tuple(kids), bound=bound, scope=scope)
    cls = {"G": pytd.GenericType, "T": pytd.TupleType, "F": pytd.CallableType}[tag]
    return cls(self.base(x[1]), tuple(self.ty(y) for y in x[2:]))

  def param(self, x):
    if x == "-":
      return None
    n = int(x[1])
    name = {0: "self", 1: "cls", 90: "args", 91: "kwargs"}.get(n, "p%d" % n)
    kind = {v: k for k, v in _PK.items()}[int(x[3])]
    return pytd.Parameter(name=name, type=self.ty(x[2]), kind=kind, optional=x[4] == "1",
                          mutated_type=None if x[5] == "-" else self.ty(x[5]))

  def tmpl(self, x, i):
    return tuple(pytd.TemplateItem(self.ty(t)) for t in x[i][1:]) if len(x) > i else ()

  def sig(self, x):
    return pytd.Signature(params=tuple(self.param(p) for p in x[1][1:]), starargs=self.param(x[2]),
                          starstarargs=self.param(x[3]), return_type=self.ty(x[4]),
                          exceptions=tuple(self.ty(e) for e in x[5][1:]), template=self.tmpl(x, 6))

  def func(self, x):
    kind = {v: k for k, v in _MK.items()}[int(x[2])]
    return pytd.Function(name="f" + x[1], signatures=tuple(self.sig(s) for s in x[3:]), kind=kind)

  def const(self, x):
    return pytd.Constant(name="x" + x[1], type=self.ty(x[2]))

  def cls(self, x):
    return pytd.Class(name=self.names[int(x[1])], keywords=(), bases=tuple(self.base(b) for b in x[2][1:]),
                      methods=tuple(self.func(f) for f in x[3][1:]),
                      constants=tuple(self.const(c) for c in x[4][1:]), classes=(), decorators=(), slots=None,
                      template=self.tmpl(x, 5))

  def unit(self, x):
    return pytd.TypeDeclUnit(name="m", constants=tuple(self.const(c) for c in x[1][1:]), type_params=(),
                             classes=tuple(self.cls(c) for c in x[2][1:]),
                             functions=tuple(self.func(f) for f in x[3][1:]), aliases=())


# ----------------------------------------------------------------------------------------------
# implementation runner

def run_optimize(node, deps, o):
  """Calls the real optimize.Optimize the way pytype does (keyword settings)."""
  return optimize.Optimize(node, deps if o["deps"] else None, lossy=bool(o.get("lossy")),
                           use_abcs=bool(o.get("use_abcs")), max_union=o["max_union"],
                           remove_mutable=o["remove_mutable"], can_do_lookup=o["can_do_lookup"])


def unit_parts(u):
  return (u.constants, u.type_params, u.classes, u.functions, u.aliases)


def same_ast(a, b):
  """Structural identity of two pytd trees: node classes, field values and child order."""
  if isinstance(a, pytd.TypeDeclUnit):
    return isinstance(b, pytd.TypeDeclUnit) and repr(unit_parts(a)) == repr(unit_parts(b))
  return repr(a) == repr(b)


# ----------------------------------------------------------------------------------------------
# the independent membership oracle (values x real pytd types)

class V:
  """A value: ('obj', class name, contents) | ('tup', items) | ('fn', arity, result) | ('lit', n)."""
  __slots__ = ("tag", "a", "b")

  def __init__(self, tag, a=None, b=None):
    self.tag, self.a, self.b = tag, a, b

  def __repr__(self):
    if self.tag == "obj":
      return "%s%s" % (self.a, list(self.b) if self.b else "")
    if self.tag == "tup":
      return "tup%s" % (list(self.a),)
    if self.tag == "fn":
      return "fn/%d->%r" % (self.a, self.b)
    return "lit%d" % self.a


class Oracle:
  """admits(t, v) for real pytd types; hierarchy given by name -> set of (reflexive) ancestor names."""

  def __init__(self, ancestors, tuple_name="builtins.tuple", callable_name="typing.Callable",
               int_name="builtins.int"):
    self.anc = ancestors
    self.tuple_name, self.callable_name, self.int_name = tuple_name, callable_name, int_name

  def cls_of(self, v):
    return {"obj": v.a, "tup": self.tuple_name, "fn": self.callable_name, "lit": self.int_name}[v.tag] \
        if v.tag != "obj" else v.a

  def contents(self, v):
    if v.tag == "obj":
      return v.b
    if v.tag == "tup":
      return [list(v.a)]
    if v.tag == "fn":
      return [[], [v.b]]
    return []

  def sub(self, d, c):
    return c == d or c in self.anc.get(d, ())

  # --- type-directed values: inhabitants of a type, generated FROM the type (deterministic, no rng)
  def subclasses(self, c, limit=3):
    if not hasattr(self, "_subs"):
      self._subs = {}
    if c not in self._subs:
      self._subs[c] = [c] + sorted(d for d, a in self.anc.items() if d != c and c in a)
    return self._subs[c][:limit]

  def _cap(self, vals, n):
    if len(vals) <= n:
      return vals
    step = len(vals) / float(n)
    return [vals[int(i * step)] for i in range(n)]

  def class_values(self, c):
    """Bare instances of c and of a few subclasses; the special value shapes where c allows them."""
    out = [V("obj", d, []) for d in self.subclasses(c)]
    if self.sub(self.tuple_name, c):
      out.append(V("tup", []))
    if self.sub(self.callable_name, c):
      out.append(V("fn", 0, V("obj", c, [])))
    if self.sub(self.int_name, c):
      out.append(V("lit", 0))
    return out

  def inhabitants(self, t, depth=2, cap=48):
    """Values admitted by t: a few per union member; for generics every combination of per-position
    choices (empty / one / two items drawn from the parameter's inhabitants), for every (few) subclasses
    of the base; tuples of arity 0..3 for homogeneous tuples, exact arity for fixed ones; functions."""
    cls = type(t)
    if cls is pytd.AnythingType:
      return [V("obj", "builtins.object", []), V("lit", 1), V("tup", []), V("fn", 1, V("lit", 0))]
    if cls is pytd.NothingType:
      return []
    if cls in (pytd.NamedType, pytd.ClassType):
      return self.class_values(t.name)
    if cls is pytd.Literal:
      return [V("lit", t.value)] if type(t.value) is int else []
    if cls is pytd.TypeParameter:
      return self.inhabitants(t.upper_value, depth, cap)
    if cls is pytd.UnionType:
      out = []
      per = max(3, cap // max(1, len(t.type_list)))
      for m in t.type_list:
        out.extend(self._cap(self.inhabitants(m, depth, cap), per))
      return out
    if cls is pytd.GenericType:
      base = t.base_type.name
      if depth <= 0:
        return self.class_values(base)
      inner = [self._cap(self.inhabitants(p, depth - 1, 12), 4) for p in t.parameters]
      choices = []
      for items in inner:
        ch = [[]] + [[x] for x in items[:3]]
        if len(items) >= 2:
          ch.append([items[0], items[-1]])
        choices.append(ch)
      out = []
      for d in self.subclasses(base, 2):
        for combo in itertools.islice(itertools.product(*choices), 0, 30):
          out.append(V("obj", d, [list(c) for c in combo]))
      if self.sub(self.tuple_name, base) and inner:
        items = inner[0]
        out.append(V("tup", []))
        for n in (1, 2, 3):
          for k in range(min(3, len(items)) if items else 0):
            out.append(V("tup", [items[(k + j) % len(items)] for j in range(n)]))
      if self.sub(self.callable_name, base) and len(inner) >= 2:
        for ar in (0, 1, 2):
          for x in inner[1][:3]:
            out.append(V("fn", ar, x))
      return self._cap(out, cap)
    if cls is pytd.TupleType:
      if not self.sub(self.tuple_name, t.base_type.name):
        return []
      inner = [self._cap(self.inhabitants(p, depth - 1, 12), 3) for p in t.parameters]
      if any(not i for i in inner):
        return []
      return [V("tup", list(c)) for c in itertools.islice(itertools.product(*inner), 0, cap)]
    if cls is pytd.CallableType:
      if not self.sub(self.callable_name, t.base_type.name) or not t.parameters:
        return []
      return [V("fn", len(t.parameters) - 1, x) for x in self.inhabitants(t.parameters[-1], depth - 1, 12)[:6]]
    raise Unsupported("oracle: %s" % cls.__name__)

  def admits(self, t, v):
    cls = type(t)
    if cls is pytd.AnythingType:
      return True
    if cls is pytd.NothingType:
      return False
    if cls in (pytd.NamedType, pytd.ClassType):
      return self.sub(self.cls_of(v), t.name)
    if cls is pytd.Literal:
      return v.tag == "lit" and v.a == t.value
    if cls is pytd.UnionType:
      return any(self.admits(x, v) for x in t.type_list)
    if cls is pytd.TypeParameter:
      # read as its upper value: union of the constraints, else the bound, else Any (independent of
      # pytd.TypeParameter.upper_value on purpose)
      if t.constraints:
        return any(self.admits(x, v) for x in t.constraints)
      return True if t.bound is None else self.admits(t.bound, v)
    if cls is pytd.GenericType:
      if not self.sub(self.cls_of(v), t.base_type.name):
        return False
      for p, held in zip(t.parameters, self.contents(v)):
        if not all(self.admits(p, x) for x in held):
          return False
      return True
    if cls is pytd.TupleType:
      return (v.tag == "tup" and self.sub(self.tuple_name, t.base_type.name)
              and len(v.a) == len(t.parameters)
              and all(self.admits(p, x) for p, x in zip(t.parameters, v.a)))
    if cls is pytd.CallableType:
      return (v.tag == "fn" and self.sub(self.callable_name, t.base_type.name)
              and len(t.parameters) == v.a + 1 and self.admits(t.parameters[-1], v.b))
    raise Unsupported("oracle: %s" % cls.__name__)


def value_universe(r, class_names, generic_arity, n_extra=120):
  """Objects of every class (bare and holding things), tuples of length 0..3, functions of arity 0..2,
  small ints; nested two levels."""
  atoms = [V("obj", c, []) for c in class_names] + [V("lit", n) for n in range(3)]
  level1 = list(atoms)
  for c, ar in generic_arity.items():
    for _ in range(3):
      level1.append(V("obj", c, [[r.choice(atoms) for _ in range(r.choice([0, 1, 2]))] for _ in range(ar)]))
  level1.append(V("tup", []))
  for n in (1, 2, 3):
    for _ in range(4):
      level1.append(V("tup", [r.choice(atoms) for _ in range(n)]))
  for ar in (0, 1, 2):
    for a in atoms:                       # every class as a result, at every arity
      level1.append(V("fn", ar, a))
  vals = list(level1)
  for _ in range(n_extra):
    x = r.random()
    if x < 0.45:
      c = r.choice(list(generic_arity))
      vals.append(V("obj", c, [[r.choice(level1) for _ in range(r.choice([0, 1, 2]))]
                               for _ in range(generic_arity[c])]))
    elif x < 0.75:
      vals.append(V("tup", [r.choice(level1) for _ in range(r.choice([1, 2, 3]))]))
    else:
      vals.append(V("fn", r.choice([0, 1, 2]), r.choice(level1)))
  return vals


SKIPPED = collections.Counter()     # positions the oracle could not judge (node kinds outside its semantics)


def narrowing_witness(orc, before, after, values):
  """First value admitted by `before` but not by `after` (None if none in the universe).
  Unchanged types are trivially fine; a changed type containing nodes outside the oracle's semantics
  (TypeParameter, ...) is counted in SKIPPED."""
  if before is after or repr(before) == repr(after):
    return None
  try:
    try:
      directed = orc.inhabitants(before)
    except Unsupported as e:
      SKIPPED["inhabitants:" + str(e)] += 1
      directed = []
    for v in itertools.chain(directed, values):
      if orc.admits(before, v) and not orc.admits(after, v):
        return v
  except Unsupported as e:
    SKIPPED[str(e)] += 1
  return None


def param_list(s):
  ps = list(s.params)
  return ps, s.starargs, s.starstarargs


def sig_covered(orc, s, s2, values, skip_names=()):
  """s2 accepts every call s accepts (pointwise on parameter types) and returns at least as much.
  Returns None if covered, else a description of the first counterexample."""
  ps, st, ss = param_list(s)
  ps2, st2, ss2 = param_list(s2)
  if [p.name for p in ps] != [p.name for p in ps2] or (st is None) != (st2 is None) or (ss is None) != (ss2 is None):
    return "shape"
  pairs = list(zip(ps, ps2)) + ([(st, st2)] if st else []) + ([(ss, ss2)] if ss else [])
  for p, p2 in pairs:
    if p.kind != p2.kind or p.optional != p2.optional:
      return "shape"
    if p.name in skip_names:
      continue
    w = narrowing_witness(orc, p.type, p2.type, values)
    if w is not None:
      return "param %s: %r" % (p.name, w)
    if p.mutated_type is not None:
      tgt = p2.mutated_type if p2.mutated_type is not None else p2.type
      w = narrowing_witness(orc, p.mutated_type, tgt, values)
      if w is not None:
        return "mutated %s: %r" % (p.name, w)
  w = narrowing_witness(orc, s.return_type, s2.return_type, values)
  if w is not None:
    return "return: %r" % (w,)
  return None


def func_narrowing(orc, f, f2, values, skip_names=()):
  for s in f.signatures:
    reasons = []
    for s2 in f2.signatures:
      why = sig_covered(orc, s, s2, values, skip_names)
      if why is None:
        reasons = None
        break
      reasons.append(why)
    if reasons is not None:
      best = [w for w in reasons if w != "shape"] or ["no signature with these parameters is left"]
      return "signature %d of %s not covered (%s)" % (f.signatures.index(s), f.name, best[0])
  return None


def narrowing_kind(why):
  """Coarse, stable class of a narrowing: which kind of position lost a value."""
  if "(param " in why:
    return "parameter"
  if "(mutated " in why:
    return "mutated-parameter"
  if "(return" in why:
    return "return"
  if "constant" in why:
    return "constant"
  if why.startswith("type loses"):
    return "bare-type"
  return "signature-lost"


def unit_narrowing(orc, u, u2, values, skip_self_in_classes=False):
  """Checks `never narrows` between a unit and its optimised version.  Returns None or a description."""
  if [c.name for c in u.constants] != [c.name for c in u2.constants]:
    return "constants changed"
  for c, c2 in zip(u.constants, u2.constants):
    w = narrowing_witness(orc, c.type, c2.type, values)
    if w is not None:
      return "constant %s loses %r" % (c.name, w)
  if [f.name for f in u.functions] != [f.name for f in u2.functions]:
    return "functions changed"
  for f, f2 in zip(u.functions, u2.functions):
    why = func_narrowing(orc, f, f2, values)
    if why:
      return why
  if [c.name for c in u.classes] != [c.name for c in u2.classes]:
    return "classes changed"
  for c, c2 in zip(u.classes, u2.classes):
    for k, k2 in zip(c.constants, c2.constants):
      w = narrowing_witness(orc, k.type, k2.type, values)
      if w is not None:
        return "class %s constant %s loses %r" % (c.name, k.name, w)
    if [m.name for m in c.methods] != [m.name for m in c2.methods]:
      return "methods changed"
    for m, m2 in zip(c.methods, c2.methods):
      # AdjustSelf (remove_mutable only) rewrites `self`/`cls` typed Any to the class: exempt those two names
      why = func_narrowing(orc, m, m2, values, ("self", "cls") if skip_self_in_classes else ())
      if why:
        return "class %s: %s" % (c.name, why)
  return None


def universe_oracle(uni, seed_rng):
  """(Oracle, values) for a generated Universe; deterministic in (universe, rng) so that replay sees
  exactly the values the run saw."""
  table = {uni.names[k]: [uni.names[b] for b in v] for k, v in uni.bases.items()}
  orc = Oracle(subclass_closure(table))
  arity = {uni.names[k]: v for k, v in GENERIC_BASES.items()}
  arity.update({uni.names[USER_IDS[0]]: 1, uni.names[USER_IDS[1]]: 1, "builtins.tuple": 1})
  vals = value_universe(seed_rng, [uni.names[k] for k in uni.class_ids()], arity, n_extra=90)
  return orc, vals
