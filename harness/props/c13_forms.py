"""C13 legs for coq/Bind/FormsModel.v: call forms (receiver insertion), constructors (Class.call vs type_call with
the object_new / object_init excess-argument rule), overloaded stub functions (_match_args_sequentially).

Every leg runs the extracted model (F- / K- / V-lines of harness/ocaml/bind_driver.ml), real pytype and real CPython
on the same generated inputs, compares model vs pytype and model vs CPython, and evaluates the property oracle
(CPython TypeError iff pytype arity / keyword error, same bindings) on the two implementations alone.
"""
import collections
import hashlib
import multiprocessing
import os
import re
import subprocess

import common
import c13_gen as g

FP_NOSELF = "bound-callee-without-positional-parameter-gets-no-self"
FP_CTOR_SELF = "ctor-keyword-self-with-own-new-and-object-init"
KNOWN_FP = "posonly-name-as-keyword-with-kwargs"

# index = constructor of FormsModel.form
FORMS = ["function", "instance-method", "through-class", "classmethod-on-class", "classmethod-on-instance",
         "static-on-class", "static-on-instance", "callable-instance"]
RECEIVER = {1, 3, 4, 7}


def sig_line(e):
  f = lambda l: "%d %s" % (len(l), " ".join(str(g.ID[n]) for n in l))
  return "%s %s %s %s %d %d" % (f(e.P), f(e.Q), f(e.K), f(e.D), g.ID[g.VA] if e.va else -1, g.ID[g.KW] if e.kw else -1)


def shape_line(npos, ks):
  return "%d %d %s" % (npos, len(ks), " ".join(str(g.ID[k]) for k in ks))


def run_model(exe, lines):
  pr = subprocess.run([exe], input="\n".join(lines) + "\n", capture_output=True, text=True)
  if pr.returncode != 0:
    raise common.BuildError("extracted model failed: " + pr.stderr[-1500:])
  return [tuple(o.split("\t")) for o in pr.stdout.split("\n")[:len(lines)]]


# ------------------------------------------------------------------------------------------------
# call forms

def form_def(sig, form, j):
  pt, rt = g.esig_text(sig), g._tuple_text(sig)    # pylint: disable=protected-access
  deco = {3: "  @classmethod\n", 4: "  @classmethod\n", 5: "  @staticmethod\n", 6: "  @staticmethod\n"}.get(form, "")
  name = "__call__" if form == 7 else "m"
  return f"class C{j}:\n{deco}  def {name}({pt}):\n    return {rt}\nc{j} = C{j}()\n"


def form_call(sig, form, j, shape):
  shift = 1 if form in RECEIVER else 0
  a = ", ".join([f"p{i + shift}" for i in range(shape[0])] + [f"{k}=k_{k}" for k in shape[1]])
  if form in (1, 4, 6):
    return f"c{j}.m({a})"
  if form == 7:
    return f"c{j}({a})"
  return f"C{j}.m({a})"


def _dec_obj(o, ns, pname):
  cn = type(o).__name__
  if isinstance(o, tuple):
    return "V" + ".".join(_dec_obj(x, ns, None)[1:] for x in o)
  if isinstance(o, dict):
    return "W" + ".".join(str(g.ID[k]) for k in o)
  if isinstance(o, type) and re.fullmatch(r"C\d+", o.__name__):
    return "P0"
  if re.fullmatch(r"C\d+", cn):
    return "P0"
  if re.fullmatch(r"P\d+", cn):
    return "P" + cn[1:]
  if cn.startswith("K_"):
    return "K%d" % g.ID[cn[2:]]
  if cn.startswith("D_"):
    return "D" if cn[2:] == pname else "?D_" + cn[2:]
  return "?" + cn


def _dec_type(t, pname):
  t = re.sub(r"\btype\[C\d+\]", "P0", t)
  t = re.sub(r"\bC\d+\b", "P0", t)
  return g._decode_type(t, None, pname)    # pylint: disable=protected-access


def _pytype_lines(src, where, stub=None):
  """{line: ([errors], reveal or None)}, stray errors; or an 'X:...' string."""
  io, opts, loader = g._pytype()    # pylint: disable=protected-access
  if stub:
    path = os.path.join(g.stub_dir(), stub[0] + ".pyi")
    if not os.path.exists(path):
      with open(path, "w") as f:
        f.write(stub[1])
  try:
    ret, _ = io.generate_pyi(src, opts, loader)
  except Exception as ex:   # pylint: disable=broad-except
    return "X:%s:%s" % (type(ex).__name__, str(ex)[:200]), []
  out = {l: ([], None) for l in where}
  stray = []
  for e in ret.context.errorlog:
    if e.line in out:
      if e.name == "reveal-type":
        out[e.line] = (out[e.line][0], e.message)
      else:
        out[e.line][0].append((e.name, e.message))
    else:
      stray.append("%s@%s:%s" % (e.name, e.line, e.message.split("\n")[0]))
  return out, stray


def _py_result(errs, reveal, names):
  if errs:
    if len(errs) > 1:
      return "E:multiple:" + ";".join(n for n, _ in errs)
    return g._decode_error(*errs[0])    # pylint: disable=protected-access
  if reveal is None:
    return "?no-reveal"
  if reveal == "tuple[()]":
    elems = []
  elif reveal.startswith("tuple[") and reveal.endswith("]"):
    elems = g.split_top(reveal[6:-1])
  else:
    return "?" + reveal
  if len(elems) != len(names):
    return "?" + reveal
  return "O:" + ",".join(_dec_type(x, n) for x, n in zip(elems, names))


def run_form_group(group):
  """group: [(sig, form, [shapes])] -> per item per shape (cpython, pytype), stray"""
  defs = "".join(form_def(s, f, j) for j, (s, f, _) in enumerate(group))
  src = g.HEADER + defs
  line = src.count("\n")
  where, calls = {}, []
  for j, (s, f, shapes) in enumerate(group):
    for k, sh in enumerate(shapes):
      line += 1
      where[line] = (j, k)
      calls.append(f"reveal_type({form_call(s, f, j, sh)})\n")
  ns = {}
  exec(compile(src, "<c13forms>", "exec"), ns)    # our own generated text  # pylint: disable=exec-used
  pl, stray = _pytype_lines(src + "".join(calls), where)
  out = [[None] * len(shapes) for _, _, shapes in group]
  for ln, (j, k) in where.items():
    s, f, shapes = group[j]
    sh = shapes[k]
    names = g.all_names(s)
    try:
      r = eval(form_call(s, f, j, sh), ns)    # pylint: disable=eval-used
      real = "O:" + ",".join(_dec_obj(o, ns, n) for o, n in zip(r, names)) if len(r) == len(names) else "?len"
    except TypeError as ex:
      real = g.classify_typeerror(str(ex))
    py = pl if isinstance(pl, str) else _py_result(pl[ln][0], pl[ln][1], names)
    out[j][k] = (real, py)
  return out, stray


def form_shapes(r, sig, n_multi):
  uni = g.all_names(sig) + [g.FOREIGN]
  out = [(n, ()) for n in range(4)]
  singles = [(n, (k,)) for n in range(3) for k in uni]
  out += r.sample(singles, min(len(singles), n_multi))
  return out


# ------------------------------------------------------------------------------------------------
# constructors

def ctor_mro_line(sig, variant):
  """The K-line prefix of a c13_gen constructor layout: classes C (depth 0), its base, the base's base."""
  lay = g.ctor_layout(variant)
  cls = []
  ps = g.parts(sig, variant) if lay else []
  for depth in (0, 1, 2):
    n = i = "0"
    if lay:
      dn, di, _ = lay
      if dn == depth:
        n = "1 " + sig_line(ps[0][0])
      if di == depth:
        i = "1 " + sig_line(ps[-1][0])
    cls.append(n + " " + i)
  return "K3 " + " ".join(cls)


def ctor_model_view(s, variant):
  """The model's K-line result in c13_gen's combined format."""
  if s.startswith("E:"):
    return "E:any:" if variant == "ctor:none" else s
  a, b = s[2:].split("|")
  return "O:" + ",".join(x for x in (a, b) if x != "-")


# ------------------------------------------------------------------------------------------------
# overloaded stubs

def overload_group_run(group):
  """group: [([sigs], [shapes])] -> per item per shape (all CPython twins raise?, pytype result), stray"""
  stub = ["from typing import overload\n"]
  cpy = [g.HEADER]
  for j, (sigs, _) in enumerate(group):
    for i, s in enumerate(sigs):
      stub.append(f"@overload\ndef f{j}({g.stub_sig_text(s, False)}) -> None: ...\n")
      cpy.append(f"def f{j}_{i}({g.esig_text(s)}):\n  return 1\n")
  stub_text = "".join(stub)
  modname = "c13ov_" + hashlib.sha256(stub_text.encode()).hexdigest()[:16]
  ns = {}
  exec(compile("".join(cpy), "<c13ov>", "exec"), ns)    # pylint: disable=exec-used
  src = g.HEADER + f"import {modname}\n"
  line = src.count("\n")
  where, calls = {}, []
  for j, (sigs, shapes) in enumerate(group):
    for k, sh in enumerate(shapes):
      line += 1
      where[line] = (j, k)
      a = ", ".join([f"p{i}" for i in range(sh[0])] + [f"{x}=k_{x}" for x in sh[1]])
      calls.append(f"{modname}.f{j}({a})\n")
  pl, stray = _pytype_lines(src + "".join(calls), where, (modname, stub_text))
  out = [[None] * len(shapes) for _, shapes in group]
  for ln, (j, k) in where.items():
    sigs, shapes = group[j]
    sh = shapes[k]
    mask = ""
    for i in range(len(sigs)):
      try:
        ns[f"f{j}_{i}"](*[ns[f"p{n}"] for n in range(sh[0])], **{x: ns["k_" + x] for x in sh[1]})
        mask += "1"
      except TypeError:
        mask += "0"
    if isinstance(pl, str):
      py = pl
    elif not pl[ln][0]:
      py = "O:"
    elif len(pl[ln][0]) > 1:
      py = "E:multiple:" + ";".join(n for n, _ in pl[ln][0])
    else:
      py = g._decode_error(*pl[ln][0][0])    # pylint: disable=protected-access
    out[j][k] = (mask, py)
  return out, stray


# ------------------------------------------------------------------------------------------------

def _chunks(items, n):
  return [items[i:i + n] for i in range(0, len(items), n)]


def run_legs(res, exe, r, thorough, fixed):
  small = g.enum_sigs(2)
  nopos = [s for s in small if not s.P and not s.Q]
  col = 2 if fixed else 1
  ctx = multiprocessing.get_context("fork")
  hist = collections.Counter()

  # ---- call forms
  n_sig = 160 if thorough else 36
  items = []
  picks = r.sample(nopos, min(len(nopos), 16 if thorough else 6)) + r.sample(small, n_sig)
  for n, s in enumerate(picks):
    for f in ([1, 2, 3, 4, 5, 6, 7] if thorough else [1 + (n % 7), 1 + ((n + 3) % 7)]):
      items.append((s, f, form_shapes(r, s, 12 if thorough else 4)))
  groups = _chunks(items, 12)
  lines = ["F%s %d %s 0" % (sig_line(s), f, shape_line(sh[0], sh[1])) for s, f, shs in items for sh in shs]
  model = run_model(exe, lines)
  with ctx.Pool(4) as pool:
    done = pool.map(run_form_group, groups)
  n = n_m_py = n_m_c = n_wf = n_stray = n_x = 0
  first = {}
  known, other = [], collections.OrderedDict()
  mi = 0
  for grp, (outs, stray) in zip(groups, done):
    n_stray += len(stray)
    if stray:
      first.setdefault("stray", stray[0])
    for j, (s, f, shs) in enumerate(grp):
      for k, sh in enumerate(shs):
        row = model[mi]; mi += 1
        real, py = outs[j][k]
        n += 1
        desc = "%s: def(%s) call %s" % (FORMS[f], g.esig_text(s), form_call(s, f, j, sh))
        nontrivial = bool(g.all_names(s)) and sh[0] + len(sh[1]) > 0
        res.count(("form", f, s, sh) if nontrivial else None)
        hist["form:" + FORMS[f]] += 1
        hist["form-cpython:" + ("E" if real.startswith("E:") else "O")] += 1
        if row[0] != "1":
          n_wf += 1
        if py.startswith("X:"):
          n_x += 1
          first.setdefault("x", py)
          continue
        if not g.same_py(row[col], py):
          n_m_py += 1
          first.setdefault("py", "%s: model %s, pytype %s" % (desc, row[col], py))
        if g.canon(row[3]) != g.canon(real):
          n_m_c += 1
          first.setdefault("c", "%s: model %s, CPython %s" % (desc, row[3], real))
        if g.outcome_only(real) != g.outcome_only(py):
          if f in RECEIVER and not s.P and not s.Q:
            known.append((FP_NOSELF, desc, real, py, s, f, sh))
          elif s.kw and any(x in s.P for x in sh[1]) and not fixed:
            known.append((KNOWN_FP, desc, real, py, s, f, sh))
          else:
            other.setdefault("call-form-binding-differs:%s:cpython-%s/pytype-%s"
                             % (FORMS[f], real.split(":")[1] if real.startswith("E:") else "ok",
                                py.split(":")[1] if py.startswith("E:") else "ok"), []).append((desc, real, py, s, f, sh))
  res.obligation("forms:explorable", n_x == 0, "%d of %d: %s" % (n_x, n, first.get("x", "")))
  res.obligation("forms:no-errors-outside-the-call-lines", n_stray == 0, "%d; first: %s" % (n_stray, first.get("stray", "")))
  res.obligation("forms:hypotheses-wf", n_wf == 0, "%d of %d cases not well-formed" % (n_wf, n))
  res.obligation("correspondence:call_form_py-vs-pytype", n_m_py == 0 and n > 0,
                 "%d of %d differ; first: %s" % (n_m_py, n, first.get("py", "")))
  res.obligation("correspondence:call_form_c-vs-CPython-call", n_m_c == 0,
                 "%d of %d differ; first: %s" % (n_m_c, n, first.get("c", "")))
  res.extra["form_cases"] = n

  def rep(fp, desc, real, py, s, f, sh, cnt, what=""):
    res.violation(fp, "%s%s -> CPython %s, pytype %s (%d such calls in this run)" % (what, desc, real, py, cnt),
                  {"kind": "form", "sig": {"P": list(s.P), "Q": list(s.Q), "K": list(s.K), "D": list(s.D), "va": s.va, "kw": s.kw},
                   "form": f, "shape": [sh[0], list(sh[1])], "module": form_def(s, f, 0) + form_call(s, f, 0, sh) + "\n",
                   "cpython": real, "pytype": py})
  size = lambda t: (len(g.all_names(t[4])) + t[6][0] + len(t[6][1]))
  for fp in (FP_NOSELF, KNOWN_FP):
    lst = [t for t in known if t[0] == fp]
    if lst:
      t = min(lst, key=size)
      rep(fp, t[1], t[2], t[3], t[4], t[5], t[6], len(lst),
          "a callee without positional parameters reached through a receiver is called without the receiver: "
          if fp == FP_NOSELF else "")
  for fp, lst in list(other.items())[:3]:
    t = min(lst, key=lambda t: len(g.all_names(t[3])) + t[5][0] + len(t[5][1]))
    rep(fp, t[0], t[1], t[2], t[3], t[4], t[5], len(lst))

  # ---- constructors: the K-model against the same observations as the main leg, plus the keyword self
  citems = []
  for v in g.CTOR_VARIANTS:
    sigs = r.sample(small, 6 if thorough else 1)
    if v in ("ctor:n0", "ctor:n1", "ctor:n2"):
      sigs = sigs + r.sample([s for s in small if s.kw], 4 if thorough else 1)
    for s in sigs:
      shapes = r.sample(g.enum_shapes(s, v, 3, 1), 10 if thorough else 5)
      if v in ("ctor:n0", "ctor:n1", "ctor:n2", "ctor:none"):
        shapes += [(0, ("self",)), (1, ("self",))]
      citems.append((s, v, shapes))
  cgroups = _chunks(citems, 6)
  clines = ["%s %s" % (ctor_mro_line(s, v), shape_line(sh[0], sh[1])) for s, v, shs in citems for sh in shs]
  cmodel = run_model(exe, clines)
  with ctx.Pool(4) as pool:
    cdone = pool.map(g.run_group, cgroups)
  n = n_m_py = n_m_c = n_x = 0
  first = {}
  cknown, cother = [], collections.OrderedDict()
  mi = 0
  for grp, (cres, pres, stray) in zip(cgroups, cdone):
    for j, (s, v, shs) in enumerate(grp):
      for k, sh in enumerate(shs):
        row = cmodel[mi]; mi += 1
        real, py = cres[j][k][0], pres[j][k]
        n += 1
        desc = "def(%s) [%s] call %s" % (g.params_text(s, v), v, g.call_text(s, v, 0, sh))
        res.count(("ctor", v, s, sh) if sh[0] + len(sh[1]) > 0 else None)
        hist["ctor:" + v] += 1
        if py.startswith("X:"):
          n_x += 1
          continue
        mpy, mc = ctor_model_view(row[col], v), ctor_model_view(row[3], v)
        if v == "ctor:none" and py.startswith("E:"):
          py = "E:any:"
        if not g.same_py(mpy, py):
          n_m_py += 1
          first.setdefault("py", "%s: model %s, pytype %s" % (desc, mpy, py))
        if g.canon(mc) != g.canon(real) and not (mc.startswith("E:") and real.startswith("E:")):
          n_m_c += 1
          first.setdefault("c", "%s: model %s, CPython %s" % (desc, mc, real))
        if g.outcome_only(real) != g.outcome_only(py):
          lay = g.ctor_layout(v)
          if lay and lay[0] is not None and lay[1] is None and "self" in sh[1] and py == "E:dup:%d" % g.ID["self"]:
            cknown.append((desc, real, py, s, v, sh))
          else:
            cother.setdefault("constructor-binding-differs:cpython-%s/pytype-%s"
                              % (real.split(":")[1] if real.startswith("E:") else "ok",
                                 py.split(":")[1] if py.startswith("E:") else "ok"), []).append((desc, real, py, s, v, sh))
  res.obligation("correspondence:ctor_py-vs-pytype", n_m_py == 0 and n > 0 and n_x == 0,
                 "%d of %d differ (%d not explorable); first: %s" % (n_m_py, n, n_x, first.get("py", "")))
  res.obligation("correspondence:ctor_c-vs-CPython-call", n_m_c == 0,
                 "%d of %d differ; first: %s" % (n_m_c, n, first.get("c", "")))
  res.extra["ctor_model_cases"] = n
  crep = lambda fp, t, cnt, what="": res.violation(
      fp, "%s%s -> CPython %s, pytype %s (%d such calls in this run)" % (what, t[0], t[1], t[2], cnt),
      {"sig": {"P": list(t[3].P), "Q": list(t[3].Q), "K": list(t[3].K), "D": list(t[3].D), "va": t[3].va, "kw": t[3].kw},
       "variant": t[4], "shape": [t[5][0], list(t[5][1])], "cpython": t[1], "pytype": t[2]})
  if cknown:
    crep(FP_CTOR_SELF, min(cknown, key=lambda t: len(t[0])), len(cknown),
         "a class with its own __new__ and object's __init__, called with the keyword self: ")
  for fp, lst in list(cother.items())[:3]:
    crep(fp, min(lst, key=lambda t: len(t[0])), len(lst))

  # ---- overloaded stub functions
  oitems = []
  for _ in range(60 if thorough else 14):
    sigs = r.sample(small, r.choice([2, 2, 3]))
    names = []
    for s in sigs:
      names += [x for x in g.all_names(s) if x not in names]
    shapes = [(np_, ()) for np_ in range(5)] + r.sample([(np_, (x,)) for np_ in range(4) for x in names + [g.FOREIGN]],
                                                         8 if thorough else 5)
    oitems.append((sigs, shapes))
  ogroups = _chunks(oitems, 5)
  olines = ["V%d %s %s 0" % (len(sigs), " ".join(sig_line(s) for s in sigs), shape_line(sh[0], sh[1]))
            for sigs, shs in oitems for sh in shs]
  omodel = run_model(exe, olines)
  with ctx.Pool(4) as pool:
    odone = pool.map(overload_group_run, ogroups)
  n = n_m_py = n_m_c = n_x = n_allfail = n_some = 0
  first = {}
  oother = collections.OrderedDict()
  mi = 0
  for grp, (outs, stray) in zip(ogroups, odone):
    for j, (sigs, shs) in enumerate(grp):
      for k, sh in enumerate(shs):
        row = omodel[mi]; mi += 1
        mask, py = outs[j][k]
        n += 1
        a = ", ".join(["p%d" % i for i in range(sh[0])] + ["%s=.." % x for x in sh[1]])
        desc = "overloads %s call f(%s)" % (" | ".join("(%s)" % g.esig_text(s) for s in sigs), a)
        res.count(("overload", tuple(sigs), sh))
        if py.startswith("X:"):
          n_x += 1
          first.setdefault("x", py)
          continue
        allfail = "1" not in mask
        n_allfail += allfail
        n_some += (not allfail) and "0" in mask
        m = row[1]
        # model vs pytype: the error (class + names) of the first signature, or success
        if not (g.same_py(m, py) if m.startswith("E:") else py == "O:"):
          n_m_py += 1
          first.setdefault("py", "%s: model %s, pytype %s" % (desc, m, py))
        # model vs CPython: which signatures bind
        if (m[2:] if m.startswith("O:") else "0" * len(sigs)) != mask:
          n_m_c += 1
          first.setdefault("c", "%s: model %s, CPython binds %s" % (desc, m, mask))
        if allfail != py.startswith("E:"):
          oother.setdefault("overloaded-stub:cpython-%s/pytype-%s" % ("E" if allfail else "ok", py.split(":")[1] if py.startswith("E:") else "ok"),
                            []).append((desc, mask, py, sigs, sh))
  hist["overload:all-signatures-fail"] = n_allfail
  hist["overload:some-but-not-all-fail"] = n_some
  res.obligation("correspondence:call_overloaded-vs-pytype", n_m_py == 0 and n > 0 and n_x == 0,
                 "%d of %d differ (%d not explorable %s); first: %s" % (n_m_py, n, n_x, first.get("x", ""), first.get("py", "")))
  res.obligation("correspondence:overload-signatures-bound-vs-CPython-calls", n_m_c == 0,
                 "%d of %d differ; first: %s" % (n_m_c, n, first.get("c", "")))
  res.obligation("overloads:cases-discriminate", n_allfail > 0 and n_some > 0,
                 "%d calls where every signature fails, %d where only some do" % (n_allfail, n_some))
  res.extra["overload_cases"] = n
  for fp, lst in list(oother.items())[:3]:
    t = min(lst, key=lambda t: len(t[0]))
    res.violation(fp, "%s -> CPython binds signatures %s, pytype %s (%d such calls)" % (t[0], t[1], t[2], len(lst)),
                  {"kind": "overload", "sigs": [g.esig_text(s) for s in t[3]], "shape": [t[4][0], list(t[4][1])],
                   "cpython_mask": t[1], "pytype": t[2]})
  res.extra["forms_histogram"] = dict(sorted(hist.items()))


def replay(d):
  """Re-runs a stored form / overload replay on the implementations and the oracle."""
  if d.get("kind") == "form":
    s = g.Sig(tuple(d["sig"]["P"]), tuple(d["sig"]["Q"]), tuple(d["sig"]["K"]), tuple(d["sig"]["D"]),
              bool(d["sig"]["va"]), bool(d["sig"]["kw"]))
    f, sh = int(d["form"]), (int(d["shape"][0]), tuple(d["shape"][1]))
    outs, _ = run_form_group([(s, f, [sh])])
    real, py = outs[0][0]
    print(form_def(s, f, 0) + form_call(s, f, 0, sh))
    print("cpython:", real)
    print("pytype :", py)
    return 0 if g.outcome_only(real) == g.outcome_only(py) else 1
  print(d)
  print("overload replays are re-run by the check itself (stub text is regenerated from the signatures)")
  return 1
