"""C03 — a disable comment on the reported line silences exactly that error.

Proof: coq/Props/C03.v over the executable model coq/Directors/Model.v (_LineSet, _BlockRanges, the
directive processing of Director and filter_error); the error-class tables of the model are regenerated from
pytype/directors/directors.py + pytype/errors/errors.py on every run (c03_gen.py, fail-closed).
Tie: for generated programs x directive placements the real Director (built from the real parser exactly as
vm.run_program does) and the model (fed the real parser's groups) answer every (line, class, return-opcode)
query; Coq compares (cases.v, vm_compute).  The hypotheses of the theorems about the parser's output are
monitored on the real parser.  Oracles on the implementation itself: (1) Director level — verdicts before /
after the edit for every query; (2) end to end — real pytype analysis before / after the edit: the error is
gone, every other error tuple and the stub text are identical.
"""
import ast
import collections
import json
import os
import subprocess
import time

import common
import c03_gen
import c03_model as M
import c03_progs as P
import c03_parser as PP
import c03_log as LG

POOL = ["wrong-arg-types", "attribute-error", "name-error", "bad-return-type", "annotation-type-mismatch",
        "not-callable", "unsupported-operands", "missing-parameter", "wrong-arg-count", "wrong-keyword-args"]
BASE_QUERY_NAMES = ["wrong-arg-types", "bad-return-type", "name-error", "annotation-type-mismatch"]

# The classes for which pytype documents the line adjustment, as of the commit the finding was recorded on.
# A class that becomes adjustable later is NOT covered by the recorded finding (different fingerprint).
ADJUSTABLE_WHEN_RECORDED = frozenset((
    "attribute-error", "duplicate-keyword", "invalid-annotation", "missing-parameter", "not-instantiable",
    "wrong-arg-count", "wrong-arg-types", "wrong-keyword-args", "unsupported-operands",
    "annotation-type-mismatch", "bad-return-type", "bad-yield-annotation", "container-type-mismatch",
    "not-supported-yet", "signature-mismatch"))


def adjusted_fp(kind, name):
  if kind == "ignore":
    return "adjusted-start-line:type-ignore"
  if name in ADJUSTABLE_WHEN_RECORDED:
    return "adjusted-start-line"
  return "adjusted-start-line:newly-adjustable-class:" + str(name)


KNOWN_WHAT = {
    "adjusted-start-line":
        "a trailing '# pytype: disable=E' on a later line of a multi-line statement/call also silences class E on "
        "that range's start line (Director._process_disable: lines.set_line(final_line, ...))",
    "adjusted-start-line:type-ignore":
        "a trailing '# type: ignore' on a later line of a multi-line statement/call also silences every error on "
        "that range's start line (Director._process_type: self._ignore.set_line(final_line, True))",
    "implicit-return-line-moves":
        "a directive appended to the last line of a function's multi-line last statement moves the function's end "
        "(_parse_src_tree: adjust_end), so an implicit-return bad-return-type error is reported on another line",
    "call-range-drops-earlier-comment-lines":
        "parser._process_structured_comments re-creates a Call range's comment group for every comment line, so a "
        "directive added on a later line of a multi-line call removes the earlier lines' directives from that call "
        "range (their write to the call's start line is lost and a silenced error re-appears)",
    "directive-errors-unfilterable":
        "invalid-directive / late-directive errors are logged while the Director is being constructed, before "
        "ErrorLog.set_error_filter is called, so no directive on their line can silence them",
    "type-ignore-skips-import":
        "'# type: ignore' on a line that holds an import statement makes the VM skip the import "
        "(vm.byte_IMPORT_NAME / byte_IMPORT_FROM test op.line in director.ignore): the imported names become Any, so "
        "the inferred stub (and possibly errors depending on those names) changes; documented meaning of type: ignore "
        "on imports",
    "trailing-enable-later-line":
        "a trailing '# pytype: enable=E' on a later line of the same statement writes the statement's start line "
        "and undoes a trailing disable=E placed on that start line",
}


# ----------------------------------------------------------------------------------------------------
# pre-existing directives and edits

def pre_directive(r):
  n1, n2 = r.choice(POOL), r.choice(POOL)
  return r.choice([
      f"# pytype: disable={n1}", f"# pytype: disable={n1}", f"# pytype: enable={n1}", "# type: ignore",
      f"# pytype: disable={n1},{n2}", "# pytype: disable=*", f"# pytype: enable={n1} disable={n2}",
      "# type: ignore[foo]", "# pytype: disable", f"# pytype: foo=bar disable={n1}", f"# pytype: disable={n1} foo",
      "# pytype: disable=bogus-name", f"# pytype: pragma=cache-return disable={n1}",
      f"# pytype: features=nope disable={n1}", "# type: int", f"# plain  # pytype: disable={n1}  # type: ignore",
      "# pytype:", f"# pytype: disable={n1},,{n1}", f"# pytype: disable={n1} enable={n1}",
      f"# pytype: enable={n1} disable={n1}  # pytype: enable={n1}",
  ])


def with_pre_directives(r, src, k):
  for _ in range(k):
    lines = P.appendable_lines(src)
    if r.random() < 0.6 and lines:
      src = P.append_to_line(src, r.choice(lines), pre_directive(r))
    else:
      src = P.insert_line_before(src, r.randint(1, len(src.split("\n"))), pre_directive(r))
  return src


def parses(src):
  try:
    ast.parse(src)
    return True
  except SyntaxError:
    return False


def multi_line_lines(src):
  """Lines that belong to a statement header / simple statement spanning more than one line."""
  out = set()
  try:
    tree = ast.parse(src)
  except SyntaxError:
    return out
  for node in ast.walk(tree):
    if isinstance(node, (ast.stmt, ast.Call, ast.expr)) and getattr(node, "end_lineno", None):
      if node.end_lineno > node.lineno and not isinstance(node, (ast.FunctionDef, ast.ClassDef, ast.If, ast.For,
                                                                  ast.While, ast.With, ast.Try)):
        out.update(range(node.lineno, node.end_lineno + 1))
  return out


def make_edits(r, src, n_trailing, n_ignore, n_pair, n_eof, n_sign):
  """Returns list of edits: dict(kind, ...).  Line numbers refer to `src`."""
  edits = []
  app = P.appendable_lines(src)
  multi = [l for l in app if l in multi_line_lines(src)]
  nl = len(src.split("\n"))
  def pick_line():
    if multi and r.random() < 0.75:
      return r.choice(multi)
    return r.choice(app)
  for _ in range(n_trailing):
    edits.append({"kind": "trailing", "line": pick_line(), "name": r.choice(POOL)})
  for _ in range(n_ignore):
    edits.append({"kind": "ignore", "line": pick_line()})
  for _ in range(n_pair):
    a = r.randint(1, nl)
    b = r.randint(a, nl)
    edits.append({"kind": "pair", "line": a, "line2": b, "name": r.choice(POOL)})
  for _ in range(n_eof):
    edits.append({"kind": "eof", "line": r.randint(1, nl), "name": r.choice(POOL)})
  for _ in range(n_sign):
    edits.append({"kind": "signore", "line": r.randint(1, nl)})
  return edits


def apply_edit(src, ed):
  """Returns (reference source, edited source, info).  Both have the same line numbering: for stand-alone
  directives the reference has a plain comment line where the edited one has the directive."""
  k = ed["kind"]
  if k == "trailing":
    return src, P.append_to_line(src, ed["line"], f"# pytype: disable={ed['name']}"), {"L": ed["line"]}
  if k == "ignore":
    return src, P.append_to_line(src, ed["line"], "# type: ignore"), {"L": ed["line"]}
  if k == "pair":
    a, b = ed["line"], ed["line2"]
    ref = P.insert_line_before(P.insert_line_before(src, b, "# plain comment"), a, "# plain comment")
    new = P.insert_line_before(P.insert_line_before(src, b, f"# pytype: enable={ed['name']}"), a,
                               f"# pytype: disable={ed['name']}")
    return ref, new, {"L": a, "M": b + 1}
  if k == "eof":
    a = ed["line"]
    return (P.insert_line_before(src, a, "# plain comment"),
            P.insert_line_before(src, a, f"# pytype: disable={ed['name']}"), {"L": a})
  if k == "signore":
    a = ed["line"]
    return (P.insert_line_before(src, a, "# plain comment"),
            P.insert_line_before(src, a, "# type: ignore"), {"L": a})
  raise ValueError(k)


# ----------------------------------------------------------------------------------------------------
# the real parser's output as data

def flatten(groups):
  return [(ic, s, e, c) for ic, s, e, cs in groups for c in cs]


def check_inserted(D, D2, pred):
  i = 0
  added = []
  for ev in D2:
    if i < len(D) and ev == D[i]:
      i += 1
    elif pred(ev):
      added.append(ev)
    else:
      return None
  return added if i == len(D) else None


def parser_monitors(groups, raw):
  """Hypotheses of the theorems about the parser's output.  Returns list of failed monitor names."""
  bad = []
  base = [(s, e, cs) for ic, s, e, cs in groups if not ic]
  for line, cs in raw.items():
    for c in cs:
      t = (c.line, c.tool, c.data, bool(c.open_ended))
      if not any(s <= c.line <= e and t in gcs for s, e, gcs in base):
        bad.append("comment-not-in-base-range")
  last = 0
  for ic, s, e, c in flatten(groups):
    if c[3]:
      if c[0] < last:
        bad.append("open-ended-comments-not-in-line-order")
      last = c[0]
      if ic:
        bad.append("open-ended-comment-in-call-range")
  return bad


def mentions(data, command, name):
  """Does the pytype-directive text `data` contain command=...name...?  (harness-side, monitors only)"""
  for opt in data.split():
    if "=" in opt:
      c, v = opt.split("=", 1)
      if c == command and name in v.split(","):
        return True
  return False


# ----------------------------------------------------------------------------------------------------
# queries and the real Director's answers

def query_list(src_lines, names, table):
  qs = []
  irn = table["implicit_return_name"]
  for l in range(0, src_lines + 2):
    for i, n in enumerate(names):
      qs.append((l, n, False))
      if n == irn or (i == 0 and l % 5 == 0):
        qs.append((l, n, True))
  return qs


EXC_CODES = {"ValueError": -1, "IndexError": -2, "KeyError": -3}


def real_answers(src, disable, queries, table):
  d, exc, _ = M.real_director(src, disable)
  if d is None:
    return EXC_CODES.get(exc, -9), None, None
  out = [M.real_filter(d, l, n, ro, table) for l, n, ro in queries]
  return 0, out, d


# ----------------------------------------------------------------------------------------------------
# Director-level oracle (on the real Director only)

def groups_with_comment(groups, c):
  return [(ic, s, e) for ic, s, e, cs in groups if c in cs]


def new_comments(ed, info):
  k, L, E = ed["kind"], info["L"], ed.get("name")
  if k == "trailing":
    return [(L, "pytype", f"disable={E}", False)]
  if k == "ignore":
    return [(L, "type", "ignore", False)]
  if k == "signore":
    return [(L, "type", "ignore", True)]
  cs = [(L, "pytype", f"disable={E}", True)]
  if k == "pair":
    cs.append((info["M"], "pytype", f"enable={E}", True))
  return cs


def dropped_events(groups_ref, groups_new):
  """Events of the reference program that are missing after the edit (multiset difference)."""
  d2 = collections.Counter(flatten(groups_new))
  out = []
  for ev in flatten(groups_ref):
    if d2[ev] > 0:
      d2[ev] -= 1
    else:
      out.append(ev)
  return out


def explained_by_drop(dropped, line, name):
  """Could the loss of one of the dropped call-range events change the verdict of (line, name)?"""
  for ic, s, e, cc in dropped:
    if ic and line in (s, cc[0]):
      if cc[1] == "type" or "*" in cc[2] or name in cc[2]:
        return True
      if name in ("invalid-directive", "late-directive") and line == cc[0]:
        return True      # the lost copy of a malformed directive no longer logs its own error
  return False


def end_moved(base, fn_ends, before_line, orig_line=None):
  """The new comment sits in a multi-line statement range (s, e) whose last line is the end of a function (so
  _parse_src_tree moves that function's end to s) and the error was reported on e or raised inside [s, e]."""
  return any(s < e and e in fn_ends and (before_line == e or (orig_line is not None and s <= orig_line <= e))
             for s, e in base)


def classify_director(ed, info, queries, before, after, groups_new, table, live, dropped=(), fn_ends=()):
  """Returns list of (fingerprint, detail) for every deviation from the property, [] when it holds."""
  k = ed["kind"]
  L = info["L"]
  irn = table["implicit_return_name"]
  out = []
  if k in ("trailing", "ignore"):
    E = ed.get("name")
    c = (L, "pytype", f"disable={E}", False) if k == "trailing" else (L, "type", "ignore", False)
    gs = groups_with_comment(groups_new, c)
    starts = {s for ic, s, e in gs if k == "ignore" or not ic or E in live["fce"]}
    base = [(s, e) for ic, s, e in gs if not ic]
    for (l, n, ro), b, a in zip(queries, before, after):
      if b[0] < 0 or a[0] < 0:
        if a != b:
          out.append(("filter-raises-differently", f"query {(l, n, ro)} before={b} after={a}"))
        continue
      target = b[1] == L and (k == "ignore" or n == E) and L != 0
      if target:
        if a[0] == 1 and n == irn and ro and a[1] != b[1] and end_moved(base, fn_ends, b[1], l):
          out.append(("implicit-return-line-moves",
                      f"({l},{n},ret) was reported on {b[1]}; after the edit it is reported on {a[1]} and logged"))
        elif a[0] == 1:
          later_enable = k == "trailing" and any(
              cc[1] == "pytype" and not cc[3] and cc[0] != L and mentions(cc[2], "enable", E) and s == L
              for ic, s, e, cs in groups_new for cc in cs)
          out.append(("trailing-enable-later-line" if later_enable and E in live["adj"] else "not-silenced",
                      f"error ({l},{n},ret={ro}) reported on line {L} is still logged after the edit"))
        continue
      if a == b:
        continue
      if a[1] != b[1]:
        if n == irn and ro and end_moved(base, fn_ends, b[1], l):
          out.append(("implicit-return-line-moves", f"({l},{n},ret) reported on {b[1]} before, {a[1]} after"))
        else:
          out.append(("reported-line-changed", f"query {(l, n, ro)} before={b} after={a}"))
        continue
      adj_ok = k == "ignore" or (n == E and E in live["adj"])
      if explained_by_drop(dropped, b[1], n):
        out.append(("call-range-drops-earlier-comment-lines",
                    f"({l},{n}) before={b} after={a}: a call range lost the directive of an earlier line"))
      elif b[0] == 1 and a[0] == 0 and adj_ok and b[1] in starts and b[1] != L:
        out.append((adjusted_fp(k, E),
                    f"({l},{n}) also silenced; it is the start line of a range containing line {L}"))
      else:
        out.append(("other-verdict-changed", f"query {(l, n, ro)} before={b} after={a}"))
  else:
    E = ed.get("name")
    Mx = info.get("M")
    base = [(s, e) for c in new_comments(ed, info) for ic, s, e in groups_with_comment(groups_new, c) if not ic]
    # lines whose per-line entry a trailing directive writes (exempt: per-line entries override ranges)
    exempt = set()
    for ic, s, e, cs in groups_new:
      for cc in cs:
        if not cc[3] and cc[1] == "pytype":
          exempt.update((cc[0], s))
    for (l, n, ro), b, a in zip(queries, before, after):
      if b[0] < 0 or a[0] < 0:
        if a != b:
          out.append(("filter-raises-differently", f"query {(l, n, ro)} before={b} after={a}"))
        continue
      eff = b[1] if b[1] != 0 else 2 ** 63 - 1
      inside = eff >= L and (Mx is None or eff < Mx)
      if a[1] != b[1]:
        if n == irn and ro and end_moved(base, fn_ends, b[1], l):
          out.append(("implicit-return-line-moves", f"({l},{n},ret) reported on {b[1]} before, {a[1]} after"))
        else:
          out.append(("reported-line-changed", f"query {(l, n, ro)} before={b} after={a}"))
        continue
      if inside and (k == "signore" or n == E):
        if a[0] == 1 and eff not in exempt:
          out.append(("standalone-not-silenced", f"query {(l, n, ro)} still logged inside the range"))
      elif a != b:
        out.append(("standalone-changes-elsewhere", f"query {(l, n, ro)} before={b} after={a}"))
  return out


# ----------------------------------------------------------------------------------------------------
# end-to-end oracle (real pytype)

_LOADER = {}
LOG_SINK = None      # when a list: analyse() records the ErrorLog history of (a bounded number of) programs
LOG_SINK_CAP = 0
LOG_SEEN = set()


def analyse(src, disable=()):
  """(sorted error tuples, pyi text) or None when the program is not explorable."""
  from pytype import io, config, load_pytd
  key = tuple(disable)
  if key not in _LOADER:
    opts = config.Options.create(python_version=(3, 12), disable=",".join(disable)) if disable else \
        config.Options.create(python_version=(3, 12))
    _LOADER[key] = (opts, load_pytd.create_loader(opts))
  opts, loader = _LOADER[key]
  rec = None
  try:
    if LOG_SINK is not None and len(LOG_SINK) < LOG_SINK_CAP and (src, key) not in LOG_SEEN:
      LOG_SEEN.add((src, key))
      with LG.Recorder() as rec:
        ret, pyi = io.generate_pyi(src, opts, loader)
      LOG_SINK.append((src, list(disable), rec))
    else:
      ret, pyi = io.generate_pyi(src, opts, loader)
  except Exception as e:  # pylint: disable=broad-except
    return None, f"{type(e).__name__}: {str(e)[:200]}"
  errs = [(e.line, e.name, e.message) for e in ret.context.errorlog]
  return (errs, pyi), None


DIRECTIVE_ERRORS = ("invalid-directive", "late-directive")
import re as _re
M_IGNORE_RE = _re.compile(r"^ignore(\[.+\])?$")    # parser.IGNORE_RE (monitor/classification only)


def classify_e2e(ed, info, before, after, groups_new, table, live, dropped=(), fn_ends=(), src_new=None):
  """before/after: (errs, pyi).  Returns list of (fingerprint, detail)."""
  k = ed["kind"]
  L = info["L"]
  E = ed.get("name")
  irn = table["implicit_return_name"]
  out = []
  B, A = collections.Counter(before[0]), collections.Counter(after[0])
  if k in ("trailing", "ignore"):
    c = (L, "pytype", f"disable={E}", False) if k == "trailing" else (L, "type", "ignore", False)
    gs = groups_with_comment(groups_new, c)
    starts = {s for ic, s, e in gs if k == "ignore" or not ic or E in live["fce"]}
    base = [(s, e) for ic, s, e in gs if not ic]
    is_target = lambda t: t[0] == L and (k == "ignore" or t[1] == E)
  else:
    Mx = info.get("M")
    is_target = lambda t: t[0] >= L and (Mx is None or t[0] < Mx) and (k == "signore" or t[1] == E)
    starts = set()
    base = [(s, e) for c in new_comments(ed, info) for ic, s, e in groups_with_comment(groups_new, c) if not ic]
  remaining = [t for t in A if is_target(t)]
  # a type comment in the middle of an expression is reported by Director._process_type itself, i.e. also
  # while the Director is being constructed (before the filter exists)
  mid_type = {cc[0] for ic, s, e, cs in groups_new if not ic for cc in cs
              if cc[1] == "type" and not M_IGNORE_RE.match(cc[2]) and cc[0] != e}
  unfilterable = [t for t in remaining if t[1] in DIRECTIVE_ERRORS or
                  (t[1] == "ignored-type-comment" and t[0] in mid_type)]
  if unfilterable:
    out.append(("directive-errors-unfilterable", f"still reported after the edit: {[t[:2] for t in unfilterable][:2]}"))
    remaining = [t for t in remaining if t not in unfilterable]
  if remaining:
    later_enable = k == "trailing" and any(
        cc[1] == "pytype" and not cc[3] and cc[0] != L and mentions(cc[2], "enable", E) and s == L
        for ic, s, e, cs in groups_new for cc in cs)
    if k in ("trailing", "ignore"):
      out.append(("trailing-enable-later-line" if later_enable and E in live["adj"] else "e2e-not-silenced",
                  f"still reported after the edit: {remaining[:2]}"))
    else:
      exempt = set()
      for ic, s, e, cs in groups_new:
        for cc in cs:
          if not cc[3] and cc[1] == "pytype":
            exempt.update((cc[0], s))
      rem = [t for t in remaining if t[0] not in exempt]
      if rem:
        out.append(("e2e-standalone-not-silenced", f"still reported inside the range: {rem[:2]}"))
  Bo = collections.Counter({t: n for t, n in B.items() if not is_target(t)})
  Ao = collections.Counter({t: n for t, n in A.items() if not is_target(t)})
  missing = list((Bo - Ao).elements())
  extra = list((Ao - Bo).elements())
  if k in ("eof", "signore"):
    extra = [t for t in extra if not (t[1] == "late-directive" and t[0] == L)]
  # explain: implicit-return error moved from the end of the statement to another of its lines
  for t in list(missing):
    if t[1] == irn:
      for x in list(extra):
        if x[1] == irn and x[2] == t[2] and end_moved(base, fn_ends, t[0]):
          missing.remove(t)
          extra.remove(x)
          out.append(("implicit-return-line-moves", f"{t[:2]} is reported as {x[:2]} after the edit"))
          break
  adj = [t for t in missing if (k == "ignore" or (t[1] == E and E in live["adj"])) and t[0] in starts and t[0] != L]
  if adj and k in ("trailing", "ignore"):
    for t in adj:
      missing.remove(t)
    out.append((adjusted_fp(k, E),
                f"also silenced: {[t[:2] for t in adj][:3]} (start line of a range containing line {L})"))
  # an implicit-return error that moved to the start line and is filtered there by the same directive
  for t in list(missing):
    if k in ("trailing", "ignore") and t[1] == irn and end_moved(base, fn_ends, t[0]) and \
        (k == "ignore" or E == irn):
      missing.remove(t)
      out.append(("implicit-return-line-moves", f"{t[:2]} moved to the statement's start line and is filtered there"))
  drop = [t for t in missing + extra if explained_by_drop(dropped, t[0], t[1])]
  if drop:
    missing = [t for t in missing if t not in drop]
    extra = [t for t in extra if t not in drop]
    out.append(("call-range-drops-earlier-comment-lines",
                f"changed: {[t[:2] for t in drop][:3]}: a call range lost the directive of an earlier line"))
  # '# type: ignore' covering a line of an import statement: the VM skips that import (names become Any)
  import_ignored = False
  if k in ("ignore", "signore") and src_new is not None:
    ignored = ({L} | set(starts)) if k == "ignore" else None     # None = every line >= L
    try:
      for node in ast.walk(ast.parse(src_new)):
        if isinstance(node, (ast.Import, ast.ImportFrom)):
          lines_of = range(node.lineno, node.end_lineno + 1)
          if (ignored is None and node.end_lineno >= L) or (ignored is not None and any(l in ignored for l in lines_of)):
            import_ignored = True
    except SyntaxError:
      pass
  if import_ignored and (missing or extra or before[1] != after[1]):
    out.append(("type-ignore-skips-import",
                f"stub changed={before[1] != after[1]}, missing={[t[:2] for t in missing][:3]} extra={[t[:2] for t in extra][:3]}"))
    return out
  if missing or extra:
    out.append(("e2e-other-errors-changed", f"missing={[t[:2] for t in missing][:3]} extra={[t[:2] for t in extra][:3]}"))
  if before[1] != after[1]:
    out.append(("e2e-stub-changed", "the inferred stub text differs"))
  return out


# ----------------------------------------------------------------------------------------------------

def shrink(src, ed, still_bad, budget_s=20.0, n_prelude=None):
  """Drops top-level statements (after the prelude) while the same deviation persists."""
  deadline = time.time() + budget_s
  npre = len(P.PRELUDE.rstrip("\n").split("\n")) if n_prelude is None else n_prelude
  changed = True
  while changed and time.time() < deadline:
    changed = False
    try:
      tree = ast.parse(src)
    except SyntaxError:
      return src, ed
    spans = []
    for node in tree.body:
      s = min([node.lineno] + [d.lineno for d in getattr(node, "decorator_list", [])])
      if s > npre:
        spans.append((s, node.end_lineno))
    for s, e in reversed(spans):
      if time.time() > deadline:
        break
      lines_used = [ed["line"]] + ([ed["line2"]] if "line2" in ed else [])
      if any(s <= l <= e for l in lines_used):
        continue
      ls = src.split("\n")
      # also drop directly preceding comment-only lines? keep them: they may be directives
      cand = "\n".join(ls[:s - 1] + ls[e:])
      ed2 = dict(ed)
      for key in ("line", "line2"):
        if key in ed2 and ed2[key] > e:
          ed2[key] -= e - s + 1
      try:
        if parses(cand) and still_bad(cand, ed2):
          src, ed = cand, ed2
          changed = True
          break
      except Exception:  # pylint: disable=broad-except
        pass
  return src, ed


def director_deviations(src, disable, ed, table, live):
  ref, new, info = apply_edit(src, ed)
  if not (parses(ref) and parses(new)):
    return None
  names = query_names(ref, new, ed, table)
  nl = len(new.split("\n"))
  qs = query_list(nl, names, table)
  cb, before, _ = real_answers(ref, disable, qs, table)
  ca, after, dnew = real_answers(new, disable, qs, table)
  if cb != 0 or ca != 0:
    return [("construction-raises", f"before={cb} after={ca}")] if ca != cb else []
  groups_new, _, _, _ = M.real_parse(new)
  groups_ref, fr_ref, _, _ = M.real_parse(ref)
  return classify_director(ed, info, qs, before, after, groups_new, table, live, dropped_events(groups_ref, groups_new),
                           {e for _, e in fr_ref})


def e2e_deviations(src, disable, ed, table, live):
  ref, new, info = apply_edit(src, ed)
  b, why = analyse(ref, disable)
  if b is None:
    return None
  a, why = analyse(new, disable)
  if a is None:
    return None
  groups_new, _, _, _ = M.real_parse(new)
  groups_ref, fr_ref, _, _ = M.real_parse(ref)
  return classify_e2e(ed, info, b, a, groups_new, table, live, dropped_events(groups_ref, groups_new),
                      {e for _, e in fr_ref}, src_new=new)


def query_names(ref, new, ed, table):
  names = []
  def add(n):
    if n in table["known"] and n not in names:
      names.append(n)
  if ed.get("name"):
    add(ed["name"])
  for n in BASE_QUERY_NAMES:
    add(n)
  for src in (ref, new):
    for n in POOL:
      if n in src and len(names) < 7:
        # only names that occur in a directive
        if any(("disable=" in l or "enable=" in l) and n in l for l in src.split("\n")):
          add(n)
  return names


def run(res):
  thorough = res.tier == "thorough"
  res.rule = ("programs from a grammar of multi-line statements (calls, nested calls, containers, comprehensions, "
              "with/if/for/while headers, decorators, multi-line signatures, implicit and explicit returns, "
              "try/except, classes, lambdas, subscripts, comparisons), optionally with 1-3 pre-existing directives "
              "(incl. malformed, unknown names, trailing enable, wildcard, pragma/features, type comments) and a "
              "global disable option; x edits: trailing disable=E / type: ignore on a (mostly multi-line) statement "
              "line, stand-alone disable..enable pair, stand-alone disable / type: ignore to EOF.  For each variant "
              "EVERY (line 0..n+1, class in {E, classes named in directives, 4 fixed}, return-opcode flag) query is "
              "answered by the real Director and by the model.  Non-trivial = the edit changes at least one verdict; "
              "distinct by (program text, edit).  Parser leg: every source text above (bounded number per program) plus "
              "13 small programs reaching every visitor branch (async, try/try*, match, nested with, decorated classes, "
              "function type comments, semicolons, signatures, lambdas, ...) with random comments sprinkled in: Python's "
              "real ast is projected to the model's mini tree, the real tokenizer pass gives the raw comments, and ALL "
              "outputs of the real visitor (groups in order, function ranges, returns, block returns, decorators, "
              "defs_start, annotation ranges, matches, the grown defaultdict) are compared with the model's; the parser "
              "theorems' statements are also evaluated directly on the real visitor's output.")
  res.assumptions = [
      "parser.py's tokenizer pass (_process_comments: tokenize + _DIRECTIVE_RE) is not modelled: its output is the "
      "parser model's input (monitored: lines strictly increasing = raw_ok); the ast-level visitor IS modelled "
      "(coq/Directors/Parser.v) and compared with the real one on every source text",
      "projection of Python's ast to the mini tree (harness/props/c03_parser.py: node kinds, spans, the child order of "
      "pytype/ast/visitor.py re-stated independently) is trusted; a wrong projection shows up as a disagreement",
      "of the parser-output hypotheses of the Director theorems, base-group containment, range containment of every "
      "event and the shape of call-range events are now PROVED of the parser model; 'an added trailing comment only "
      "adds events' (inserted) is proved relative to the source with that comment blanked to a plain '#' (erasure "
      "commutes with the visitor); that a plain comment token is event-neutral, that the tokenizer's map of the "
      "blanked source is the erased map, inserted itself, and 'stand-alone comments are seen in line order' "
      "(open_mono) are monitored on the real parser for every edit",
      "comments do not change the bytecode / opcode line numbers (CPython) — covered only by the end-to-end run",
      "comment text is tokenised by str.split on the harness side (command=v1,v2 options); pragma/features "
      "validity read from the live directors._PRAGMAS/_ALLOWED_FEATURES",
      "bisect.bisect / bisect_left modelled by the binary search of CPython's Lib/bisect.py",
      "error names are encoded as numbers by harness/props/c03_gen.py (bijection printed in the generated file)",
      "that the line the director's filter sees (inside ErrorLog._add) is the line the error is finally reported "
      "on (ErrorLog.error(line=...), Error.set_line, fake stacks in vm_utils) is OUTSIDE the model and the "
      "Director-level correspondence (both take the error's line as input): it is covered by the end-to-end leg "
      "only, on the error classes listed in coverage.e2e_error_class_by_edit_kind",
  ]
  # --- regenerate the table-like part of the model from the source (fail closed)
  try:
    table = c03_gen.regenerate()
    res.obligation("translator:error-classes", True,
                   f"{len(table['known'])} names, {len(table['fce'])} function-call, {len(table['adj'])} adjustable")
  except c03_gen.TranslateError as e:
    res.obligation("translator:error-classes", False, str(e))
    return "proof"
  t_phase = time.time()
  common.coq_obligations(res, "C03", extra_targets=["Directors/Cases.vo", "Directors/ParserCases.vo", "Directors/LogCases.vo"])
  res.extra["coq_build_wall_s"] = round(time.time() - t_phase, 1)
  common.bootstrap_pytype()
  from pytype.directors import directors
  from pytype.errors import errors
  live = {"fce": set(directors._FUNCTION_CALL_ERRORS), "adj": set(directors._ALL_ADJUSTABLE_ERRORS),  # pylint: disable=protected-access
          "known": set(errors.get_error_names_set())}
  res.obligation("translator:matches-live-module",
                 live["fce"] == set(table["fce"]) and live["adj"] == set(table["adj"]) and
                 live["known"] == set(table["known"]) and directors._ALL_ERRORS == table["all"],  # pylint: disable=protected-access
                 "tables parsed from the source text differ from the imported module's values")
  res.trusted_base += ["harness/props/c03_gen.py (ast-based table translator, cross-checked against the imported module)",
                       "harness/props/c03_model.py (conversion of the real parser's output to Coq terms; str.split tokeniser)",
                       "CPython tokenize/ast (used by the real parser) and bisect"]
  r = common.rng(res.seed, "c03")
  n_prog = 220 if thorough else 22
  n_e2e_prog = 150 if thorough else 14
  t_start = time.time()

  # --- corpus first
  work = []   # (tag, src, disable, edits)
  cdir = os.path.join(common.CORPUS, "C03")
  for f in sorted(os.listdir(cdir)) if os.path.isdir(cdir) else []:
    d = json.load(open(os.path.join(cdir, f)))
    work.append(("corpus:" + f, d["src"], d.get("disable", []), d["edits"], True))
  for i in range(n_prog):
    src = P.gen_program(r, r.randint(1, 3))
    if r.random() < 0.55:
      src = with_pre_directives(r, src, r.randint(1, 3))
    if not parses(src):
      continue
    disable = r.choice([[], [], [], ["name-error"], ["attribute-error", "bogus"], ["wrong-arg-types"]])
    edits = make_edits(r, src, 5, 2, 2, 1, 1)
    work.append((f"p{i}", src, disable, edits, i < n_e2e_prog))

  # programs of the per-error-class catalogue (match statements, function type comments, ... : parser shapes the
  # grammar above does not produce); a rotating subset in the quick tier
  sp = sorted(P.SPECIALS.items())
  if not thorough:
    r.shuffle(sp)
    sp = sp[:8]
  for sname, ssrc in sp:
    if parses(ssrc):
      work.append(("special:" + sname, ssrc, [], make_edits(r, ssrc, 3, 1, 1, 0, 1), False))

  cases = []        # coq case texts
  case_meta = []
  n_mon_bad = collections.Counter()
  kinds = collections.Counter()
  dev_hist = collections.Counter()
  n_queries = 0
  hyp = collections.Counter()
  hyp_debug = []
  res.extra["hypothesis_counterexamples"] = hyp_debug
  e2e_jobs = []

  reported_fps = set()
  debug_devs = []
  res.extra["unclassified_deviations"] = debug_devs

  def can_report(fp):
    """One violation per distinct fingerprint, at most 6 in total (known findings are never capped)."""
    return fp in res.known or (fp not in reported_fps and len(reported_fps) < 6)

  def report(fp, detail, replay):
    what = KNOWN_WHAT[fp] if fp in KNOWN_WHAT else fp + ": " + detail
    if fp not in KNOWN_WHAT and len(debug_devs) < 12:
      debug_devs.append({"fingerprint": fp, "detail": detail, "replay": replay})
    if not can_report(fp):
      return
    name = fp if fp in KNOWN_WHAT else "c03:" + fp
    if res.violation(name, what, replay):
      reported_fps.add(fp)

  pcases = []       # parser-model cases: (raw, tree, expected sections, nodes)
  pmeta = []
  p_seen = set()
  p_texts = 0
  p_nodes = 0
  p_shapes = collections.Counter()
  p_per_prog = 8 if thorough else 4

  def parser_leg(tag, text, n_of_prog):
    """Real parser on `text`: direct oracles (always) + a model-vs-real case (a bounded number per program)."""
    nonlocal p_texts, p_nodes
    if text in p_seen:
      return n_of_prog
    p_seen.add(text)
    p_texts += 1
    rp = PP.real_parse_full(text)
    lines_ = [l for l, _ in rp.raw]
    if lines_ != sorted(set(lines_)) or (lines_ and lines_[0] < 1) or any(c.line != l for l, cs_ in rp.raw for c in cs_):
      n_mon_bad["raw-comments-not-in-line-order (raw_ok)"] += 1
    p_shapes["statement-groups-line-disjoint" if PP.base_groups_disjoint(rp) else "statement-groups-share-a-line"] += 1
    for fp, detail in PP.oracles(rp):
      dev_hist["parser:" + fp] += 1
      report(fp, detail, {"src": text, "level": "parser"})
    if n_of_prog < p_per_prog:
      parts = PP.case_parts(rp, M.Ids(table), PP.DataIds())
      pcases.append(parts)
      pmeta.append({"tag": tag, "src": text})
      p_nodes += parts[3]
      for ic, s_, e_, cs_ in rp.groups:
        if cs_:
          p_shapes[("call" if ic else "stmt") + ("-multiline" if e_ > s_ else "-1line")] += 1
      res.count(("parser", text) if any(e_ > s_ and cs_ for _, s_, e_, cs_ in rp.groups) else None)
      return n_of_prog + 1
    return n_of_prog

  for tag, src, disable, edits, do_e2e in work:
    ids = M.Ids(table)
    n_pcase = 0
    seen_variants = set()
    variants = [("base", None, src, src, {"L": 0})]
    for ed in edits:
      ref, new, info = apply_edit(src, ed)
      if parses(ref) and parses(new):
        variants.append((ed["kind"], ed, ref, new, info))
    parsed = {}
    for kind, ed, ref, new, info in variants:
      names = query_names(ref, new, ed or {}, table)
      nl = len(new.split("\n"))
      qs = query_list(nl, names, table)
      for which, text in (("ref", ref), ("new", new)):
        if text in parsed:
          continue
        groups, fr, rl, raw = M.real_parse(text)
        parsed[text] = (groups, fr, rl)
        n_pcase = parser_leg(tag, text, n_pcase)
        for b in parser_monitors(groups, raw):
          n_mon_bad[b] += 1
      # model vs real on the edited text (the reference text is the base or is covered as its own variant)
      for text in ({new, ref} if kind in ("pair", "eof", "signore") else {new}):
        if (text, tuple(names)) in seen_variants:
          continue
        seen_variants.add((text, tuple(names)))
        groups, fr, rl = parsed[text]
        code, answers, dreal = real_answers(text, disable, qs, table)
        exc, extra_q = [], []
        if code == 0:
          exc = [(i, a[0], a[1]) for i, ((l, n, ro), a) in enumerate(zip(qs, answers)) if a != (1, l)]
          # a few other-file errors
          for l in (1, nl // 2):
            a = M.real_filter(dreal, l, names[0], False, table, same_file=False)
            extra_q.append((l, ids.of(names[0]), False, False, a[0], a[1]))
        n_queries += len(qs) + len(extra_q)
        cases.append(M.case_text_grid(len(cases), [ids.of(x) for x in disable], fr, rl, groups, ids, code,
                                      nl, [ids.of(n) for n in names], exc, extra_q))
        case_meta.append({"tag": tag, "kind": kind, "src": text, "disable": disable, "queries": qs, "edit": ed})
      if ed is None:
        continue
      kinds[kind] += 1
      # hypotheses of the theorems about how the parser's output changes
      gD, gD2 = flatten(parsed[ref][0]), flatten(parsed[new][0])
      L = info["L"]
      if kind in ("trailing", "ignore"):
        c = (L, "pytype", f"disable={ed['name']}", False) if kind == "trailing" else (L, "type", "ignore", False)
        added = check_inserted(gD, gD2, lambda ev: ev[3] == c and ev[1] <= L <= ev[2])
        drop = dropped_events(parsed[ref][0], parsed[new][0])
        if added is None and drop and all(ev[0] and ev[1] <= L <= ev[2] and ev[3][0] < L for ev in drop) and \
            check_inserted([ev for ev in gD if ev not in drop], gD2, lambda ev: ev[3] == c and ev[1] <= L <= ev[2]) is not None:
          hyp["inserted:violated-by-known-call-range-drop"] += 1
        elif added is None:
          hyp["inserted:violated"] += 1
          if len(hyp_debug) < 5:
            hyp_debug.append({"src": new, "edit": ed, "before": [e for e in gD if e not in gD2][:6],
                              "after": [e for e in gD2 if e not in gD][:6]})
        elif not any(not ev[0] for ev in added):
          hyp["no-base-range-event-added"] += 1
        else:
          hyp["inserted:ok"] += 1
        # parser_trailing_comment_inserted_partial is relative to the source with the comment blanked to a plain
        # "#"; what is left of `inserted` is monitored here: (a) the tokenizer's map of the blanked source is the
        # erased map of the edited source, (b) the plain comment token is event-neutral w.r.t. the reference source
        blank = P.append_to_line(src, L, "#")
        if parses(blank):
          rpN, rpB = PP.real_parse_full(new), PP.real_parse_full(blank)
          tup = lambda x: (x.line, x.tool, x.data, bool(x.open_ended))
          n_same = sum(1 for _, cs_ in rpN.raw for x in cs_ if tup(x) == c)
          if n_same != 1:
            hyp["blank:identical-comment-already-on-the-line"] += 1
          else:
            erased = [(l_, [tup(x) for x in cs_ if tup(x) != c]) for l_, cs_ in rpN.raw]
            if erased == [(l_, [tup(x) for x in cs_]) for l_, cs_ in rpB.raw]:
              hyp["blank:tokenizer-map-is-erased-map"] += 1
            else:
              hyp["blank:tokenizer-map-differs"] += 1
          gB = [(ic, s_, e_, tup(x)) for ic, s_, e_, cs_ in rpB.groups for x in cs_]
          if gB == gD:
            hyp["blank:plain-comment-event-neutral"] += 1
          else:
            hyp["blank:plain-comment-NOT-event-neutral"] += 1
            if len(hyp_debug) < 5:
              hyp_debug.append({"src": blank, "edit": ed, "what": "plain comment changes the events"})
      else:
        cs = [(L, "pytype", f"disable={ed['name']}", True)] if kind != "signore" else [(L, "type", "ignore", True)]
        if kind == "pair":
          cs.append((info["M"], "pytype", f"enable={ed['name']}", True))
        added = check_inserted(gD, gD2, lambda ev: ev[3] in cs and not ev[0])
        if added is None or len(added) != len(cs):
          hyp["inserted-standalone:violated"] += 1
        else:
          hyp["inserted-standalone:ok"] += 1
      # Director-level oracle on the real implementation
      cb, before, dref = real_answers(ref, disable, qs, table)
      ca, after, _ = real_answers(new, disable, qs, table)
      if cb != 0 or ca != 0:
        if cb == 0 and ca != 0 and kind in ("trailing", "ignore"):
          report("construction-raises-after-edit", f"code {ca}", {"src": src, "disable": disable, "edit": ed, "level": "director"})
        res.count(None)
        continue
      skip_oracle = False
      if kind in ("pair", "eof"):
        # preconditions of the stand-alone theorem: E not range-disabled at L, no other stand-alone directive
        # naming E inside; otherwise "nowhere else" is not expected
        import bisect
        E = ed["name"]
        tr = dref._disables[E]._transitions   # pylint: disable=protected-access
        Mx = info.get("M")
        inside_open = any(cc[3] and cc[1] == "pytype" and E in cc[2] and cc[0] > L and (Mx is None or cc[0] < Mx)
                          for _, _, _, cc in gD2 if cc not in cs)
        after_open = kind == "eof" and any(cc[3] and cc[1] == "pytype" and E in cc[2] and cc[0] > L
                                           for _, _, _, cc in gD2 if cc not in cs)
        if bisect.bisect(tr, L) % 2 == 1 or inside_open or after_open or (Mx is not None and Mx <= L):
          skip_oracle = True
          hyp["standalone-precondition-false"] += 1
      changed = sum(1 for a, b in zip(after, before) if a != b)
      res.count((src, json.dumps(ed, sort_keys=True)) if changed else None)
      if len(res.samples) < 4 and changed and kind == "trailing" and len(src) < 900:
        res.sample({"program": src[len(P.PRELUDE):], "edit": ed, "verdicts_changed": changed})
      if not skip_oracle:
        devs = classify_director(ed, info, qs, before, after, parsed[new][0], table, live,
                                 dropped_events(parsed[ref][0], parsed[new][0]), {e for _, e in parsed[ref][1]})
        for fp in sorted({d[0] for d in devs}):
          dev_hist["director:" + fp] += 1
          detail = next(d[1] for d in devs if d[0] == fp)
          rep = {"src": src, "disable": disable, "edit": ed, "level": "director"}
          if fp not in res.known and can_report(fp):
            def still(c_src, c_ed, fp=fp):
              dv = director_deviations(c_src, disable, c_ed, table, live)
              return bool(dv) and any(d[0] == fp for d in dv)
            s2, e2 = shrink(src, ed, still, 10.0)
            rep = {"src": s2, "disable": disable, "edit": e2, "level": "director"}
          report(fp, detail, rep)
      if do_e2e and (kind in ("trailing", "ignore") or (kind == "pair" and not skip_oracle)):
        e2e_jobs.append((tag, src, disable, ed))
      elif do_e2e and tag.startswith("corpus:") and not skip_oracle:
        e2e_jobs.append((tag, src, disable, ed))

  # parser leg only: small programs reaching every branch of the visitor, with random comments sprinkled in
  for sname, stext in PP.shape_variants(r, 12 if thorough else 2):
    parser_leg("shape:" + sname, stext, 0)
  res.extra["generation_and_director_oracle_wall_s"] = round(time.time() - t_start, 1)
  res.extra["variants"] = len(cases)
  res.extra["queries_compared"] = n_queries
  res.extra["edits_by_kind"] = dict(kinds)
  res.extra["parser_hypotheses"] = dict(hyp)
  res.obligation("hypothesis:parser-invariants", not n_mon_bad, json.dumps(n_mon_bad))
  res.obligation("hypothesis:edit-adds-events-only",
                 hyp["inserted:violated"] == 0 and hyp["inserted-standalone:violated"] == 0 and
                 hyp["no-base-range-event-added"] == 0, json.dumps(hyp))
  res.obligation("hypothesis:blanked-comment-is-neutral",
                 hyp["blank:tokenizer-map-differs"] == 0 and hyp["blank:plain-comment-NOT-event-neutral"] == 0,
                 json.dumps({k: v for k, v in hyp.items() if k.startswith("blank:")}))

  # --- model vs implementation (Coq evaluates the model and compares)
  t0 = time.time()
  files = []
  n_files = 12 if thorough else 4        # each coqc process pays the stdlib loading cost once
  per = min(450, max(1, -(-len(cases) // n_files)))
  nf = max(1, -(-len(cases) // per))
  pper = max(1, -(-len(pcases) // nf))
  for k in range(0, len(cases), per):
    chunk = [c.replace(f"Definition case_{k + j} :", f"Definition case_{j} :", 1) for j, c in enumerate(cases[k:k + per])]
    fi = k // per
    # the parser-model cases ride in the same files (one library load per coqc process)
    files.append((f"c03_{fi}", M.cases_file(chunk) + PP.cases_body(pcases[fi * pper:(fi + 1) * pper])))
  results = common.run_cases_parallel(files)
  n_mism = 0
  n_pmism = 0
  for k, (name, _) in enumerate(files):
    ok, out = results[name]
    terms = common.parse_coq_eval(out) if ok else []
    bad = PP.parse_bad_term(terms[0]) if len(terms) == 2 else None
    pbad = PP.parse_bad_term(terms[1]) if len(terms) == 2 else None
    if bad is not None and pbad is None:
      bad = None
    for idx, secs in sorted((pbad or {}).items()):
      n_pmism += 1
      meta = pmeta[k * pper + idx]
      if n_pmism <= 3:
        res.obligation("correspondence:parser:" + meta["tag"], False,
                       "parser model and real parser.py differ in " +
                       ", ".join(PP.SECTION_NAMES[i] if i < len(PP.SECTION_NAMES) else str(i) for i in secs) +
                       f"; source:\n{meta['src']}")
    if bad is None:
      res.obligation("correspondence:coq-run:" + name, False, out[-1500:])
      n_mism += 1
      continue
    for idx, qidx in sorted(bad.items()):
      n_mism += 1
      meta = case_meta[k * per + idx]
      if n_mism <= 3:
        q = [meta["queries"][i] if i < len(meta["queries"]) else ("other-file/construction", i) for i in qidx[:5]]
        res.obligation("correspondence:" + meta["tag"] + ":" + meta["kind"], False,
                       f"model and real Director differ on queries {q}; disable={meta['disable']}; source:\n{meta['src']}")
  res.obligation("correspondence:model-vs-Director", n_mism == 0, f"{n_mism} of {len(cases)} variants disagree")
  res.obligation("correspondence:parser-model-vs-parser.py", n_pmism == 0,
                 f"{n_pmism} of {len(pcases)} source texts: the model's groups/ranges differ from the real visitor's")
  res.extra["parser_texts_oracle_checked"] = p_texts
  res.extra["parser_model_cases"] = len(pcases)
  res.extra["parser_model_tree_nodes"] = p_nodes
  res.extra["parser_nonempty_group_shapes"] = dict(p_shapes)
  res.extra["coq_cases_wall_s"] = round(time.time() - t0, 1)

  # --- end-to-end metamorphic oracle (the first analyses also record the real ErrorLog's operation history)
  global LOG_SINK, LOG_SINK_CAP
  LOG_SINK, LOG_SINK_CAP = [], (400 if thorough else 45)
  LOG_SEEN.clear()
  t0 = time.time()
  c0 = time.process_time()   # the e2e budget is CPU time of this process: coverage must not depend on machine load
  budget = 600 if thorough else 32
  n_e2e = 0
  n_unexplorable = 0
  base_cache = {}
  class_by_kind = collections.Counter()     # "class/edit-kind" -> number of e2e comparisons
  specials_without_error = []

  def run_e2e_edit(tag, src, disable, e1, cls=None):
    nonlocal n_e2e, n_unexplorable
    devs = e2e_deviations(src, disable, e1, table, live)
    if devs is None:
      n_unexplorable += 1
      return
    n_e2e += 1
    kinds["e2e:" + e1["kind"]] += 1
    if cls:
      class_by_kind[cls + "/" + e1["kind"]] += 1
    res.count(("e2e", src, json.dumps(e1, sort_keys=True)))
    for fp in sorted({d[0] for d in devs}):
      dev_hist["e2e:" + fp] += 1
      detail = next(d[1] for d in devs if d[0] == fp)
      rep = {"src": src, "disable": disable, "edit": e1, "level": "e2e", "from": tag}
      if fp not in res.known and can_report(fp):
        def still(c_src, c_ed, fp=fp):
          dv = e2e_deviations(c_src, disable, c_ed, table, live)
          return bool(dv) and any(d[0] == fp for d in dv)
        s2, e2 = shrink(src, e1, still, 20.0, n_prelude=0 if tag.startswith("special:") else None)
        rep = {"src": s2, "disable": disable, "edit": e2, "level": "e2e", "from": tag}
      report(fp, detail, rep)

  # (1) breadth first: one small program per error class (c03_progs.SPECIALS); every error it reports gets a
  #     trailing disable on its reported line, the first one also a type: ignore
  for sname, ssrc in P.SPECIALS.items():
    if time.process_time() - c0 > budget * 0.5:
      break
    b, why = analyse(ssrc, [])
    if b is None:
      n_unexplorable += 1
      continue
    app = set(P.appendable_lines(ssrc))
    targets = sorted({(t[0], t[1]) for t in b[0] if t[0] in app and t[1] in table["known"]})
    if not targets:
      specials_without_error.append(sname)
    for j, (l, n) in enumerate(targets[: (8 if thorough else 4)]):
      run_e2e_edit("special:" + sname, ssrc, [], {"kind": "trailing", "line": l, "name": n}, n)
      if j == 0 or thorough:
        run_e2e_edit("special:" + sname, ssrc, [], {"kind": "ignore", "line": l}, n)
  res.extra["e2e_special_programs"] = len(P.SPECIALS)
  res.extra["e2e_special_programs_without_error"] = specials_without_error

  # (2) the generated programs: one job per (program, reported error): append the directive to the reported line
  e2e_plan = []
  seen_prog = set()
  for tag, src, disable, ed in e2e_jobs:
    if tag.startswith("corpus:"):
      e2e_plan.append((tag, src, disable, ed))     # corpus edits are replayed exactly
      continue
    if (src, tuple(disable)) not in seen_prog:
      seen_prog.add((src, tuple(disable)))
      e2e_plan.append((tag, src, disable, None))
    if ed["kind"] == "pair" and r.random() < 0.5:
      e2e_plan.append((tag, src, disable, ed))
  for tag, src, disable, ed in e2e_plan:
    if time.process_time() - c0 > budget:
      break
    if ed is None:
      b, why = analyse(src, disable)
      if b is None:
        n_unexplorable += 1
        continue
      app = set(P.appendable_lines(src))
      targets = sorted({(t[0], t[1]) for t in b[0] if t[0] in app and t[1] in table["known"]})
      r.shuffle(targets)
      # prefer classes exercised least so far
      targets.sort(key=lambda t: class_by_kind[t[1] + "/trailing"])
      eds = [({"kind": "trailing", "line": l, "name": n}, n) for (l, n) in targets[: (6 if thorough else 3)]]
      if targets:
        eds.append(({"kind": "ignore", "line": targets[0][0]}, targets[0][1]))
    else:
      eds = [(ed, ed.get("name"))]
    for e1, cls in eds:
      if time.process_time() - c0 > budget:
        break
      run_e2e_edit(tag, src, disable, e1, cls)
  res.extra["e2e_error_class_by_edit_kind"] = dict(sorted(class_by_kind.items()))
  res.extra["e2e_error_classes_exercised"] = len({k.split("/")[0] for k in class_by_kind})
  res.extra["e2e_edits_analysed"] = n_e2e
  res.extra["e2e_not_explorable"] = n_unexplorable
  res.extra["e2e_wall_s"] = round(time.time() - t0, 1)
  res.extra["deviations_seen"] = dict(dev_hist)
  res.extra["edits_by_kind"] = dict(kinds)
  res.obligation("e2e:ran", n_e2e > 0, "no end-to-end comparison could be run")
  error_log_leg(res, r, table, thorough, report)
  if thorough:
    ok, out = common_coqchk("C03")
    res.obligation("coqchk", ok, out[-1500:])
  return "proof"


DIRECTOR_ERROR_PROGRAMS = {
    "type-comment-no-assignment": "def foo(x): return x\nfoo(1)  # type: int\nfoo(undefined_a)\n",
    "type-comment-mid-expression": "x = [1,  # type: int\n     undefined_b]\n",
    "multiple-type-comments": "x = (1,  # type: int\n  2)  # type: str\ny = undefined_c\n",
    "malformed-directive": "x = undefined_d  # pytype: ignore\ny = undefined_e  # pytype: disable\n",
    "unknown-error-name": "x = undefined_f  # pytype: disable=nmae-error,name-error\ny = undefined_g\n",
    "unknown-command": "x = undefined_h  # pytype: silence=name-error\n",
    "late-directive": "def f() -> int:\n  # pytype: disable=bad-return-type\n  return 'a'\nx = undefined_i\n",
    "late-type-ignore": "def f(): pass\n# type: ignore\nx = undefined_j\n",
    "type-ignore-variants": "x = undefined_k  # type: ignore[name-error]\ny = undefined_l  # type:ignore\nz = undefined_m # type: ignore # pytype: disable=attribute-error\n",
    "quoted-annotation": "def f(x: 'Undefined1') -> 'Undefined2':  # pytype: disable=attribute-error\n  return x\ny: 'Undefined3' = 1\n",
    "quoted-annotation-silenced": "def f(x: 'Undefined1'): return x  # pytype: disable=name-error\ny: 'List[Undefined3]' = []  # type: ignore\nz: 'Undefined4' = 1\n",
    "type-comment-names": "x = []  # type: Undefined5\ny = 1  # type: Undefined6  # pytype: disable=name-error\n",
    "incomplete-match": "from typing import Literal\ndef h(x: Literal['a', 'b']):\n  match x:\n    case 'a':\n      return 1\nprint(undefined_n)\n",
    "incomplete-match-silenced": "from typing import Literal\ndef h(x: Literal['a', 'b']):\n  match x:  # pytype: disable=incomplete-match\n    case 'a':\n      return 1\n",
    "union-annotation-checkpoint": "def f(x: int | 'Undefined7'): return x\ny = int | undefined_o\n",
}


def error_log_leg(res, r, table, thorough, report):
  """Model of errors.py ErrorLog + the run_program wiring vs the real code: recorded histories of whole programs
  (those analysed by the e2e leg + DIRECTOR_ERROR_PROGRAMS) and synthetic histories on the real ErrorLog."""
  global LOG_SINK
  from pytype import preprocess
  t0 = time.time()
  recs = []       # (tag, src, disable, Recorder, filename)
  sink, LOG_SINK = LOG_SINK or [], None
  for name, src in sorted(DIRECTOR_ERROR_PROGRAMS.items()):
    LOG_SINK = []
    LOG_SEEN.discard((src, ()))
    b, why = analyse(src, [])
    if LOG_SINK:
      recs.append(("director-errors:" + name, src, [], LOG_SINK[0][2]))
    LOG_SINK = None
  for src, disable, rec in sink:
    recs.append(("e2e-program", src, disable, rec))
  n_whole = len(recs)
  names = ["name-error", "attribute-error", "wrong-arg-types", "bad-return-type", "invalid-directive",
           "ignored-type-comment", "late-directive", "annotation-type-mismatch"]
  n_syn = 160 if thorough else 30
  tries = 0
  while len(recs) < n_whole + n_syn and tries < 4 * n_syn:
    tries += 1
    src = P.gen_program(r, r.randint(1, 2))
    src = with_pre_directives(r, src, r.randint(1, 3))
    if not parses(src):
      continue
    for ed in make_edits(r, src, 2, 1, 1, 0, 0)[:3]:
      _, new, _ = apply_edit(src, ed)
      if parses(new):
        src = new
    disable = r.choice([[], [], ["name-error"], ["attribute-error", "bogus"]])
    rec = LG.drive_synthetic(r, src, disable, names, r.randint(15, 60))
    if rec is not None:
      recs.append(("synthetic", src, disable, rec))
  res.extra["errorlog_generation_wall_s"] = round(time.time() - t0, 1)
  ids = M.Ids(table)
  texts, meta = [], []
  op_hist = collections.Counter()
  pre_classes = collections.Counter()
  n_copy_same = collections.Counter()
  for tag, src, disable, rec in recs:
    if rec.log is None and not rec.ops:
      continue      # nothing was logged and no filter installed: no history
    filename = rec.director._filename if rec.director is not None else M.FILENAME    # pylint: disable=protected-access
    # direct oracles on the implementation
    for fp, detail in LG.oracle(rec, filename):
      report(fp, detail, {"src": src, "disable": disable, "level": "log", "from": tag})
    if tag == "synthetic":
      psrc = src
    else:
      psrc = preprocess.augment_annotations(src)
    try:
      groups, fr_items, ret_lines, _ = M.real_parse(psrc)
    except Exception:  # pylint: disable=broad-except
      continue
    seen_filter = False
    for o in rec.ops:
      op_hist[o[0]] += 1
      if o[0] == "setfilter":
        seen_filter = True
      elif o[0] == "add" and not seen_filter:
        pre_classes[o[1][2]] += 1
    n_copy_same.update(rec.copy_arg_is_last_record)
    texts.append(LG.case_text(len(texts), [ids.of(n) for n in disable], fr_items, ret_lines, groups, ids,
                              rec.ops, rec.final(), filename))
    meta.append((tag, src, disable, rec))
    res.count(("log", src, tuple(disable), len(rec.ops)) if len(rec.ops) > 1 else None)
  bad = 0
  n_foreign_bad = 0
  if texts:
    per = 28
    files = [(f"c03_log_{k // per}", LG.cases_file(
        [t.replace(f"Definition lcase_{k + j} :", f"Definition lcase_{j} :", 1) for j, t in enumerate(texts[k:k + per])]))
             for k in range(0, len(texts), per)]
    t1 = time.time()
    results = common.run_cases_parallel(files)
    res.extra["errorlog_coq_wall_s"] = round(time.time() - t1, 1)
    for fi, (name, _) in enumerate(files):
      ok, out = results[name]
      terms = common.parse_coq_eval(out) if ok else []
      rows = LG.parse_results(terms[0]) if len(terms) == 1 else None
      want = len(texts[fi * per:(fi + 1) * per])
      if rows is None or len(rows) != want or any(len(x) != 2 for x in rows):
        res.obligation("correspondence:coq-run:" + name, False, out[-1500:])
        bad += 1
        continue
      for j, (code, foreign) in enumerate(rows):
        tag, src, disable, rec = meta[fi * per + j]
        if not foreign:
          n_foreign_bad += 1
          if tag != "synthetic":
            res.obligation("hypothesis:copied-records-are-foreign:" + tag, False,
                           f"copy_from of a record holding an error of the analysed file; source:\n{src}")
        if code != 0:
          bad += 1
          if bad <= 3:
            res.obligation("correspondence:errorlog:" + tag, False,
                           f"{LG.CODES.get(code, code)}: real final log {[(s[1], s[2]) for s in rec.final()][:12]}; "
                           f"ops {[o[:2] for o in rec.ops][:25]}; disable={disable}; source:\n{src}")
  res.obligation("correspondence:errorlog-model-vs-errors.py", bad == 0,
                 f"{bad} of {len(texts)} recorded histories: the model's final log differs from the real one")
  res.obligation("errorlog:ran", len(texts) > 0 and op_hist["setfilter"] > 0, "no history was recorded")
  res.extra["errorlog_histories"] = {"whole_programs": sum(1 for m in meta if m[0] != "synthetic"),
                                     "synthetic": sum(1 for m in meta if m[0] == "synthetic")}
  res.extra["errorlog_ops"] = dict(op_hist)
  res.extra["errorlog_prefilter_error_classes"] = dict(pre_classes)
  res.extra["errorlog_copy_from_argument_is_latest_record"] = {str(k): v for k, v in n_copy_same.items()}
  res.extra["errorlog_synthetic_histories_with_same_file_record_copied"] = n_foreign_bad
  res.extra["errorlog_wall_s"] = round(time.time() - t0, 1)



def common_coqchk(pid):
  r = subprocess.run(["timeout", "1500", "coqchk", "-silent", "-o", "-Q", common.COQ, "PV", f"PV.Props.{pid}"],
                     capture_output=True, text=True, cwd=common.COQ)
  return r.returncode == 0, r.stdout + r.stderr


def replay(res, path):
  common.bootstrap_pytype()
  table = c03_gen.regenerate()
  from pytype.directors import directors
  from pytype.errors import errors
  live = {"fce": set(directors._FUNCTION_CALL_ERRORS), "adj": set(directors._ALL_ADJUSTABLE_ERRORS),  # pylint: disable=protected-access
          "known": set(errors.get_error_names_set())}
  d = json.load(open(path))
  rp = d["replay"]
  if rp.get("level") == "parser":
    print("---- program")
    print(rp["src"])
    real = PP.real_parse_full(rp["src"])
    print("---- groups of the real parser:")
    for ic, s_, e_, cs_ in real.groups:
      print("  ", "Call" if ic else "LineRange", (s_, e_), [(c.line, c.tool, c.data, c.open_ended) for c in cs_])
    print("---- function ranges:", dict(real.visitor.function_ranges), "returns:", sorted(real.visitor.block_returns.all_returns()))
    dv = PP.oracles(real)
    print("---- deviations from the parser theorems' statements:")
    for x in dv[:10]:
      print("  ", x)
    want = d.get("fingerprint", "").replace("c03:", "")
    return 1 if any(x[0] == want for x in dv) or (not want and dv) else 0
  if rp.get("level") == "log":
    print("---- program")
    print(rp["src"])
    with LG.Recorder() as rec:
      from pytype import io as _io, config as _config
      try:
        _io.generate_pyi(rp["src"], _config.Options.create(python_version=(3, 12), disable=",".join(rp.get("disable", []))) if rp.get("disable") else _config.Options.create(python_version=(3, 12)))
      except Exception as e:  # pylint: disable=broad-except
        print("analysis raised", type(e).__name__, e)
    print("---- recorded ErrorLog operations:")
    for o in rec.ops:
      print("  ", o)
    print("---- final log:", [(x[1], x[2]) for x in rec.final()])
    fn = rec.director._filename if rec.director is not None else None    # pylint: disable=protected-access
    dv = LG.oracle(rec, fn)
    print("---- deviations:")
    for x in dv:
      print("  ", x)
    want = d.get("fingerprint", "").replace("c03:", "")
    return 1 if any(x[0] == want for x in dv) or (not want and dv) else 0
  src, disable, ed = rp["src"], rp.get("disable", []), rp["edit"]
  ref, new, info = apply_edit(src, ed)
  print("---- program (edit: %s)" % json.dumps(ed))
  print(new)
  dv = director_deviations(src, disable, ed, table, live) or []
  print("---- Director-level deviations from the property:")
  for x in dv[:10]:
    print("  ", x)
  ev = e2e_deviations(src, disable, ed, table, live)
  if ev is not None:
    b, _ = analyse(ref, disable)
    a, _ = analyse(new, disable)
    print("---- errors before:", [t[:2] for t in b[0]])
    print("---- errors after :", [t[:2] for t in a[0]])
    print("---- end-to-end deviations from the property:")
    for x in ev[:10]:
      print("  ", x)
  fps = {x[0] for x in dv} | {x[0] for x in (ev or [])}
  want = d.get("fingerprint", "").replace("c03:", "")
  return 1 if (want in fps or (not want and fps)) else 0


def generate():
  """Called by harness/setup.py before the Coq build (coq/Generated is not committed)."""
  c03_gen.regenerate()
