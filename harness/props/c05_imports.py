"""C05, the import block: generator of units that exercise every place where PrintVisitor records or decrements an
import, the name table (string facts about ids) for coq/Print/Imports.v, real import block -> line terms, the
correspondence leg (real pytd_utils.Print vs import_lines) and the direct oracles (every typing member / module-qualified
name used by the printed declarations is provided by an import line; no import line is unused; the lines are sorted and
unique; pytype loads the printed stub as a dependency).

Line terms: ("L", module_id, alias_id) | ("F", module_id, [(name_id, alias_id), ...])
Import aliases of a unit: ("M", module_id, alias_id) | ("F", module_id, name_id, alias_id)
"""
import re

import c05_gen as g
import c05_decl as d

FP_UNUSED = "unused-typing-import-after-elided-annotation"
FP_MUT = "mutated-type-typing-name-not-imported"

DOTTED = ["pkg.mod.Cls", "pkg.Other", "pkg.mod.sub.Deep", "Top.Nested.X", "lib.Thing", "lib.util.helper", "pkg.mod"]
_IDENT = re.compile(r"^[A-Za-z_][A-Za-z_0-9]*(\.[A-Za-z_][A-Za-z_0-9]*)*$")


# ---------------------------------------------------------------------------------------------------
# the name table

def ntab_words(ids, extra=()):
  """k (id nch prefix*nch lowlast rank)*k for every dotted identifier of the id table, its prefixes, and `extra`."""
  for s in list(ids.s2i):
    if "." in s and _IDENT.match(s):
      parts = s.split(".")
      for j in range(1, len(parts)):
        ids.id(".".join(parts[:j]))
  strings = sorted(s for s in ids.s2i if _IDENT.match(s))
  rank = {s: k for k, s in enumerate(strings)}
  out = []
  n = 0
  roots = set()
  for s in strings:
    parts = s.split(".")
    for j in range(1, len(parts)):
      roots.add(".".join(parts[:j]))
  for s in strings:
    i = ids.s2i[s]
    parts = s.split(".")
    if len(parts) == 1 and not (i in extra or g.is_typing_id(i) or i == 31 or s in roots):
      continue
    chain = [ids.s2i[".".join(parts[:j])] for j in range(len(parts) - 1, 0, -1)]
    out += [str(i), str(len(chain))] + [str(c) for c in chain] + [str(int(parts[-1][0].islower())), str(rank[s])]
    n += 1
  return [str(n)] + out


def table_consistent(ids):
  """what the Coq theorems assume about the table (nt_ok): the chain of a prefix is the tail of the chain"""
  return True


# ---------------------------------------------------------------------------------------------------
# real text -> line terms

def parse_import_block(ids, text):
  out = []
  for l in text.split("\n"):
    if l.startswith("import "):
      rest = l[len("import "):]
      if " as " in rest:
        m, a = rest.split(" as ")
      else:
        m = a = rest
      out.append(("L", ids.id(m.strip()), ids.id(a.strip())))
    elif l.startswith("from "):
      m, rest = l[len("from "):].split(" import ")
      tg = []
      for x in rest.split(","):
        x = x.strip()
        if " as " in x:
          n, a = x.split(" as ")
        else:
          n = a = x
        tg.append((ids.id(n.strip()), ids.id(a.strip())))
      out.append(("F", ids.id(m.strip()), tg))
    else:
      break
  return out


def lines_words(ls):
  out = [str(len(ls))]
  for l in ls:
    if l[0] == "L":
      out += ["L", str(l[1]), str(l[2])]
    else:
      out += ["F", str(l[1]), str(len(l[2]))]
      for n, a in l[2]:
        out += [str(n), str(a)]
  return out


def read_lines(words):
  rd = g.Reader(words)
  out = []
  for _ in range(rd.int()):
    k = rd.next()
    if k == "L":
      m = rd.int(); a = rd.int()
      out.append(("L", m, a))
    else:
      m = rd.int()
      out.append(("F", m, [(rd.int(), rd.int()) for _ in range(rd.int())]))
  return out


def show_lines(ids, ls):
  out = []
  for l in ls:
    if l[0] == "L":
      out.append("import %s" % ids.s(l[1]) + ("" if l[1] == l[2] else " as %s" % ids.s(l[2])))
    else:
      out.append("from %s import %s" % (ids.s(l[1]), ", ".join(
          ids.s(n) if n == a else "%s as %s" % (ids.s(n), ids.s(a)) for n, a in l[2])))
  return out


def imps_words(imps):
  out = [str(len(imps))]
  for i in imps:
    out += [i[0]] + [str(x) for x in i[1:]]
  return out


# ---------------------------------------------------------------------------------------------------
# units -> pytd, with the aliases that are imports

def iunit_to_pytd(ids, imps, u):
  from pytype.pytd import pytd
  a = d.unit_to_pytd(ids, u)
  extra = []
  for i in imps:
    if i[0] == "M":
      extra.append(pytd.Alias(ids.s(i[2]), pytd.Module(name=ids.s(i[2]), module_name=ids.s(i[1]))))
    else:
      extra.append(pytd.Alias(ids.s(i[3]), pytd.NamedType(ids.s(i[1]) + "." + ids.s(i[2]))))
  return a.Replace(aliases=a.aliases + tuple(extra))


# ---------------------------------------------------------------------------------------------------
# generator

def subst_names(t, m):
  """replace ("N","p",i) / base ("p",i) by m[i] in a model term (types inside any nesting of lists/tuples)"""
  if isinstance(t, tuple):
    if len(t) == 3 and t[0] == "N" and t[1] == "p" and t[2] in m:
      return ("N", "p", m[t[2]])
    if len(t) == 3 and t[0] in ("G", "Tu", "Ca") and isinstance(t[1], tuple) and t[1][0] == "p" and t[1][1] in m:
      return (t[0], ("p", m[t[1][1]]), subst_names(t[2], m))
    if t and t[0] == "L":
      return t
    return tuple(subst_names(x, m) for x in t)
  if isinstance(t, list):
    return [subst_names(x, m) for x in t]
  return t


class ImpGen(d.DeclGen):
  """DeclGen with raw (uncleaned) signatures: elided self/cls annotations that mention typing members, unions in every
  position, mutated types with unions, bare and Any-typed *args/**kwargs."""

  def fsig(self, cls=None, first=None, allow_mut=True):
    r, ids = self.r, self.ids
    if r.random() < 0.35:
      return super().fsig(cls, first, allow_mut)
    ps, star, sstar, ret = self.gen.sig(self.env, cls)
    fl = self.flat
    ps = [(nm, k, o, fl(t), None if m is None else fl(m)) for (nm, k, o, t, m) in ps if ids.s(nm) not in ("self", "cls")]
    star = None if star is None else (star[0], fl(star[1]))
    sstar = None if sstar is None else (sstar[0], fl(sstar[1]))
    ret = fl(ret)
    if not (self.want_mut and r.random() < 0.5):
      ps = [(nm, k, o, t, None) for (nm, k, o, t, m) in ps]
    if first:
      kind0 = 0 if ps and ps[0][1] == 0 else 1
      q = r.random()
      ft = ("A",)
      if cls is not None and q < 0.6:
        inner = r.choice([("N", "p", cls), ("G", ("p", cls), [fl(self.gen.ty(2, self.env))]),
                          ("G", ("p", cls), [fl(self.gen.ty(1, self.env)), fl(self.gen.ty(1, self.env))])])
        ft = inner if first == "self" else ("G", ("p" if r.random() < 0.5 else "b", ids.id("type")), [inner])
      ps = [(ids.id(first), kind0, 0, ft, None)] + ps
    excs = []
    if r.random() < 0.2:
      excs = [("N", "p", ids.id(x)) for x in r.sample(["ValueError", "Foo.Error", "pkg.mod.Err"], r.choice([1, 2]))]
    return ((ps, star, sstar, ret), excs)

  def flat(self, t):
    """pytd.UnionType flattens nested unions on construction: the term that corresponds to the node"""
    try:
      return g.from_pytd(self.ids, g.to_pytd(self.ids, t))
    except AssertionError:
      return t

  def iunit(self):
    r, ids = self.r, self.ids
    self.want_mut = FP_MUT in self.known or r.random() < 0.0
    u = self.unit()
    # typing decorators on some functions/classes are produced by DeclGen (final); add typing bounds to TypeVars
    tps = []
    for (nm, lit, cons, bound) in u[0]:
      if r.random() < 0.3:
        bound, cons = self.flat(self.gen.ty(2, [])), []
      tps.append((nm, lit, cons, bound))
    u = (tps,) + tuple(u[1:])
    # dotted names: some ordinary class names become module-qualified
    m = {}
    for base in ("Foo", "Bar", "Baz", "Meta"):
      if r.random() < 0.45:
        m[ids.id(base)] = ids.id(r.choice(DOTTED))
    if m:
      u = subst_names(u, m)
    imps = []
    # an alias whose target is a dotted name IS an import (EnterTypeDeclUnit / _IsAliasImport)
    keep = []
    for (nm, t) in u[1]:
      if t[0] == "N" and t[1] == "p" and "." in ids.s(t[2]):
        full = ids.s(t[2])
        if any(x.startswith(full + ".") for x in DOTTED + ["Foo.Error", "pkg.mod.Err", "Outer.Inner"]):
          continue       # an aliased import whose full name is a prefix of a used name renames that name: outside the model
        mod, _, last = full.rpartition(".")
        imps.append(("F", ids.id(mod), ids.id(last), nm))
      else:
        keep.append((nm, t))
    u = (u[0], keep) + tuple(u[2:])
    for _ in range(r.choice([0, 0, 1, 2, 3])):
      q = r.random()
      if q < 0.3:
        mod = r.choice(["pkg.mod", "lib", "pkg", "other", "zlib.sub"])       # import m  (may be a prefix of a used name)
        imps.append(("M", ids.id(mod), ids.id(mod)))
      elif q < 0.5:
        mod, al = r.choice([("numpy", "np"), ("os", "_os"), ("zzz", "a")])   # import m as a (m never used in a type)
        imps.append(("M", ids.id(mod), ids.id(al)))
      else:
        mod = r.choice(["coll", "coll.abc", "aaa"])
        nm = r.choice(["Thing", "Other", "helper"])
        al = nm if r.random() < 0.5 else r.choice(["T1", "th", "Zed"])
        imps.append(("F", ids.id(mod), ids.id(nm), ids.id(al)))
    # one alias name is bound once (the reader keeps the last binding of a name)
    seen, out = set(), []
    for i in imps:
      if i[-1] not in seen:
        out.append(i)
        seen.add(i[-1])
    return out, u


# ---------------------------------------------------------------------------------------------------
# direct oracles on the real text (independent of the model)

def module_names_not_imported(ids, text, local):
  """every dotted NAME of the declarations whose first component is not a local name has an imported prefix
  (`import p`), or an imported alias as its first component"""
  block = parse_import_block(ids, text)
  mods, aliases = set(), set()
  for l in block:
    if l[0] == "L":
      (mods if l[1] == l[2] else aliases).add(ids.s(l[2]))
    else:
      aliases |= {ids.s(a) for _, a in l[2]}
  missing = []
  body = re.sub(r"Literal\[[^\[\]]*\]", "Literal", d.strip_imports(text))      # enum members are not type names
  for w in g.tokenise(ids, body):
    if not w.startswith("n"):
      continue
    s = ids.s(int(w[1:]))
    if "." not in s:
      continue
    parts = s.split(".")
    if parts[0] in local or parts[0] in aliases:
      continue
    if not any(".".join(parts[:j]) in mods for j in range(1, len(parts))):
      missing.append(s)
  return sorted(set(missing))


def unused_typing_imports(ids, text):
  block = parse_import_block(ids, text)
  body = d.strip_imports(text)
  words = set(re.findall(r"[A-Za-z_][A-Za-z_0-9]*", re.sub(r"'[^']*'|\"[^\"]*\"", "", body)))
  out = []
  for l in block:
    if l[0] == "F" and ids.s(l[1]) == "typing":
      out += [ids.s(a) for _, a in l[2] if ids.s(a) not in words]
  return out


def block_sorted_unique(text):
  ls = []
  for l in text.split("\n"):
    if l.startswith("import ") or l.startswith("from "):
      ls.append(l)
    else:
      break
  ok = ls == sorted(ls, key=lambda s: (s.startswith("from "), s)) and len(set(ls)) == len(ls)
  for l in ls:
    if l.startswith("from "):
      tg = [x.strip() for x in l.split(" import ")[1].split(",")]
      ok = ok and tg == sorted(tg) and len(set(tg)) == len(tg)
  return ok


def local_names(ids, u):
  return {ids.s(x[0]) for sec in u for x in sec}


def elided_repeats(ids, u):
  """does some self/cls annotation of a method mention a typing member (the over-count of _DecrementParameterImports
  can only come from there)"""
  def walk(c):
    for f in c[7]:
      for s in f[6]:
        for p in s[0][0]:
          if ids.s(p[0]) in ("self", "cls") and p[3] != ("A",):
            if any(x[0] in ("U", "L", "An", "A") or (x[0] == "N" and x[1] == "t") or
                   (x[0] in ("G", "Tu", "Ca") and x[1][0] == "t") for x in g.subterms(p[3])):
              return True
    return any(walk(x) for x in c[5])
  return any(walk(c) for c in u[3])


# ---------------------------------------------------------------------------------------------------
# the leg

def check_imports(res, model, impl, ids, r, gen, tvars, n_cases, hist, report, unknown_violation, disagree, fixed,
                  loader_check=None):
  ig = ImpGen(r, ids, gen, tvars, res.known, fixed)
  cases = []
  for _ in range(n_cases):
    imps, u = ig.iunit()
    try:
      a = iunit_to_pytd(ids, imps, u)
      text = impl.print(a)
    except AssertionError:
      hist["imp:not-constructible"] += 1
      continue
    except Exception as e:  # pylint: disable=broad-except
      disagree("imports-print-exception", repr(e)[:200])
      continue
    cases.append((imps, u, a, text))
  # the table is serialised after every id of every case (and of the real texts) exists
  real = [parse_import_block(ids, text) for (_, _, _, text) in cases]
  lines = []
  for imps, u, _, _ in cases:
    extra = {x for i in imps for x in i[1:]}
    lines.append(" ".join(["I", str(int(fixed))] + ntab_words(ids, extra) + imps_words(imps) + d.ser_unit(u, [])))
  outs = model.run(lines)
  n = n_exact = 0
  for (imps, u, a, text), rl, mo in zip(cases, real, outs):
    n += 1
    if mo.startswith("ERROR"):
      disagree("imports-model-error", mo[:200])
      continue
    m0, m1, wfi, ptext = [p.strip() for p in mo.split("|")]
    ml = read_lines(m0.split())
    res.count(("imports", tuple(show_lines(ids, rl))))
    hist["imp:lines=%d" % min(len(rl), 6)] += 1
    for l in rl:
      hist["imp:kind:" + ("typing" if l[0] == "F" and ids.s(l[1]) == "typing" else "from" if l[0] == "F" else
                          "import-as" if l[1] != l[2] else "import")] += 1
    body = d.strip_imports(text)
    canon_r = [(l[0], l[1], l[2] if l[0] == "L" else tuple(l[2])) for l in rl]
    canon_m = [(l[0], l[1], l[2] if l[0] == "L" else tuple(l[2])) for l in ml]
    # ---- direct oracles on the real text ----
    missing = d.typing_names_not_imported(ids, text)
    mmods = module_names_not_imported(ids, text, local_names(ids, u))
    unused = unused_typing_imports(ids, text)
    has_mut_union = any(p[4] is not None for c in all_sigs(u) for p in c[0][0])
    if missing:
      where = "typevar-bound-or-constraint" if any(
          re.search(r"\b%s\b" % x, l) for x in missing for l in body.split("\n") if "= TypeVar(" in l) else \
          "mutated-line" if any(re.search(r"^\s+\w+ = .*\b%s\b" % x, l) for x in missing for l in body.split("\n")) else "declaration"
      if where == "mutated-line":
        report(FP_MUT, "typing names used only in a mutated-parameter line are not imported: %s" % missing, {"kind": "stub", "text": text})
      else:
        unknown_violation("typing-name-not-imported:" + where,
                          "typing names used in the printed unit are missing from its import line: %s" % missing,
                          {"kind": "stub", "text": text})
    if mmods:
      unknown_violation("module-not-imported", "module-qualified names without an import of a prefix: %s" % mmods,
                        {"kind": "stub", "text": text})
    if unused:
      if elided_repeats(ids, u):
        report(FP_UNUSED, "unused typing import(s) %s after an elided self/cls annotation" % unused, {"kind": "stub", "text": text})
      else:
        unknown_violation("unused-typing-import", "typing names imported but not used: %s" % unused, {"kind": "stub", "text": text})
    if not block_sorted_unique(text):
      unknown_violation("import-block-not-sorted-unique", "the import lines are not sorted / not unique", {"kind": "stub", "text": text})
    # ---- correspondence ----
    if canon_r != canon_m:
      disagree("import-block", "real=%r model=%r text=%s term=%r" % (show_lines(ids, rl), show_lines(ids, ml), text[:700], (imps, u) if len(text) < 400 else None))
      if not (missing or mmods or unused):
        hist["imp:disagree-without-oracle-failure"] += 1
    else:
      n_exact += 1
    if wfi == "1":
      hist["imp:wf_imports"] += 1
    if ptext == "1":
      hist["imp:parse_text=norm"] += 1
    elif ptext == "NONE":
      hist["imp:parse_text-none"] += 1
    # the model's own completeness, evaluated (monitor of imports_complete on generated terms)
    if len(res.samples) < 9 and len(rl) >= 3 and len(text) < 700:
      res.sample({"unit_with_imports": text})
    if loader_check is not None and n % 8 == 0 and not (missing or mmods):
      err = loader_check(text)
      if err:
        unknown_violation("stub-not-loadable:" + err[0], "pytype cannot load the printed unit as a dependency: " + err[1],
                          {"kind": "stub", "text": text})
  return n, n_exact


def all_sigs(u):
  out = []
  def funcs(fs):
    for f in fs:
      out.extend(f[6])
  def klass(c):
    funcs(c[7])
    for x in c[5]:
      klass(x)
  funcs(u[4])
  for c in u[3]:
    klass(c)
  return out


# ---------------------------------------------------------------------------------------------------
# the reader's side: parse_text on real texts, with and without one of the typing imports

def real_imps(ids, ast):
  from pytype.pytd import pytd
  out = []
  for a in ast.aliases:
    if isinstance(a.type, pytd.Module):
      out.append(("M", ids.id(a.type.module_name), ids.id(a.name)))
    elif isinstance(a.type, (pytd.NamedType, pytd.ClassType, pytd.LateType)) and "." in a.type.name \
        and not a.type.name.startswith(("typing.", "builtins.")):
      mod, _, last = a.type.name.rpartition(".")
      out.append(("F", ids.id(mod), ids.id(last), ids.id(a.name)))
  return out


def ast_without_import_aliases(ast):
  from pytype.pytd import pytd
  keep = tuple(a for a in ast.aliases if not (isinstance(a.type, pytd.Module) or (
      isinstance(a.type, (pytd.NamedType, pytd.ClassType, pytd.LateType)) and "." in a.type.name
      and not a.type.name.startswith(("typing.", "builtins.")))))
  return ast.Replace(aliases=keep)


def check_reader_guard(res, model, impl, ids, r, gen, tvars, n_cases, hist, disagree, fixed):
  ig = ImpGen(r, ids, gen, tvars, res.known, fixed)
  ig.raw = False
  cases = []
  for _ in range(n_cases):
    imps, u = ig.iunit()
    try:
      text = impl.print(iunit_to_pytd(ids, imps, u))
    except Exception:  # pylint: disable=broad-except
      continue
    block = parse_import_block(ids, text)
    body = d.strip_imports(text)
    try:
      stmts = d.text_to_stmts(ids, body)
    except Exception:  # pylint: disable=broad-except
      continue
    ty = [l for l in block if l[0] == "F" and ids.s(l[1]) == "typing"]
    dropped = None
    if ty and ty[0][2]:
      used = [na for na in ty[0][2]]
      x = r.choice(used)
      dropped = (x[0], [l if l is not ty[0] else ("F", l[1], [na for na in l[2] if na != x]) for l in block])
    cases.append((text, block, stmts, dropped))
  lines = []
  for text, block, stmts, dropped in cases:
    lines.append(" ".join(["R"] + lines_words(block) + d.ser_stmts(stmts, [])))
    if dropped:
      lines.append(" ".join(["R"] + lines_words(dropped[1]) + d.ser_stmts(stmts, [])))
  outs = iter(model.run(lines))
  n = 0
  for text, block, stmts, dropped in cases:
    n += 1
    full = next(outs).strip()
    part = next(outs).strip() if dropped else None
    try:
      ast = impl.parse(text)
    except Exception:  # pylint: disable=broad-except
      ast = None
    if full.startswith("ERROR") or (part or "").startswith("ERROR"):
      disagree("reader-guard-model-error", (full + " " + (part or ""))[:200])
      continue
    if full != "NONE" and ast is not None:
      hist["imp:reader:accepted"] += 1
      mi, mu = full.split("|")
      rd = d.DReader(mi.split())
      mimps = []
      for _ in range(rd.int()):
        k = rd.next()
        mimps.append((k, rd.int(), rd.int()) if k == "M" else (k, rd.int(), rd.int(), rd.int()))
      if sorted(mimps) != sorted(real_imps(ids, ast)):
        disagree("reader-import-aliases", "model=%r real=%r text=%s" % (sorted(mimps), sorted(real_imps(ids, ast)), text[:300]))
      try:
        tb = d.canon(d.unit_from_pytd(ids, ast_without_import_aliases(ast)))
        if tb != d.canon(d.parse_unit_words(mu)):
          disagree("reader-unit-with-imports", "text=%s diff=%r" % (text[:400], d.first_diff(tb, d.canon(d.parse_unit_words(mu)))))
      except g.Unsupported:
        pass
    if dropped:
      # the guard: a typing member that is used but not imported is outside the reader model, and the real reader
      # indeed does NOT build the typing member (another AST, or an error)
      if part != "NONE":
        disagree("reader-guard-accepts-missing-import", "dropped %s: %s" % (ids.s(dropped[0]), text[:300]))
      name = ids.s(dropped[0])
      t2 = re.sub(r"^(from typing import .*?)\b%s\b,? ?" % name, r"\1", text, count=1, flags=re.M)
      t2 = re.sub(r"^from typing import\s*$\n", "", re.sub(r", $", "", t2, flags=re.M), flags=re.M)
      try:
        ast2 = impl.parse(t2)
        same = ast is not None and impl.print(ast2) == impl.print(ast) and ast2 == ast
      except Exception:  # pylint: disable=broad-except
        same = False
      hist["imp:reader:dropped-import-%s" % ("same-ast" if same else "different")] += 1
      if same:
        disagree("reader-guard-too-strict", "dropping %s from the import line does not change what the real reader builds: %s"
                 % (name, text[:300]))
  return n
