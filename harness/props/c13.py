"""C13 — calls bind arguments exactly as CPython does.

Proof: coq/Props/C13.v over coq/Bind/Model.v + PytdModel.v: three executable models of pytype's binders --
bind_py (SignedFunction._map_args; variant bind_py_fixed = with the positional-only/**kwargs repair),
bind_pytd (stub functions: PyTDSignature._map_args + _fill_in_missing_parameters) -- and bind_c (CPython's
initialize_locals).  bind_agree_fixed, bind_pytd_err_agree, bind_pytd_agree_except_kwargs for all well-formed
signatures and call shapes; the _refuted / _partial / exact-boundary families where a mapper deviates.
Tie, on every run: (a) bind_c vs a real call under CPython and vs inspect.Signature.bind; (b) the real
pytype vs bind_py AND bind_py_fixed (it must coincide with one of the two on ALL cases) and, for callees
declared in a generated .pyi, vs bind_pytd; (c) the property oracle straight on the implementations:
CPython TypeError iff pytype error at that line, and equal bindings on success (for stubs: what a stub lets
one observe).  Listed findings: `posonly-name-as-keyword-with-kwargs` (source functions, repaired in /repo),
`stub-posonly-name-keyword-dropped-from-kwargs`, `stub-keyword-named-like-argname-placeholder`.
Extension (coq/Bind/SplatModel.v, harness/props/c13_splat.py): call sites with * / ** splats (bind_px = Args.simplify /
_unpack_and_match_args + the starargs / starstarargs branches of _map_args), calls reached through helper frames up to the
depth limit (call_at_depth), forwarding / partial-application lambdas, unbound method access.  Findings of that part:
`dict-splat-repeats-keyword-not-reported`, `splat-with-keyword-naming-posonly-parameter-reported-missing`,
`arguments-after-indefinite-splat-counted-as-too-many`.
"""
import collections
import json
import multiprocessing
import os
import subprocess
import time

import common
import c13_gen as g
import c13_splat as sx
import c13_forms as fx

KNOWN_FP = "posonly-name-as-keyword-with-kwargs"


# ------------------------------------------------------------------------------------------------
# cases

def sig_to_json(sig):
  return {"P": list(sig.P), "Q": list(sig.Q), "K": list(sig.K), "D": list(sig.D), "va": sig.va, "kw": sig.kw}


def sig_from_json(d):
  return g.Sig(tuple(d["P"]), tuple(d["Q"]), tuple(d["K"]), tuple(d["D"]), bool(d["va"]), bool(d["kw"]))


def corpus_items():
  items = []
  cdir = os.path.join(common.CORPUS, "C13")
  for f in sorted(os.listdir(cdir)) if os.path.isdir(cdir) else []:
    if f.endswith(".json"):
      d = json.load(open(os.path.join(cdir, f)))
      items.append((sig_from_json(d["sig"]), d["variant"], [(int(n), tuple(ks)) for n, ks in d["shapes"]]))
  return items


def pick_shapes(r, sig, variant, maxpos, maxkw, n_multi):
  """All shapes with <= 1 keyword; of those with more keywords a random sample of n_multi (None = all)."""
  shapes = g.enum_shapes(sig, variant, maxpos, maxkw)
  if n_multi is None:
    return shapes
  small = [s for s in shapes if len(s[1]) <= 1]
  big = [s for s in shapes if len(s[1]) > 1]
  # keywords naming positional-only parameters are the delicate corner: always keep some
  pos_only = g.posonly_names(sig, variant)
  hot = [s for s in big if any(k in pos_only for k in s[1])]
  keep = r.sample(big, min(n_multi, len(big))) + r.sample(hot, min(max(2, n_multi // 4), len(hot)))
  seen = set()
  out = []
  for s in small + keep:
    if s not in seen:
      seen.add(s); out.append(s)
  return out


# def __new__/__init__(first, d, e=.., *, g=..): always part of the constructor cases
CTOR_SIG = g.Sig((), ("d", "e"), ("g",), ("e", "g"), False, False)


def build_items(r, thorough):
  """Returns (required, optional): the optional items are analysed as far as the time budget allows."""
  req, opt = [], []
  small = g.enum_sigs(2)
  r.shuffle(small)
  if thorough:
    for sig in small:                                # exhaustive: <=2 of each kind x <=3 positional x <=2 keywords
      req.append((sig, "func", pick_shapes(r, sig, "func", 3, 2, None)))
    for v in g.VARIANTS[1:]:
      for sig in r.sample(small, 60):
        req.append((sig, v, pick_shapes(r, sig, v, 3, 2, None)))
    for v in g.CTOR_VARIANTS:                        # constructors: inherited / __new__ / both
      for sig in [CTOR_SIG] + r.sample(small, 24):
        req.append((sig, v, pick_shapes(r, sig, v, 3, 2, None)))
    starred = [s for s in small if s.va or s.kw]     # stub functions
    for v, sigs in [("pyi:func", small), ("pyi:typed", r.sample(starred, 200))] + \
                   [(v, r.sample(small, 40)) for v in g.PYI_VARIANTS[1:5]]:
      for sig in sigs:
        req.append((sig, v, pick_shapes(r, sig, v, 3, 2, None)))
    big = g.enum_sigs(3)
    allv = g.VARIANTS + g.CTOR_VARIANTS + g.PYI_VARIANTS
    for n in range(7000):                            # <=3 of each kind x <=5 positional x <=3 keywords, sampled
      sig = r.choice(big)
      v = allv[n % len(allv)] if n % 2 else "func"
      (req if n < 300 else opt).append((sig, v, pick_shapes(r, sig, v, 5, 3, 50)))
  else:
    hot = [s for s in small if s.P and s.kw]
    for sig in r.sample(hot, 25) + r.sample(small, 70):
      req.append((sig, "func", pick_shapes(r, sig, "func", 3, 2, 6)))
    for v in g.VARIANTS[1:]:
      for sig in r.sample(small, 12):
        req.append((sig, v, pick_shapes(r, sig, v, 3, 2, 6)))
    for v in g.CTOR_VARIANTS:                        # constructors: inherited / __new__ / both
      for sig in [CTOR_SIG] + r.sample(small, 2):
        req.append((sig, v, pick_shapes(r, sig, v, 3, 2, 4)))
    for sig in r.sample(g.enum_sigs(3), 6):          # a few larger ones
      req.append((sig, "func", pick_shapes(r, sig, "func", 5, 3, 16)))
    starred = [s for s in small if s.va or s.kw]     # stub functions
    for v, sigs in [("pyi:func", r.sample(hot, 6) + r.sample(small, 18)),
                    ("pyi:typed", r.sample(hot, 10) + r.sample(starred, 10))] + \
                   [(v, r.sample(small, 5)) for v in g.PYI_VARIANTS[1:5]]:
      for sig in sigs:
        req.append((sig, v, pick_shapes(r, sig, v, 3, 2, 6)))
    allv = g.VARIANTS + g.CTOR_VARIANTS + g.PYI_VARIANTS
    for n in range(400):
      sig = r.choice(small)
      v = allv[n % len(allv)]
      opt.append((sig, v, pick_shapes(r, sig, v, 3, 2, 6)))
  return req, opt


def chunk(items, max_lines=330):
  groups, cur, n = [], [], 0
  for it in items:
    shapes = it[2]
    # a callee with very many shapes is split over several modules; a class is instantiated at most 32 times
    # (beyond ~40 constructor calls of one class in a module pytype widens the attribute read back to Any)
    per = 32 if it[1].startswith("ctor:") else max_lines
    for i in range(0, max(1, len(shapes)), per):
      part = (it[0], it[1], shapes[i:i + per])
      if cur and n + len(part[2]) > max_lines:
        groups.append(cur); cur, n = [], 0
      cur.append(part); n += len(part[2])
  if cur:
    groups.append(cur)
  return groups


def model_exe():
  return common.build_extracted("bind", "Extract/ExtractBind.v",
                                os.path.join(common.VERIF, "harness", "ocaml", "bind_driver.ml"), ["bind_model"])


def run_model(exe, groups):
  """Per case (wf, bind_py, bind_py_fixed, bind_c, bind_pytd); a constructor call binds up to two signatures in turn."""
  cases = [(v, g.model_lines(s, v, sh)) for grp in groups for (s, v, shs) in grp for sh in shs]
  lines = [l for _, ls in cases for l in ls]
  pr = subprocess.run([exe], input="\n".join(lines) + "\n", capture_output=True, text=True)
  if pr.returncode != 0:
    raise common.BuildError("extracted model failed: " + pr.stderr[-1500:])
  out = [tuple(o.split("\t")) for o in pr.stdout.split("\n")[:len(lines)]]
  res, i = [], 0
  for v, ls in cases:
    rows = out[i:i + len(ls)]; i += len(ls)
    res.append(("1" if all(r[0] == "1" for r in rows) else "0",) +
               tuple(g.combine([r[c] for r in rows], v) for c in (1, 2, 3, 4)))
  return res


# ------------------------------------------------------------------------------------------------
# oracle helpers

def in_known_class(sig, variant, shape):
  return any(e.kw and any(k in e.P for k in shape[1]) for e, _ in g.parts(sig, variant))


def shows_known_defect(sig, variant, shape, py):
  """The listed finding, recognised on pytype's own output: the call is accepted and a positional-only
  parameter holds the keyword argument of the same name (which CPython would put into **kwargs)."""
  if not in_known_class(sig, variant, shape):
    return False
  if py == "O:!self-rebound":
    return "self" in g.posonly_names(sig, variant) and "self" in shape[1]
  if not py.startswith("O:"):
    return False
  vals = py[2:].split(",")
  names = [(n, e) for e, _ in g.parts(sig, variant) for n in g.all_names(e)]
  return len(vals) == len(names) and any(
      e.kw and n in e.P and n in shape[1] and v == "K%d" % g.ID[n] for (n, e), v in zip(names, vals))


STUB_FP_KWARGS = "stub-posonly-name-keyword-dropped-from-kwargs"
STUB_FP_ARGNAME = "stub-keyword-named-like-argname-placeholder"


def stub_known_defect(sig, variant, shape, real, py):
  """The two listed stub-mapper findings, recognised on the implementations' outputs only (real = the full
  CPython binding, py = what pytype reported).  Returns the fingerprint or None."""
  if variant != "pyi:typed":
    return None
  e = g.effective(sig, variant)
  # (1) a keyword spelled like the placeholder of an overflowing positional argument (_<i>) of an annotated
  #     *args is reported as duplicate although CPython accepts the call
  if py.startswith("E:dup:") and real.startswith("O:"):
    name = g.NAME.get(int(py[6:])) if py[6:].isdigit() else None
    if name in g.PLACEHOLDERS and name in shape[1] and e.va and shape[0] > int(name[1:]) >= len(e.P) + len(e.Q):
      return STUB_FP_ARGNAME
  # (2) a keyword naming a positional-only parameter is not checked against the **kwargs annotation: pytype
  #     reports what CPython's binding would give if those keywords were not in **kwargs
  if e.kw and real.startswith("O:") and any(k in e.P for k in shape[1]):
    vals = real[2:].split(",")
    kept = []
    for v in vals:
      if v.startswith("W"):
        ks = [x for x in v[1:].split(".") if x and g.NAME[int(x)] not in e.P]
        v = "W" + ".".join(ks)
      kept.append(v)
    if g.stub_view("O:" + ",".join(kept), sig, variant) == py:
      return STUB_FP_KWARGS
  return None


def kind(s):
  if s.startswith("T:"):
    return "argtype"
  if s.startswith("E:"):
    return s.split(":")[1]
  if s.startswith("O:"):
    return "ok"
  return "unobservable"


def describe(sig, variant, shape):
  tag = " [%s]" % variant if variant.startswith(("ctor:", "pyi:")) else ""
  return "def(%s)%s call %s" % (g.params_text(sig, variant), tag, g.call_text(sig, variant, 0, shape))


def observe_one(sig, variant, shape):
  cres, pres, _ = g.run_group([(sig, variant, [shape])])
  real = cres[0][0][0]
  return (g.stub_view(real, sig, variant) if variant.startswith("pyi:") else real), pres[0][0]


def oracle_bad(sig, variant, shape):
  real, py = observe_one(sig, variant, shape)
  return not py.startswith("X:") and g.outcome_only(real) != g.outcome_only(py)


def shrink(sig, variant, shape, keep_class, budget_s=20.0):
  """Greedy: drop parameters, defaults, *args/**kwargs, arguments while the oracle still fails (and the
  case stays inside/outside the known class as it started)."""
  deadline = time.time() + budget_s
  def ok(c):
    try:
      real, py = observe_one(*c)
      return (not py.startswith("X:") and g.outcome_only(real) != g.outcome_only(py)
              and shows_known_defect(c[0], c[1], c[2], py) == keep_class)
    except Exception:   # pylint: disable=broad-except
      return False
  cur = (sig, variant, shape)
  changed = True
  while changed and time.time() < deadline:
    changed = False
    s, v, (n, ks) = cur
    cands = []
    if v != "func" and not v.startswith("ctor:"):
      cands.append((s, "func", (n, tuple(k for k in ks if k not in ("self", "cls")))))
    for fld in ("P", "Q", "K"):
      names = getattr(s, fld)
      for x in names:
        s2 = s._replace(**{fld: tuple(y for y in names if y != x), "D": tuple(y for y in s.D if y != x)})
        pos2 = list(s2.P) + list(s2.Q)
        # keep the def legal: defaults must stay a suffix of the positional parameters
        dflags = [y in s2.D for y in pos2]
        if dflags != sorted(dflags):
          continue
        cands.append((s2, v, (n, tuple(k for k in ks if k != x))))
    if s.va:
      cands.append((s._replace(va=False), v, (n, tuple(k for k in ks if k != g.VA))))
    if s.kw:
      cands.append((s._replace(kw=False), v, (n, tuple(k for k in ks if k != g.KW))))
    for x in s.D:
      s2 = s._replace(D=tuple(y for y in s.D if y != x))
      pos2 = list(s2.P) + list(s2.Q)
      dflags = [y in s2.D for y in pos2]
      if dflags == sorted(dflags):
        cands.append((s2, v, (n, ks)))
    if n > 0:
      cands.append((s, v, (n - 1, ks)))
    for x in ks:
      cands.append((s, v, (n, tuple(k for k in ks if k != x))))
    for c in cands:
      if time.time() > deadline:
        break
      if ok(c):
        cur = c; changed = True
        break
  return cur


def replay_obj(sig, variant, shape, real, py):
  _, src, _, stub = g.module_text([(sig, variant, [shape])])
  return {"sig": sig_to_json(sig), "variant": variant, "shape": [shape[0], list(shape[1])],
          "def": g.params_text(sig, variant), "call": g.call_text(sig, variant, 0, shape),
          "cpython": real, "pytype": py, "module": src[len(g.HEADER):], "stub": list(stub) if stub else None,
          "note": "module is preceded by c13_gen.HEADER (marker classes P<i>, K_<name>, D_<name>)"}


# ------------------------------------------------------------------------------------------------

def run(res):
  thorough = res.tier == "thorough"
  res.rule = ("defs: every legal def with <=2 (larger sample: <=3) parameters of each kind (positional-only, "
              "positional-or-keyword, keyword-only), every legal placement of defaults, with/without *args and **kwargs; "
              "calls: <=3 (larger: <=5) positional arguments and <=2 (larger: <=3) keywords drawn from the parameter names "
              "(incl. self/cls and the *args/**kwargs names) and one foreign name.  quick: a seeded stratified sample "
              "(95 function defs, 25 of them with positional-only parameters and **kwargs; 12 defs for each of lambda / "
              "method / classmethod / staticmethod / __init__; 6 larger defs; every shape with <=1 keyword plus a sample "
              "of the others), more as long as the time budget lasts.  thorough: all 756 small defs x all shapes for plain "
              "functions, 60 defs x all shapes for each other variant, 300 larger defs x ~110 shapes, more as time allows.  "
              "Constructors C(...): 18 class layouts over a three-level user hierarchy (__init__ inherited from 1 or 2 "
              "levels up; __new__ on the class or inherited from 1 or 2 levels up; both, with the same signature, with one "
              "of them generic (*va, **kw), or with different signatures; no constructor at all), 3 defs each in quick and 25 "
              "in thorough; the signatures bound are the user-defined __new__ then __init__ found on the MRO (CPython "
              "passes the same arguments to both; object's tolerate excess arguments iff the other is overridden), with "
              "the real CPython call as ground truth.  "
              "Every argument and default is an instance of its own marker class, so the parameter->argument mapping is "
              "observable as the revealed type of the returned parameter tuple, one call per line.  A case is non-trivial if "
              "the def has a parameter and the call an argument; distinct by (variant, def, call).  "
              "Splat legs (c13_splat.py): random defs from the same 756 small defs x call sites built from plain arguments, "
              "splats of tuple / list literals with 0-3 elements, indefinite splats (lists of unknown length, mostly in last "
              "position), plain keywords, ** dict literals (also empty, also repeating a keyword), a non-concrete ** dict; "
              "callees: functions, lambdas, bound and unbound methods, class / static methods, constructors; reached "
              "directly, through 1-4 helper frames (4 = the depth limit of module-level code), through a forwarding lambda "
              "(lambda *a, **k: f(*a, **k)) or a partial-application lambda (lambda *a, **k: f(p0, *a, **k)).  quick: "
              "110 concrete-splat + 160 indefinite + 110 helper-depth + 60 access-form cases + corpus/C13/splat; thorough: "
              "900 + 1200 + 700 + 500.")
  res.assumptions = [
      "every argument visible at the call (has_visible_namedarg = True)",
      "unannotated parameters (match_args is skipped; annotated functions re-derive callargs from annotations)",
      "call sites with * / ** splats (interpreter functions only; stub callees keep the no-splat restriction): the 3.12 "
      "compiler's CALL_FUNCTION_EX sequence and the VM's list building (LIST_EXTEND keeps concrete tuples / lists element by "
      "element and indefinite iterables as Splat entries, LIST_APPEND after a splat collapses everything into one indefinite "
      "splat) are modelled by site_items and validated by the correspondence only; element TYPES of splats are not compared, "
      "only which argument / splat a parameter is fed from",
      "indefinite splats and non-concrete ** dicts: the CPython side tries every length 0..#positional parameters+1 for one "
      "splat (a sample of the products for several) and the key sets {}, {one parameter or foreign name}, {all still "
      "required names}; 'no false positive' is judged on those instantiations",
      "call depth: module-level calls under analyze.INIT_MAXIMUM_DEPTH = 4 (the model's limit is that constant; a changed "
      "constant shows up as a correspondence failure); per-function re-analysis with unknown arguments reports nothing at "
      "the generated call lines",
      "functions defined in the analysed source (SignedFunction._map_args -> bind_py / bind_py_fixed) and single-signature "
      "stub functions (PyTDSignature._map_args + _fill_in_missing_parameters -> bind_pytd); overloaded stubs are not modelled",
      "a stub has no body: for stub callees the outcome, the error class and the parameter it names are compared, and "
      "with *va / **kw annotated by an uninhabited class also whether and which argument landed there (wrong-arg-types)",
      "CPython side = the interpreter running the check (3.12): a real call is authoritative; inspect.Signature.bind is "
      "compared too, minus its own stdlib defect on positional-only names passed as keywords to a **kwargs function",
      "generator, observers and differ in harness/props/c13.py + c13_gen.py; reveal_type printing of tuple/dict/Union",
  ]
  common.coq_obligations(res, "C13")
  common.bootstrap_pytype()
  exe = model_exe()
  res.trusted_base += ["Coq extraction (ExtrOcamlBasic only) + OCaml ocamlopt + harness/ocaml/bind_driver.ml",
                       "out-of-tree g++ build of /repo/pytype/typegraph/*.cc (harness/common.py build_cfg)"]
  r = common.rng(res.seed, "c13")
  req, opt = build_items(r, thorough)
  groups = chunk(corpus_items() + req)
  n_required = len(groups)
  groups += chunk(opt)
  model = run_model(exe, groups)
  n_total = len(model)

  nw = min(8, max(2, common.NCPU // 2)) if thorough else 4
  soft, hard = (640.0, 2400.0) if thorough else (28.0, 600.0)   # optional modules stop at soft; required ones must finish
  t0 = time.time()
  ctx = multiprocessing.get_context("fork")
  done = []
  with ctx.Pool(nw) as pool:
    it = pool.imap(g.run_group, groups)
    for gi in range(len(groups)):
      limit = hard if gi < n_required else soft
      left = t0 + limit - time.time()
      if left <= 0 and gi >= n_required:
        break
      try:
        done.append(it.next(timeout=max(left, 0.5)))
      except multiprocessing.TimeoutError:
        break
    pool.terminate()
  res.extra["impl_wall_s"] = round(time.time() - t0, 1)
  res.extra["workers"] = nw
  complete = len(done) >= n_required
  res.extra["groups_done"] = "%d done, %d required, %d generated" % (len(done), n_required, len(groups))

  hist = collections.Counter()
  n_c = n_bind = n_un = n_fx = n_wf = n_unexpl = n_bind_div = n_sep = n_stray = n_stub = n_pytd = 0
  stub_known = collections.OrderedDict()
  oracle_known = []
  oracle_other = collections.OrderedDict()
  first_bad = {}
  sampled = set()
  i = 0
  n_seen = 0
  for gi, grp in enumerate(groups):
    if gi >= len(done):
      break
    cres, pres, stray = done[gi]
    if stray:
      n_stray += len(stray)
      first_bad.setdefault("stray", stray[0])
    for j, (sig, variant, shapes) in enumerate(grp):
      for k, sh in enumerate(shapes):
        wf, mpy, mpyf, mc, mpytd = model[i]; i += 1
        is_stub = variant.startswith("pyi:")
        n_seen += 1
        real, bound = cres[j][k]
        py = pres[j][k]
        nparams = len(g.names_v(sig, variant))
        nontrivial = nparams > 0 and (sh[0] + len(sh[1])) > 0
        res.count((variant, sig, sh) if nontrivial else None)
        hist["variant:" + variant] += 1
        hist["cpython:" + kind(mc)] += 1
        hist["pytype-model:" + kind(mpy)] += 1
        hist["params:%d" % nparams] += 1
        hist["npos:%d" % sh[0]] += 1
        hist["nkw:%d" % len(sh[1])] += 1
        known_cls = in_known_class(sig, variant, sh)
        if known_cls:
          hist["kw-names-posonly-with-kwargs"] += 1
        if wf != "1":
          n_wf += 1
          first_bad.setdefault("wf", describe(sig, variant, sh))
        # (a) bind_c vs CPython
        if g.canon(mc) != g.canon(real):
          n_c += 1
          first_bad.setdefault("bind_c-vs-call", "%s: model %s, CPython %s" % (describe(sig, variant, sh), mc, real))
        if g.outcome_only(mc) != g.outcome_only(bound):
          if known_cls and bound.startswith("E:bind:") and "positional only" in bound:
            n_bind_div += 1      # inspect's own defect: it rejects what the interpreter accepts
          else:
            n_bind += 1
            first_bad.setdefault("bind_c-vs-Signature.bind",
                                 "%s: model %s, Signature.bind %s" % (describe(sig, variant, sh), mc, bound))
        if g.canon(mpy) != g.canon(mpyf) and not is_stub:
          n_sep += 1
        # (b) bind_py / bind_py_fixed vs pytype
        if py.startswith("X:"):
          n_unexpl += 1
          first_bad.setdefault("unexplorable", py)
          continue
        if is_stub:
          # (b') the callee's signature comes from a stub: bind_pytd vs pytype, on what a stub lets one observe
          n_stub += 1
          hist["stub-model:" + kind(mpytd)] += 1
          mview, rview = g.stub_view(mpytd, sig, variant), g.stub_view(real, sig, variant)
          if g.canon(mview) != g.canon(py):
            n_pytd += 1
            first_bad.setdefault("bind_pytd-vs-pytype",
                                 "%s: model %s, pytype %s" % (describe(sig, variant, sh), mview, py))
          if g.outcome_only(rview) != g.outcome_only(py):
            fpk = stub_known_defect(sig, variant, sh, real, py)
            if fpk:
              stub_known.setdefault(fpk, []).append((sig, variant, sh, rview, py))
            else:
              fp = "stub-binding-differs:cpython-%s/pytype-%s" % (kind(rview), kind(py))
              oracle_other.setdefault(fp, []).append((sig, variant, sh, rview, py))
          elif nontrivial and "stub:" + kind(rview) not in sampled and len(sampled) < 8:
            sampled.add("stub:" + kind(rview))
            res.sample({"stub def": g.stub_def_text(sig, variant, 0).strip(), "call": g.call_text(sig, variant, 0, sh, "stub"),
                        "cpython": rview, "pytype": py, "bind_c": mc, "bind_pytd": mpytd}, cap=10)
          continue
        if not g.same_py(mpy, py):
          n_un += 1
          first_bad.setdefault("bind_py-vs-pytype",
                               "%s: model %s, pytype %s" % (describe(sig, variant, sh), mpy, py))
        if not g.same_py(mpyf, py):
          n_fx += 1
          first_bad.setdefault("bind_py_fixed-vs-pytype",
                               "%s: model %s, pytype %s" % (describe(sig, variant, sh), mpyf, py))
        # (c) the property itself, on the implementations only
        if g.outcome_only(real) != g.outcome_only(py):
          if shows_known_defect(sig, variant, sh, py):
            oracle_known.append((sig, variant, sh, real, py))
          else:
            fp = "binding-differs:cpython-%s/pytype-%s" % (kind(real), kind(py))
            oracle_other.setdefault(fp, []).append((sig, variant, sh, real, py))
        elif nontrivial and kind(real) not in sampled and len(sampled) < 5:
          sampled.add(kind(real))
          res.sample({"def": g.params_text(sig, variant), "call": g.call_text(sig, variant, 0, sh),
                      "cpython": real, "pytype": py, "bind_c": mc, "bind_py": mpy})

  res.obligation("cases-completed", complete,
                 "%d cases analysed within the time budget (modules: %s)" % (n_seen, res.extra["groups_done"]))
  res.obligation("explorable", n_unexpl == 0, "%d cases could not be analysed: %s" % (n_unexpl, first_bad.get("unexplorable", "")))
  res.obligation("no-errors-outside-the-call-lines", n_stray == 0,
                 "%d errors reported elsewhere in the generated modules; first: %s" % (n_stray, first_bad.get("stray", "")))
  res.obligation("hypotheses:wf_sig-and-wf_shape-hold", n_wf == 0,
                 "%d generated cases violate wf_sig/wf_shape: %s" % (n_wf, first_bad.get("wf", "")))
  res.obligation("correspondence:bind_c-vs-CPython-call", n_c == 0,
                 "%d of %d differ; first: %s" % (n_c, n_seen, first_bad.get("bind_c-vs-call", "")))
  res.obligation("correspondence:bind_c-vs-inspect.Signature.bind", n_bind == 0,
                 "%d of %d differ; first: %s" % (n_bind, n_seen, first_bad.get("bind_c-vs-Signature.bind", "")))
  if n_un == 0 and n_fx == 0:
    variant_impl = "indistinguishable"
  elif n_un == 0:
    variant_impl = "bind_py (code as it stands)"
  elif n_fx == 0:
    variant_impl = "bind_py_fixed (posonly names excluded from keyword distribution)"
  else:
    variant_impl = "neither"
  res.extra["implementation_corresponds_to"] = variant_impl
  res.obligation("correspondence:pytype-vs-bind_py-or-bind_py_fixed", n_un == 0 or n_fx == 0,
                 "pytype differs from bind_py on %d and from bind_py_fixed on %d of %d cases; first: %s | %s"
                 % (n_un, n_fx, n_seen, first_bad.get("bind_py-vs-pytype", ""), first_bad.get("bind_py_fixed-vs-pytype", "")))
  res.obligation("correspondence:pytype-stub-calls-vs-bind_pytd", n_pytd == 0 and n_stub > 0,
                 "pytype differs from bind_pytd on %d of %d calls of stub functions; first: %s"
                 % (n_pytd, n_stub, first_bad.get("bind_pytd-vs-pytype", "")))
  res.obligation("cases-separate-the-two-variants", n_sep > 0,
                 "%d explored cases on which bind_py and bind_py_fixed differ" % n_sep)

  # call sites with * / ** splats, calls through helper frames / forwarding lambdas / unbound access
  sx.run_legs(res, exe, common.rng(res.seed, "c13-splat"), thorough, fixed=(n_fx <= n_un))
  # call forms (receiver insertion), constructors (Class.call vs type_call), overloaded stub functions
  fx.run_legs(res, exe, common.rng(res.seed, "c13-forms"), thorough, fixed=(n_fx <= n_un))

  # the oracle's verdicts
  size = lambda c: (len(g.names_v(c[0], c[1])) + c[2][0] + len(c[2][1]), c[1] != "func")
  if oracle_known:
    sig, variant, sh, real, py = min(oracle_known, key=size)
    res.violation(KNOWN_FP,
                  "a keyword that names a positional-only parameter of a function with **kwargs binds that parameter "
                  "instead of going to **kwargs: %s -> CPython %s, pytype %s (%d such calls in this run)"
                  % (describe(sig, variant, sh), real, py, len(oracle_known)),
                  replay_obj(sig, variant, sh, real, py))
  for fpk, lst in stub_known.items():
    sig, variant, sh, rview, py = min(lst, key=size)
    what = ("a keyword naming a positional-only parameter of a stub function with **kwargs is not matched against the "
            "**kwargs annotation" if fpk == STUB_FP_KWARGS else
            "a keyword spelled like the placeholder name (_<i>) of an overflowing positional argument of a stub "
            "function with annotated *args is reported as duplicate-keyword-argument")
    res.violation(fpk, "%s: %s -> CPython %s, pytype %s (%d such calls in this run)"
                  % (what, describe(sig, variant, sh), rview, py, len(lst)), replay_obj(sig, variant, sh, rview, py))
  res.extra["oracle_disagreements_stub_known"] = {k: len(v) for k, v in stub_known.items()}
  res.extra["stub_calls"] = n_stub
  res.extra["oracle_disagreements_known_class"] = len(oracle_known)
  res.extra["oracle_disagreements_other"] = {k: len(v) for k, v in oracle_other.items()}
  for fp, lst in list(oracle_other.items())[:3]:
    sig, variant, sh, real, py = min(lst, key=size)
    try:
      sig, variant, sh = shrink(sig, variant, sh, False)
      real, py = observe_one(sig, variant, sh)
    except Exception:   # pylint: disable=broad-except
      pass
    res.violation(fp, "%s -> CPython %s, pytype %s (%d such calls)" % (describe(sig, variant, sh), real, py, len(lst)),
                  replay_obj(sig, variant, sh, real, py))

  res.extra["cases"] = n_seen
  res.extra["modules_analysed"] = len(done)
  res.extra["histogram"] = dict(sorted(hist.items()))
  res.extra["inspect_bind_own_divergences"] = n_bind_div
  res.extra["exhaustive_scope"] = ("every def with <=2 parameters of each kind x <=3 positional x <=2 keywords, plain functions"
                             if thorough and complete else False)
  if thorough:
    ok, out = common_coqchk("C13")
    res.obligation("coqchk", ok, out[-1500:])
  return "proof"


def common_coqchk(pid):
  r = subprocess.run(["timeout", "1500", "coqchk", "-silent", "-o", "-Q", common.COQ, "PV", f"PV.Props.{pid}"],
                     capture_output=True, text=True, cwd=common.COQ)
  return r.returncode == 0, r.stdout + r.stderr


def replay(res, path):
  common.bootstrap_pytype()
  d = json.load(open(path))["replay"]
  if d.get("kind") == "splat":
    return sx.replay(d, model_exe())
  if d.get("kind") in ("form", "overload"):
    return fx.replay(d)
  sig, variant, sh = sig_from_json(d["sig"]), d["variant"], (int(d["shape"][0]), tuple(d["shape"][1]))
  real, py = observe_one(sig, variant, sh)
  print("def   :", g.params_text(sig, variant), " [%s]" % variant)
  print("call  :", g.call_text(sig, variant, 0, sh))
  mt = g.module_text([(sig, variant, [sh])])
  if mt[3]:
    print("# %s.pyi\n%s# source" % mt[3])
  print(mt[1][len(g.HEADER):], end="")
  print("cpython:", real)
  print("pytype :", py)
  return 0 if g.outcome_only(real) == g.outcome_only(py) else 1
