"""C07/C08 shared generator family: CFG loops with loop-carried, MUTUALLY DEPENDENT source sets.

    pre nodes:   z_j = e_j                      (definitions before the loop, some never visible)
    loop head:   y = c   computed from x = b    <- loop head, back edge from the last body node
    loop body:   x = b   computed from y = c, or from z = e defined before the loop
    exit nodes after the head

1-3 variables are updated inside the loop from each other (the source sets reference each other around the
back edge), from themselves, and from pre-loop definitions; a loop value may also have a second origin before
the loop (a base case) and a second source set; optional node conditions (on the exit, on a loop node); the
binding ids (allocation order: the solver iterates goals and source sets in id / pointer order) are permuted;
the queries are asked in several orders inside ONE solver lifetime.

A case is (description in c07_graphs format, query list in c07 format).  `to_history` turns a case into a C08
history of API operations (both allocation orders survive: bindings are created first, in id order, without
origin, as c07_graphs.Impl does; origins are added afterwards).
"""
import itertools

import c07_graphs as G


def _cfg(n_pre, n_body, n_exit, side_exit):
  """Node ids: pre 0..n_pre-1, head, body..., exits.  Returns (nodes, head, body ids, exit ids)."""
  nodes = []
  for i in range(n_pre):
    nodes.append({"inc": [i - 1] if i else [], "cond": None})
  head = n_pre
  nodes.append({"inc": [head - 1] if n_pre else [], "cond": None})
  body = []
  prev = head
  for _ in range(n_body):
    nodes.append({"inc": [prev], "cond": None})
    prev = len(nodes) - 1
    body.append(prev)
  nodes[head]["inc"].append(prev if body else head)       # the back edge (self loop impossible: normalise drops it)
  exits = []
  prev = head
  for k in range(n_exit):
    src = prev
    if side_exit and k == 0 and body:
      src = body[-1]                                       # `break` out of the body instead of leaving at the head
    nodes.append({"inc": [src], "cond": None})
    prev = len(nodes) - 1
    exits.append(prev)
  return nodes, head, body, exits


def random_case(r, want_cond=None):
  """One random member of the family."""
  n_pre = r.choice([1, 1, 2])
  n_body = r.choice([1, 1, 2, 3])
  n_exit = r.choice([1, 1, 2])
  nodes, head, body, exits = _cfg(n_pre, n_body, n_exit, side_exit=r.random() < 0.2)
  loop_nodes = [head] + body
  if r.random() < 0.25 and len(body) >= 2:
    # an inner branch/join inside the body: head -> body[-1] as a second way round
    nodes[body[-1]]["inc"].append(head)
  k = r.choice([1, 2, 2, 2, 3])                           # loop variables
  n_z = r.choice([1, 1, 2])                               # pre-loop-only variables
  bl = []                                                 # abstract bindings: dict(var, origins)
  loopv = []
  for i in range(k):
    loopv.append(len(bl))
    bl.append({"var": i, "origins": []})
  pre = []
  for j in range(n_z):
    pre.append(len(bl))
    where = r.randrange(n_pre) if r.random() < 0.85 else None       # None: a definition that never happens
    bl.append({"var": k + j, "origins": [] if where is None else [[where, [[]]]]})
  init = []
  for i in range(k):                                      # x = a before the loop (another value of a loop variable)
    if r.random() < 0.4:
      init.append(len(bl))
      bl.append({"var": i, "origins": [[r.randrange(n_pre), [[]]]]})
  # where each loop value is (re)computed; head first so that at least one dependency crosses the back edge
  where = [loop_nodes[(i + r.randrange(2)) % len(loop_nodes)] if i else head for i in range(k)]
  if r.random() < 0.5:
    r.shuffle(where)
  for i in range(k):
    ssets = []
    n_ss = r.choice([1, 1, 2, 2, 3])
    for s in range(n_ss):
      c = r.random()
      if s == 0 and c < 0.8:
        ss = [loopv[(i + 1) % k]] if k > 1 else [loopv[i]]           # the cycle x <- y <- x
      elif c < 0.35:
        ss = [r.choice(loopv)]
      elif c < 0.75:
        ss = [r.choice(pre)]                                          # from a pre-loop definition
      elif c < 0.9:
        ss = sorted({r.choice(loopv), r.choice(pre + init) if r.random() < 0.7 else r.choice(loopv)})
      else:
        ss = []
      if ss not in ssets:
        ssets.append(ss)
    bl[loopv[i]]["origins"].append([where[i], ssets])
    if r.random() < 0.2:                                  # the loop value is also assigned before the loop
      bl[loopv[i]]["origins"].append([r.randrange(n_pre), [[] if r.random() < 0.6 else [r.choice(pre)]]])
    if r.random() < 0.15:                                 # ... or once more at another loop node
      w2 = r.choice(loop_nodes)
      if w2 != where[i]:
        bl[loopv[i]]["origins"].append([w2, [[r.choice(loopv + pre)]]])
  if want_cond is None:
    want_cond = r.random() < 0.3
  if want_cond:
    for n in r.sample(exits + loop_nodes, r.choice([1, 1, 2])):
      nodes[n]["cond"] = r.choice(loopv + pre + init)
  # allocation order
  nb = len(bl)
  order = list(range(nb))
  mode = r.random()
  if mode < 0.35:
    pass                                                  # loop values first
  elif mode < 0.7:
    order = pre + init + loopv                            # pre-loop definitions first
  else:
    r.shuffle(order)
  ren = {old: new for new, old in enumerate(order)}
  bindings = []
  for old in order:
    b = bl[old]
    bindings.append({"var": b["var"],
                     "origins": [[w, [sorted(ren[x] for x in ss) for ss in sss]] for w, sss in b["origins"]]})
  for n in nodes:
    if n["cond"] is not None:
      n["cond"] = ren[n["cond"]]
  d = G.normalise({"nodes": nodes, "bindings": bindings})
  # queries: several orders inside one lifetime, entering the use-def cycle from different sides
  qn = loop_nodes + exits
  singles = [("V" if r.random() < 0.5 else "H", n, [ren[b]]) for n in qn for b in loopv + pre[:1]]
  qs = []
  for _ in range(r.choice([1, 2, 2, 3])):
    if qs and r.random() < 0.5:
      qs.append(("R",))                                   # a new solver lifetime on the same graph
    seq = r.sample(singles, min(len(singles), r.randint(2, 5)))
    if r.random() < 0.5 and nb >= 2:
      s = sorted(r.sample(range(nb), 2))
      seq.insert(r.randrange(len(seq) + 1), ("H", r.choice(qn), s))
    if r.random() < 0.3:
      seq.append(("F", bindings[ren[loopv[0]]]["var"], r.choice(qn), True))
    qs.extend(seq)
    if r.random() < 0.6:
      qs.extend(seq[:2])                                  # the first questions again at the end of the lifetime
  return d, qs


# ------------------------------------------------------------------------------------------
# small exhaustive scope

def _ssopts(names):
  """Non-empty lists of distinct singleton/pair source sets over `names`, at most two source sets."""
  singles = [[n] for n in names]
  pair = [sorted(names)] if len(names) == 2 else []
  one = [[s] for s in singles + pair]
  two = [[a, b] for a, b in itertools.combinations(singles + pair, 2)]
  return one + two


def exhaustive_cases(shapes=("std", "deep"), lifetimes=(2, 3), perms=None):
  """Every member of the scope
       CFG:   n0 -> n1 (head) -> n2 (body) -> n1, n1 -> n3           ('std')
              or with a second body node n2 -> n3 -> n1, exit n4      ('deep')
       bindings: e (variable z) at n0;  c (variable y) at the head from {b} | {b},{e} | {b,e} | {e},{b,e} ...;
                 b (variable x) at the last body node from one or two source sets over {c, e}
       allocation order: every permutation of the three binding ids
       queries: in one fresh solver lifetime each, EVERY ordered sequence of `lifetimes` distinct single-goal
                queries over {b, c} x {head, body, exit}   (V and H alternate)
     as (name, desc, queries)."""
  out = []
  for shape in shapes:
    if shape == "std":
      nodes = [{"inc": [], "cond": None}, {"inc": [0, 2], "cond": None}, {"inc": [1], "cond": None},
               {"inc": [1], "cond": None}]
      head, last, qn = 1, 2, [1, 2, 3]
    else:
      nodes = [{"inc": [], "cond": None}, {"inc": [0, 3], "cond": None}, {"inc": [1], "cond": None},
               {"inc": [2], "cond": None}, {"inc": [1], "cond": None}]
      head, last, qn = 1, 3, [1, 3, 4]
    E, B, C = 0, 1, 2
    for c_ss in _ssopts([B, E]):
      if not any(B in s for s in c_ss):
        continue
      for b_ss in _ssopts([C, E]):
        if not any(C in s for s in b_ss):
          continue
        for pi, perm in enumerate(itertools.permutations(range(3))):
          if perms is not None and pi not in perms:
            continue
          ren = dict(zip((E, B, C), perm))
          raw = {E: {"var": 0, "origins": [[0, [[]]]]},
                 B: {"var": 1, "origins": [[last, b_ss]]},
                 C: {"var": 2, "origins": [[head, c_ss]]}}
          bindings = [None] * 3
          for old, b in raw.items():
            bindings[ren[old]] = {"var": b["var"],
                                  "origins": [[w, [sorted(ren[x] for x in s) for s in sss]] for w, sss in b["origins"]]}
          d = G.normalise({"nodes": [dict(n, inc=list(n["inc"])) for n in nodes], "bindings": bindings})
          singles = [(n, ren[b]) for n in qn for b in (B, C)]
          qs = []
          for L in lifetimes:
            for seq in itertools.permutations(singles, L):
              qs.append(("R",))
              for i, (n, b) in enumerate(seq):
                qs.append(("V" if i % 2 else "H", n, [b]))
          name = "xloop:%s:c%s:b%s:p%d" % (shape, "".join(map(str, sum(c_ss, []))), "".join(map(str, sum(b_ss, []))), pi)
          out.append((name, d, qs))
  return out


# ------------------------------------------------------------------------------------------
# C08: a case as a history of API operations

def to_history(d, queries):
  """(desc, c07 queries) -> C08 history [('op', op) | ('q', q)]: variables, then bindings in id order without
  origin (AddBinding(var, data)), nodes with their conditions, edges, origins (Binding.AddOrigin(where, ss)) -
  the construction c07_graphs.Impl performs.  An 'R' becomes a graph-preserving invalidating mutation
  (re-adding an existing source set), i.e. a new solver lifetime.  Data ids are the binding ids (distinct)."""
  h = []
  nvars = 1 + max([b["var"] for b in d["bindings"]] + [-1])
  # C08's Real needs node 0 / binding 0 to exist for its invalidation probe: nodes first
  for i, n in enumerate(d["nodes"]):
    h.append(("op", ("NewNode", None)))
  for _ in range(nvars):
    h.append(("op", ("NewVariable",)))
  per_var = {}
  for i, b in enumerate(d["bindings"]):
    k = per_var.get(b["var"], 0)
    per_var[b["var"]] = k + 1
    h.append(("op", ("AddBinding", b["var"], k)))          # data k: distinct inside the variable
  for i, n in enumerate(d["nodes"]):
    if n["cond"] is not None:
      h.append(("op", ("SetCondition", i, n["cond"])))
  for i, n in enumerate(d["nodes"]):
    for m in n["inc"]:
      h.append(("op", ("ConnectTo", m, i)))
  first = None
  for i, b in enumerate(d["bindings"]):
    for where, ssets in b["origins"]:
      for ss in ssets:
        op = ("AddOrigin", i, where, list(ss))
        first = first or op
        h.append(("op", op))
  for q in queries:
    if q[0] == "R":
      if first is not None:
        h.append(("op", first))
    elif q[0] == "H":
      h.append(("q", ("Has", q[1], list(q[2]))))
    elif q[0] == "V":
      h.append(("q", ("Vis", q[1], list(q[2]))))
    elif q[0] == "F":
      if q[3]:
        h.append(("q", ("Filter", q[2], q[1])))
  return h
