"""C18 — flow conditions and block-state merging preserve meaning (rewrite engine).

Proof: coq/Props/C18.v over the model coq/Flow/Model.v (conditions.py, variables.py, state.py).
Tie: exhaustive small-scope differential run.  The real constructors/methods and the Gallina model are run
on the same constructor calls / operation histories (cases.v, vm_compute) and the canonical renderings of
the real objects are compared with the model's.  Independently of the model, the property itself is decided
on the real objects by truth tables (all valuations of the atoms).
"""
import dataclasses
import itertools
import json
import os
import re
import shutil
import time

import common

N_ATOMS = 3
NAMES = (0, 1)          # local names "n0", "n1"
VALUES = (1, 2)
VALUATIONS = list(itertools.product((False, True), repeat=N_ATOMS))

_IMPL = None


def impl():
  """The real modules (imported from $VERIF_REPO via PYTHONPATH) + our opaque atomic condition class."""
  global _IMPL
  if _IMPL is None:
    import sys
    if common.REPO not in sys.path:
      sys.path.insert(0, common.REPO)
    from pytype.rewrite.flow import conditions, variables, state  # pylint: disable=import-outside-toplevel

    @dataclasses.dataclass(frozen=True)
    class Atom(conditions.Condition):
      i: int

      def __repr__(self):
        return "a%d" % self.i

    class NS:
      pass
    ns = NS()
    ns.C, ns.V, ns.S, ns.Atom = conditions, variables, state, Atom
    _IMPL = ns
  return _IMPL


class Untranslatable(Exception):
  """The real object is outside the model's vocabulary: fail closed."""


# ---------------------------------------------------------------------------------------------------------
# real objects -> canonical form / Coq term / truth value

def canon(c):
  """Canonical nested tuple of a real Condition (sets sorted)."""
  m = impl()
  C = m.C
  if c is C.TRUE:
    return ("T",)
  if c is C.FALSE:
    return ("F",)
  t = type(c)
  if t is m.Atom:
    return ("a", c.i)
  if t is C._Not:
    return ("n", canon(c.condition))
  if t is C._And or t is C._Or:
    if not isinstance(c.conditions, frozenset):
      raise Untranslatable("composite without frozenset: %r" % (c,))
    return ("A" if t is C._And else "O", tuple(sorted(canon(x) for x in c.conditions)))
  raise Untranslatable("unknown condition object %r of type %s" % (c, t))


def canon_to_coq(k):
  tag = k[0]
  if tag == "T":
    return "CT"
  if tag == "F":
    return "CF"
  if tag == "a":
    return "(Atom %d)" % k[1]
  if tag == "n":
    return "(CNot %s)" % canon_to_coq(k[1])
  return "(%s [%s])" % ("CAnd" if tag == "A" else "COr", "; ".join(canon_to_coq(x) for x in k[1]))


def cond_to_coq(c):
  return canon_to_coq(canon(c))


def ev(c, rho):
  """Independent evaluator of a real Condition under a valuation (tuple of bools per atom)."""
  m = impl()
  C = m.C
  if c is C.TRUE:
    return True
  if c is C.FALSE:
    return False
  t = type(c)
  if t is m.Atom:
    return rho[c.i]
  if t is C._Not:
    return not ev(c.condition, rho)
  if t is C._And:
    return all(ev(x, rho) for x in c.conditions)
  if t is C._Or:
    return any(ev(x, rho) for x in c.conditions)
  raise Untranslatable("unknown condition object %r" % (c,))


def canon_str(k):
  tag = k[0]
  if tag in "TF":
    return tag
  if tag == "a":
    return "a%d" % k[1]
  if tag == "n":
    return "!" + canon_str(k[1])
  return ("&" if tag == "A" else "|") + "(" + ",".join(canon_str(x) for x in k[1]) + ")"


def name_str(i):
  return "n%d" % i


def name_id(s):
  if s is None:
    return None
  if not re.fullmatch(r"n\d+", s):
    raise Untranslatable("unexpected name %r" % (s,))
  return int(s[1:])


def render_var(v):
  m = impl()
  if type(v) is not m.V.Variable:
    raise Untranslatable("not a Variable: %r" % (v,))
  bs = []
  for b in v.bindings:
    if type(b) is not m.V.Binding or type(b.value) is not int:
      raise Untranslatable("unexpected binding %r" % (b,))
    bs.append((b.value, canon(b.condition)))
  return (tuple(bs), name_id(v.name))


def render_state(s):
  """Canonical rendering of a real BlockState: locals in dict order, bindings in tuple order, sets sorted."""
  loc = s.get_locals()
  if list(loc.keys()) != list(s._locals.keys()):  # pylint: disable=protected-access
    raise Untranslatable("get_locals disagrees with _locals")
  return (tuple((name_id(n), render_var(v)) for n, v in loc.items()),
          canon(s._condition),  # pylint: disable=protected-access
          tuple(sorted(name_id(n) for n in s._locals_with_block_condition)))  # pylint: disable=protected-access


def state_vals(s, rho, x):
  """The values local x can have in real state s under rho (the property's notion, on the real object)."""
  loc = s.get_locals()
  n = name_str(x)
  if n not in loc:
    return frozenset()
  blk = ev(s._condition, rho) if n in s._locals_with_block_condition else True  # pylint: disable=protected-access
  return frozenset(b.value for b in loc[n].bindings if blk and ev(b.condition, rho))


# ---------------------------------------------------------------------------------------------------------
# condition constructor calls

def call_cond(kind, args):
  C = impl().C
  if kind == "not":
    return C.Not(*args)
  return (C.And if kind == "and" else C.Or)(*args)


def call_to_coq(kind, args):
  a = [cond_to_coq(x) for x in args]
  if kind == "not":
    return "NotC %s" % a[0]
  return "make %s [%s]" % ("KAnd" if kind == "and" else "KOr", "; ".join(a))


def cond_oracle(kind, args, result):
  """Truth-table oracle on the real objects: returns the first valuation where the result is wrong."""
  for rho in VALUATIONS:
    got = ev(result, rho)
    vs = [ev(a, rho) for a in args]
    want = (not vs[0]) if kind == "not" else (all(vs) if kind == "and" else any(vs))
    if got != want:
      return rho
  return None


def cond_universe(thorough):
  """Returns (depth-0 objects, depth<=1 objects, list of constructor calls (kind, args, depth))."""
  m = impl()
  C = m.C
  d0 = [C.TRUE, C.FALSE] + [m.Atom(i) for i in range(N_ATOMS)]
  calls = []

  def level(pool, depth, ternary):
    new = {}
    def do(kind, args):
      calls.append((kind, args, depth))
      r = call_cond(kind, args)
      new.setdefault(canon(r), r)
    for t in pool:
      do("not", (t,))
    for kind in ("and", "or"):
      do(kind, ())
      for t in pool:
        do(kind, (t,))
      for a in pool:
        for b in pool:
          do(kind, (a, b))
      if ternary:
        for a in pool:
          for b in pool:
            for c in pool:
              do(kind, (a, b, c))
    return new
  seen = {canon(t): t for t in d0}
  n1 = level(d0, 1, True)
  for k, v in n1.items():
    seen.setdefault(k, v)
  d1 = [seen[k] for k in sorted(seen)]
  level(d1, 2, thorough)
  return d0, d1, calls


# ---------------------------------------------------------------------------------------------------------
# operation histories on BlockState

def run_prog(p):
  """Runs history p on the real classes; returns a fresh BlockState, or None for KeyError in load_local."""
  m = impl()
  tag = p[0]
  if tag == "init":
    return m.S.BlockState({name_str(x): m.V.Variable.from_value(v) for x, v in p[1]}, p[2])
  if tag == "store":
    s = run_prog(p[1])
    if s is None:
      return None
    nm = None if p[4] is None else name_str(p[4])
    s.store_local(name_str(p[2]), m.V.Variable.from_value(p[3], name=nm))
    return s
  if tag == "storeload":
    s = run_prog(p[1])
    t = run_prog(p[3])
    if s is None or t is None:
      return None
    try:
      var = t.load_local(name_str(p[4]))
    except KeyError:
      return None
    s.store_local(name_str(p[2]), var)
    return s
  if tag == "with":
    s = run_prog(p[1])
    if s is None:
      return None
    before = render_state(s)
    r = s.with_condition(p[2])
    if render_state(s) != before:
      raise Untranslatable("with_condition mutated its receiver")
    return r
  if tag == "merge":
    s = run_prog(p[1])
    t = run_prog(p[2])
    if s is None or t is None:
      return None
    b1, b2 = render_state(s), render_state(t)
    r = s.merge_into(t)
    if render_state(s) != b1 or render_state(t) != b2:
      raise Untranslatable("merge_into mutated an operand")
    return r
  if tag == "mergenone":
    s = run_prog(p[1])
    if s is None:
      return None
    r = s.merge_into(None)
    # the copy must not alias the original's dict/set
    r.store_local("n99", impl().V.Variable.from_value(0))
    if "n99" in s.get_locals():
      raise Untranslatable("merge_into(None) aliases its receiver")
    return s.merge_into(None)
  raise ValueError(tag)


def opt_nat(x):
  return "None" if x is None else "(Some %d)" % x


def prog_to_coq(p):
  tag = p[0]
  if tag == "init":
    return "(PInit [%s] %s)" % ("; ".join("(%d, %d)" % xv for xv in p[1]), cond_to_coq(p[2]))
  if tag == "store":
    return "(PStore %s %d %d %s)" % (prog_to_coq(p[1]), p[2], p[3], opt_nat(p[4]))
  if tag == "storeload":
    return "(PStoreLoad %s %d %s %d)" % (prog_to_coq(p[1]), p[2], prog_to_coq(p[3]), p[4])
  if tag == "with":
    return "(PWith %s %s)" % (prog_to_coq(p[1]), cond_to_coq(p[2]))
  if tag == "merge":
    return "(PMerge %s %s)" % (prog_to_coq(p[1]), prog_to_coq(p[2]))
  if tag == "mergenone":
    return "(PMergeNone %s)" % prog_to_coq(p[1])
  raise ValueError(tag)


class Namer:
  """Names shared sub-histories (the representatives) so that cases files stay small:
  `Definition r17 : prog := PWith r3 (Atom 0).` and cases refer to r17."""

  def __init__(self):
    self.names = {}      # id(history tuple) -> name
    self.defs = {}       # name -> (term text, set of names it uses)
    self.keep = []       # keeps the tuples alive so that ids stay unique

  def term(self, p):
    """(Coq term, set of definition names used)."""
    if id(p) in self.names:
      n = self.names[id(p)]
      return n, {n}
    tag = p[0]
    if tag == "init":
      return prog_to_coq(p), set()
    if tag == "store":
      t, d = self.term(p[1])
      return "(PStore %s %d %d %s)" % (t, p[2], p[3], opt_nat(p[4])), d
    if tag == "storeload":
      t, d = self.term(p[1])
      u, e = self.term(p[3])
      return "(PStoreLoad %s %d %s %d)" % (t, p[2], u, p[4]), d | e
    if tag == "with":
      t, d = self.term(p[1])
      return "(PWith %s %s)" % (t, cond_to_coq(p[2])), d
    if tag == "merge":
      t, d = self.term(p[1])
      u, e = self.term(p[2])
      return "(PMerge %s %s)" % (t, u), d | e
    t, d = self.term(p[1])
    return "(PMergeNone %s)" % t, d

  def define(self, p):
    if id(p) in self.names:
      return
    t, d = self.term(p)
    n = "r%d" % len(self.defs)
    self.defs[n] = (t, d)
    self.names[id(p)] = n
    self.keep.append(p)

  def preamble(self, used):
    """Definitions (transitively) needed for the names in `used`, in definition order."""
    need = set()
    todo = list(used)
    while todo:
      n = todo.pop()
      if n in need:
        continue
      need.add(n)
      todo.extend(self.defs[n][1])
    return "".join("Definition %s : prog := %s.\n" % (n, self.defs[n][0])
                   for n in sorted(need, key=lambda x: int(x[1:])))


def prog_json(p):
  """JSON-able form of a history (conditions as canonical tuples)."""
  tag = p[0]
  if tag == "init":
    return ["init", [list(xv) for xv in p[1]], canon(p[2])]
  if tag == "store":
    return ["store", prog_json(p[1]), p[2], p[3], p[4]]
  if tag == "storeload":
    return ["storeload", prog_json(p[1]), p[2], prog_json(p[3]), p[4]]
  if tag == "with":
    return ["with", prog_json(p[1]), canon(p[2])]
  if tag == "merge":
    return ["merge", prog_json(p[1]), prog_json(p[2])]
  return ["mergenone", prog_json(p[1])]


def cond_from_canon(k):
  """Rebuilds a real condition from its canonical form through the real constructors' classes."""
  m = impl()
  C = m.C
  k = tuple(k) if isinstance(k, list) else k
  tag = k[0]
  if tag == "T":
    return C.TRUE
  if tag == "F":
    return C.FALSE
  if tag == "a":
    return m.Atom(k[1])
  if tag == "n":
    return C._Not(cond_from_canon(k[1]))
  cls = C._And if tag == "A" else C._Or
  return cls(frozenset(cond_from_canon(x) for x in k[1]))


def prog_from_json(j):
  tag = j[0]
  if tag == "init":
    return ("init", tuple(tuple(xv) for xv in j[1]), cond_from_canon(j[2]))
  if tag == "store":
    return ("store", prog_from_json(j[1]), j[2], j[3], j[4])
  if tag == "storeload":
    return ("storeload", prog_from_json(j[1]), j[2], prog_from_json(j[3]), j[4])
  if tag == "with":
    return ("with", prog_from_json(j[1]), cond_from_canon(j[2]))
  if tag == "merge":
    return ("merge", prog_from_json(j[1]), prog_from_json(j[2]))
  return ("mergenone", prog_from_json(j[1]))


def prog_ops(p):
  tag = p[0]
  if tag == "init":
    return 0
  if tag in ("storeload", "merge"):
    q = p[3] if tag == "storeload" else p[2]
    return 1 + prog_ops(p[1]) + prog_ops(q)
  return 1 + prog_ops(p[1])


def prog_str(p):
  tag = p[0]
  if tag == "init":
    c = canon_str(canon(p[2]))
    return "S({%s}%s)" % (",".join("n%d:%d" % xv for xv in p[1]), "" if c == "T" else "," + c)
  if tag == "store":
    return "%s.store(n%d,%d%s)" % (prog_str(p[1]), p[2], p[3], "" if p[4] is None else ",name=n%d" % p[4])
  if tag == "storeload":
    return "%s.store(n%d,%s.load(n%d))" % (prog_str(p[1]), p[2], prog_str(p[3]), p[4])
  if tag == "with":
    return "%s.with(%s)" % (prog_str(p[1]), canon_str(canon(p[2])))
  if tag == "merge":
    return "%s.merge_into(%s)" % (prog_str(p[1]), prog_str(p[2]))
  return "%s.merge_into(None)" % prog_str(p[1])


def unary_successors(p, s, conds):
  """All one-operation extensions of history p (whose real state is s)."""
  out = []
  for x in NAMES:
    for v in VALUES:
      out.append(("store", p, x, v, None))
  for c in conds:
    out.append(("with", p, c))
  # storing a loaded (named, possibly multi-binding, lazily conditioned) variable of the same state
  for x in NAMES:
    for y in NAMES:     # includes the KeyError case
      out.append(("storeload", p, x, p, y))
  return out


def enumerate_states(max_ops, conds):
  """levels[k] = representatives (program, real state, rendering) of the distinct states first reached with
  exactly k public operations; all_progs = every program run (one per candidate extension)."""
  init = ("init", (), impl().C.TRUE)
  s0 = run_prog(init)
  seen = {render_state(s0)}
  levels = [[(init, render_state(s0))]]
  progs = [init, ("mergenone", init)]
  for k in range(1, max_ops + 1):
    cand = []
    for p, _ in levels[k - 1]:
      s = run_prog(p)
      cand.extend(unary_successors(p, s, conds))
      if k == 1:
        cand.append(("mergenone", p))
    for i in range(k):
      j = k - 1 - i
      for p, _ in levels[i]:
        for q, rq in levels[j]:
          cand.append(("merge", p, q))
          # storing a variable loaded from another reachable state
          for x in NAMES:
            for y, _ in rq[0]:
              cand.append(("storeload", p, x, q, y))
    new = []
    for p in cand:
      progs.append(p)
      s = run_prog(p)
      if s is None:
        continue
      r = render_state(s)
      if r not in seen:
        seen.add(r)
        new.append((p, r))
    levels.append(new)
  return levels, progs


# ---------------------------------------------------------------------------------------------------------
# Coq output parser (terms built from numerals, identifiers, applications, tuples, lists)

_TOK = re.compile(r"\s*([()\[\];,]|[A-Za-z_][A-Za-z_0-9']*|\d+)")


def parse_term(txt):
  toks = _TOK.findall(txt)
  if "".join(toks) != re.sub(r"\s+", "", txt):
    raise Untranslatable("cannot tokenise Coq output: %r" % txt[:200])
  pos = 0

  def atom():
    nonlocal pos
    t = toks[pos]
    if t == "(":
      pos += 1
      items = [app()]
      while toks[pos] == ",":
        pos += 1
        items.append(app())
      assert toks[pos] == ")", toks[pos]
      pos += 1
      return items[0] if len(items) == 1 else tuple(items)
    if t == "[":
      pos += 1
      items = []
      if toks[pos] != "]":
        items.append(app())
        while toks[pos] == ";":
          pos += 1
          items.append(app())
      assert toks[pos] == "]", toks[pos]
      pos += 1
      return items
    pos += 1
    return int(t) if t.isdigit() else t

  def app():
    nonlocal pos
    head = atom()
    args = []
    while pos < len(toks) and toks[pos] not in (")", "]", ";", ","):
      args.append(atom())
    return ("@", head, args) if args else head
  r = app()
  if pos != len(toks):
    raise Untranslatable("trailing Coq output")
  return r


def model_cond(t):
  """Parsed Coq cond term -> canonical form (sets sorted; duplicates kept so they would be noticed)."""
  if t == "CT":
    return ("T",)
  if t == "CF":
    return ("F",)
  if isinstance(t, tuple) and t[0] == "@":
    h, a = t[1], t[2]
    if h == "Atom":
      return ("a", a[0])
    if h == "CNot":
      return ("n", model_cond(a[0]))
    if h in ("CAnd", "COr"):
      return ("A" if h == "CAnd" else "O", tuple(sorted(model_cond(x) for x in a[0])))
  raise Untranslatable("unexpected model term %r" % (t,))


def model_opt(t, f):
  if t == "None":
    return None
  assert isinstance(t, tuple) and t[0] == "@" and t[1] == "Some", t
  return f(t[2][0])


def model_state(t):
  locs, c, w = t
  out = []
  for n, (bs, nm) in locs:
    out.append((n, (tuple((v, model_cond(bc)) for v, bc in bs), model_opt(nm, lambda x: x))))
  return (tuple(out), model_cond(c), tuple(sorted(w)))


HEADER = ("From Coq Require Import List.\nImport ListNotations.\nFrom PV Require Import Flow.Model.\n"
          "Set Printing Depth 1000000.\nSet Printing Width 100000.\n"
          "Definition rs (p : prog) := option_map render_state (run p).\n")


def run_files_parallel(named_bodies, timeout=900, nproc=None):
  """Like common.run_cases_parallel, but coqc's output goes to a file: the answers of one file exceed the
  pipe buffer, and common's runner only reads the pipe after the process has exited."""
  import subprocess
  d = os.path.join(common.BUILD, "c18", "cases_%d" % os.getpid())   # private: concurrent runs must not collide
  shutil.rmtree(d, ignore_errors=True)
  os.makedirs(d, exist_ok=True)
  nproc = nproc or max(1, min(common.NCPU, 8))
  pending = list(named_bodies)
  running = {}
  results = {}
  while pending or running:
    while pending and len(running) < nproc:
      name, body = pending.pop(0)
      path = os.path.join(d, name + ".v")
      with open(path, "w") as f:
        f.write(body)
      outf = open(os.path.join(d, name + ".out"), "w")
      running[name] = (subprocess.Popen(["timeout", str(timeout), "coqc", "-noglob", "-Q", common.COQ, "PV", path],
                                        stdout=outf, stderr=subprocess.STDOUT, cwd=d), outf)
    done = [n for n, (p, _) in running.items() if p.poll() is not None]
    if not done:
      time.sleep(0.05)
      continue
    for n in done:
      p, outf = running.pop(n)
      outf.close()
      results[n] = (p.returncode == 0, open(os.path.join(d, n + ".out")).read())
  if all(ok for ok, _ in results.values()):
    shutil.rmtree(d, ignore_errors=True)
  return results


def run_models(jobs, namer=None, chunk=1000, batch=25):
  """jobs: list of (kind, items); items are Coq terms (cond-valued expressions for kind='cond', progs for
  kind='state').  One `Eval vm_compute` per `batch` cases (one big list literal is an order of magnitude
  slower to elaborate, one Eval per case pays the per-command overhead); all files share one process pool.
  Returns, per job, the canonicalised model answers in order (None for a KeyError history)."""
  bodies = []
  meta = []
  parsers = {}
  for jn, job in enumerate(jobs):
    kind, items = job[0], job[1]
    if len(job) > 2:
      parsers[jn] = job[2]
    jchunk = job[3] if len(job) > 3 else chunk      # small chunks = more files = more parallelism
    for i in range(0, len(items), jchunk):
      part = items[i:i + jchunk]
      lines = []
      if kind == "state":
        used = set()
        for _, d in part:
          used |= d
        lines.append(namer.preamble(used))
        part = [t for t, _ in part]
      for j in range(0, len(part), batch):
        lst = "; ".join(part[j:j + batch])
        lines.append(("Eval vm_compute in (map rs [%s]).\n" if kind == "state" else "Eval vm_compute in [%s].\n") % lst)
      name = "c18_%s_%04d" % (kind, i // jchunk)
      hdr = HEADER + {"rstate": "From PV Require Import Flow.Proofs.\n",
                      "frame": "From PV Require Import Flow.Frame.\n",
                      "gav": "From PV Require Import Flow.Api.\n",
                      "var": "From PV Require Import Flow.Api.\n",
                      "wf": "From PV Require Import Flow.Api.\n"}.get(kind, "")
      bodies.append((name, hdr + "".join(lines)))
      meta.append((jn, kind, name, len(part)))
  results = run_files_parallel(bodies, timeout=900)
  outs = [[] for _ in jobs]
  for jn, kind, name, n in meta:
    ok, txt = results[name]
    if not ok:
      raise common.BuildError("cases file %s failed:\n%s" % (name, txt[-2000:]))
    got = []
    for t in common.parse_coq_eval(txt):
      lst = parse_term(t)
      if not isinstance(lst, list):
        raise common.BuildError("cases file %s: expected a list answer" % name)
      got.extend(lst)
    if len(got) != n:
      raise common.BuildError("cases file %s: expected %d answers, got %d" % (name, n, len(got)))
    for t in got:
      if jn in parsers:
        outs[jn].append(parsers[jn](t))
      else:
        outs[jn].append(model_cond(t) if kind == "cond" else model_opt(t, model_state))

  return outs


# ---------------------------------------------------------------------------------------------------------
# property oracles on the real objects

def merge_oracle(s1, s2, merged):
  """None if under every valuation every name has exactly the union; else (rho, name, got, want)."""
  for rho in VALUATIONS:
    for x in NAMES:
      want = state_vals(s1, rho, x) | state_vals(s2, rho, x)
      got = state_vals(merged, rho, x)
      if got != want:
        return (rho, x, sorted(got), sorted(want))
    if ev(merged._condition, rho) != (ev(s1._condition, rho) or ev(s2._condition, rho)):  # pylint: disable=protected-access
      return (rho, "block-condition", ev(merged._condition, rho), None)  # pylint: disable=protected-access
  return None


def with_oracle(s, c, r):
  """with_condition restricts every binding by exactly c."""
  for rho in VALUATIONS:
    for x in NAMES:
      want = state_vals(s, rho, x) if ev(c, rho) else frozenset()
      got = state_vals(r, rho, x)
      if got != want:
        return (rho, x, sorted(got), sorted(want))
    if ev(r._condition, rho) != (ev(s._condition, rho) and ev(c, rho)):  # pylint: disable=protected-access
      return (rho, "block-condition", ev(r._condition, rho), None)  # pylint: disable=protected-access
  return None


def var_with_oracle(v, c, r):
  if [b.value for b in r.bindings] != [b.value for b in v.bindings] or r.name != v.name:
    return ("shape",)
  for rho in VALUATIONS:
    for b, b2 in zip(v.bindings, r.bindings):
      if ev(b2.condition, rho) != (ev(b.condition, rho) and ev(c, rho)):
        return (rho, b.value)
  return None


def top_oracle(p):
  """Decides the property on the last operation of history p (real objects).  Returns None or a failure."""
  tag = p[0]
  if tag == "merge":
    s, t = run_prog(p[1]), run_prog(p[2])
    if s is None or t is None:
      return None
    return merge_oracle(s, t, s.merge_into(t))
  if tag == "with":
    s = run_prog(p[1])
    if s is None:
      return None
    return with_oracle(s, p[2], s.with_condition(p[2]))
  return None


# ---------------------------------------------------------------------------------------------------------
# Reference interpreter of the PROPERTY (not of the code): for a history, the set of values every local may
# have under every valuation, and whether the block is reached.  Semantics:
#   BlockState({x: v..}, c)   reached iff c;  x has {v} where reached
#   store_local(x, var)       x has exactly var's values (those whose own condition holds) where reached
#   with_condition(c)         everything restricted to the valuations where c holds
#   merge_into(other)         pointwise union; reached iff either is
# On the unchanged code this coincides with state_vals() of the real object (Props/C18.v: Inv makes explicit
# binding conditions imply the block condition; with_condition/merge_into exactness).

def ref_eval(p, memo):
  """-> (vals: {name id: tuple over VALUATIONS of frozenset}, reach: tuple of bool) or None (KeyError)."""
  k = id(p)
  if k in memo:
    return memo[k][1]
  tag = p[0]
  nv = len(VALUATIONS)
  out = None
  if tag == "init":
    reach = tuple(ev(p[2], rho) for rho in VALUATIONS)
    vals = {}
    for x, v in p[1]:
      vals[x] = tuple(frozenset([v]) if reach[i] else frozenset() for i in range(nv))
    out = (vals, reach)
  elif tag in ("store", "storeload"):
    a = ref_eval(p[1], memo)
    if a is not None:
      if tag == "store":
        own = tuple(frozenset([p[3]]) for _ in range(nv))
      else:
        own = None
        t = run_prog(p[3])
        if t is not None:
          try:
            var = t.load_local(name_str(p[4]))
            own = tuple(frozenset(b.value for b in var.bindings if ev(b.condition, rho)) for rho in VALUATIONS)
          except KeyError:
            own = None
      if own is not None:
        vals = dict(a[0])
        vals[p[2]] = tuple(own[i] if a[1][i] else frozenset() for i in range(nv))
        out = (vals, a[1])
  elif tag == "with":
    a = ref_eval(p[1], memo)
    if a is not None:
      c = tuple(ev(p[2], rho) for rho in VALUATIONS)
      vals = {x: tuple(vs[i] if c[i] else frozenset() for i in range(nv)) for x, vs in a[0].items()}
      out = (vals, tuple(a[1][i] and c[i] for i in range(nv)))
  elif tag == "merge":
    a, b = ref_eval(p[1], memo), ref_eval(p[2], memo)
    if a is not None and b is not None:
      vals = {}
      for x in set(a[0]) | set(b[0]):
        va = a[0].get(x, (frozenset(),) * nv)
        vb = b[0].get(x, (frozenset(),) * nv)
        vals[x] = tuple(va[i] | vb[i] for i in range(nv))
      out = (vals, tuple(a[1][i] or b[1][i] for i in range(nv)))
  else:  # mergenone
    out = ref_eval(p[1], memo)
  memo[k] = (p, out)      # keeps p alive so that the id stays unique
  return out


def ref_fail(p, memo=None, real=None):
  """Compares the real state of history p with the reference semantics.  None if they agree, else
  (valuation, local or 'block-condition', got, want)."""
  memo = {} if memo is None else memo
  want = ref_eval(p, memo)
  s = run_prog(p) if real is None else real
  if want is None or s is None:
    return None if (want is None) == (s is None) else ((), "KeyError", s is None, want is None)
  vals, reach = want
  names = set(vals) | {name_id(n) for n in s.get_locals()}
  for i, rho in enumerate(VALUATIONS):
    for x in sorted(names):
      got = state_vals(s, rho, x)
      w = vals.get(x, (frozenset(),) * len(VALUATIONS))[i]
      if got != w:
        return (rho, x, sorted(got), sorted(w))
    if ev(s._condition, rho) != reach[i]:  # pylint: disable=protected-access
      return (rho, "block-condition", ev(s._condition, rho), reach[i])  # pylint: disable=protected-access
  return None


def any_fail(p, memo=None):
  """The property decided on the last operation of p: operand-relative oracle, then reference semantics."""
  f = top_oracle(p)
  return f if f is not None else ref_fail(p, memo)


def sub_histories(p):
  """Post-order list of the sub-histories of p (p last)."""
  out = []
  tag = p[0]
  if tag != "init":
    out.extend(sub_histories(p[1]))
    if tag == "storeload":
      out.extend(sub_histories(p[3]))
    elif tag == "merge":
      out.extend(sub_histories(p[2]))
  out.append(p)
  return out


def first_failing_sub(p, memo=None):
  """The first (smallest) sub-history of p whose last operation violates the property, or None."""
  for q in sub_histories(p):
    if q[0] != "init" and any_fail(q, memo) is not None:
      return q
  return None


def deep_history(r, conds, names=NAMES):
  """A history of 5 or more operations (mostly 5-9).  Half follow the shape branch/branch -> merge -> with_condition -> store over an
  existing (explicitly conditioned) name -> merge_into; the rest are random trees of operations."""
  init = ("init", (), impl().C.TRUE)

  def branch(x):
    h = init
    if r.random() < 0.35:
      h = ("store", h, r.choice(names), r.choice(VALUES), None)
    if r.random() < 0.75:
      h = ("with", h, r.choice(conds))
    h = ("store", h, x, r.choice(VALUES), None)
    return h

  def rand_tree(ops):
    if ops <= 0:
      return init if r.random() < 0.8 else ("init", ((r.choice(names), r.choice(VALUES)),), r.choice(conds))
    k = r.random()
    if k < 0.35:
      return ("store", rand_tree(ops - 1), r.choice(names), r.choice(VALUES), None)
    if k < 0.62:
      return ("with", rand_tree(ops - 1), r.choice(conds))
    if k < 0.92:
      a = r.randint(0, ops - 1)
      return ("merge", rand_tree(a), rand_tree(ops - 1 - a))
    a = r.randint(0, ops - 1)
    return ("storeload", rand_tree(a), r.choice(names), rand_tree(ops - 1 - a), r.choice(names))

  if r.random() < 0.5:
    x = r.choice(names)
    b1, b2 = branch(x), branch(x)
    m = ("merge", b1, b2)
    h = m
    if r.random() < 0.85:
      h = ("with", h, r.choice(conds))
    h = ("store", h, x, r.choice(VALUES + (3,)), None)
    k = r.random()
    if k < 0.75:
      other = r.choice([m, b1, init, ("with", m, r.choice(conds)), branch(x)])
      h = ("merge", h, other) if r.random() < 0.6 else ("merge", other, h)
    elif k < 0.9:
      h = ("with", h, r.choice(conds))
    return h
  return rand_tree(r.randint(5, 7))


OP_NAMES = {"init": "constructor", "store": "store_local", "storeload": "store_local(load_local)",
            "with": "with_condition", "merge": "merge_into", "mergenone": "merge_into(None)"}


def shrink_prog(p, bad, budget_s=20.0):
  """Replace sub-histories by their own sub-histories while the top operation still violates."""
  deadline = time.time() + budget_s

  def variants(q):
    tag = q[0]
    if tag == "init":
      return
    subs = [1] + ([3] if tag == "storeload" else []) + ([2] if tag == "merge" else [])
    for i in subs:
      child = q[i]
      if child[0] != "init":
        # drop the child's last operation
        yield q[:i] + (child[1],) + q[i + 1:]
        if child[0] == "merge":
          yield q[:i] + (child[2],) + q[i + 1:]
      for v in variants(child):
        yield q[:i] + (v,) + q[i + 1:]
  changed = True
  while changed and time.time() < deadline:
    changed = False
    for cand in variants(p):
      if time.time() > deadline:
        break
      try:
        if cand[0] == p[0] and bad(cand):
          p = cand
          changed = True
          break
      except Exception:  # pylint: disable=broad-except
        pass
  return p


def fingerprint(p, fail):
  return "%s-not-exact:%s" % (OP_NAMES[p[0]], prog_str(p)[:100])


# ---------------------------------------------------------------------------------------------------------

def load_corpus():
  out = []
  cdir = os.path.join(common.CORPUS, "C18")
  for f in sorted(os.listdir(cdir)) if os.path.isdir(cdir) else []:
    d = json.load(open(os.path.join(cdir, f)))
    out.append(("corpus:" + f, prog_from_json(d["history"])))
  return out


def witnesses():
  """The two hand-built objects of Props/C18.v (*_needs_*), on the real classes.  They are outside the
  property's quantifier (not built through the public operations); the model must still predict them.
  Returns [(name, Coq expression of the model's rendering, real rendering, real object violates?)]."""
  m = impl()
  a0, a1 = m.Atom(0), m.Atom(1)
  s1 = m.S.BlockState({"n0": m.V.Variable((m.V.Binding(1, a0), m.V.Binding(1, a1)))})
  s2 = m.S.BlockState({"n0": m.V.Variable.from_value(2)})
  mg = s1.merge_into(s2)
  w1 = ("duplicate-value-variable", "Some (render_state (merge_into dup_s1 (Some dup_s2)))",
        render_state(mg), merge_oracle(s1, s2, mg) is not None)
  s = m.S.BlockState({"n0": m.V.Variable.from_value(1)}, a0, set())
  r = s.with_condition(a1)
  w2 = ("explicit-local-not-implying-block-condition", "Some (render_state (with_condition imp_s (Atom 1)))",
        render_state(r), with_oracle(s, a1, r) is not None)
  return [w1, w2]


def report_history_violation(res, p, n_viol, memo=None):
  """p: a history whose last operation (or one of its sub-histories') violates the property on the real code."""
  if n_viol > 3:
    return
  q = first_failing_sub(p, memo) or p
  small = shrink_prog(q, lambda c: any_fail(c) is not None)
  f2 = any_fail(small)
  res.violation(fingerprint(small, f2),
                "%s: under valuation %s local/field %s has %s, expected %s" % (prog_str(small), f2[0], f2[1], f2[2], f2[3]),
                {"kind": "history", "history": prog_json(small)})


def extensions(h, conds):
  """A handful of continuations of history h that make a latent representation defect observable."""
  m = impl()
  init = ("init", (), m.C.TRUE)
  cs = [c for c in conds if canon(c)[0] in ("a", "n")][:4]
  others = [init, h] + [("store", init, x, v, None) for x in NAMES for v in VALUES]
  out = []
  for o in others:
    out.append(("merge", h, o))
    out.append(("merge", o, h))
  for c in cs:
    w = ("with", h, c)
    out.append(w)
    for o in others:
      out.append(("merge", w, o))
      out.append(("merge", o, w))
    for x in NAMES:
      st = ("store", w, x, VALUES[0], None)
      out.append(st)
      out.append(("merge", st, h))
      out.append(("merge", h, st))
  return out


def run(res):
  import threading
  thorough = res.tier == "thorough"
  max_ops = 4 if thorough else 3
  res.rule = ("conditions: every call Not(t), And(), And(t), And(t1,t2), Or(...) (and the 3-argument calls at depth 1; "
              "at depth 2 too in thorough) with arguments drawn from all distinct condition objects of depth <=1 over "
              "3 opaque atoms + TRUE/FALSE; states: every history of <=%d public operations (BlockState({}), "
              "store_local of from_value / of a load_local result (same or other state), with_condition(c) for c in "
              "the depth<=1 conditions, merge_into(other), merge_into(None)) over 2 names and 2 values, extended from "
              "one representative per distinct reachable state, plus random merge_into pairs of <=2-operation states, "
              "plus a time-boxed sampled stream of histories with 5 or more operations (mostly 5-9) (half shaped branch/branch -> merge -> "
              "with_condition -> store over an existing name -> merge_into) whose real states are compared under "
              "all valuations with a reference interpreter of the property; normal form: every constructor call above is also "
              "checked for cond_wf of its result, for 'result is an argument, a constant or a composite of arguments' and "
              "every distinct term for the unit/zero/idempotence/complement/double-negation laws; API: get_atomic_value / "
              "is_atomic (6 runtime types incl. subscripted generics and a metaclass __instancecheck__) / has_atomic_value "
              "/ with_value / with_name / values on every Variable with 0..2 bindings over 2 values x {TRUE, a, not a} x "
              "2 names, load_local / get_locals / store-load round trip on every distinct state of <=2 operations, the "
              "shape of with_condition on every enumerated with_condition history; loops: every block graph with >=1 back "
              "edge up to 3 blocks, samples of 4 and 5 blocks (forward-path oracle, final-state oracle); "
              "frames: the real FrameBase over every forward "
              "block graph of <=4 (thorough 5) blocks (last opcode: fall-through / jump / conditional jump on one of 2 "
              "atoms / return) x sampled straight-line stores and initial locals, entry states, _states and "
              "_final_locals compared with the model, entry states checked by path enumeration; "
              "a case is non-trivial when the result is not a constant / has >=1 local, distinct by canonical "
              "rendering" % max_ops)
  res.assumptions = [
      "atomic conditions are opaque hashable Condition subclasses (harness Atom dataclass); TRUE/FALSE only as the "
      "module singletons (the code tests them with `is`)",
      "values are hashable with ==/hash agreeing (ints in the harness); names are str",
      "Python set/frozenset/dict semantics as modelled in Flow/Model.v (insertion-ordered assoc lists, set equality)",
      "frame_base.py: FrameBase.__init__/step/_merge_state_into are modelled at block granularity (Flow/Frame.v) and "
      "driven for real over fake opcodes; the opcode handlers (store, JUMP_FORWARD-like, POP_JUMP_IF_FALSE-like with "
      "conditions a / Not(a)) are harness code mirroring rewrite/frame.py, whose own handlers use a placeholder "
      "Condition(); block graphs with back edges are inside the theorems (frame_loop_join_exact, frame_final_exact) "
      "and the generated graphs; atoms are time-independent (a loop condition has one truth value per valuation)",
      "a runtime type passed to get_atomic_value/is_atomic is modelled by its isinstance predicate on the value ids "
      "(after typing.get_origin for get_atomic_value); is_atomic with a subscripted generic (TypeError) is not modelled",
      "generator, canonical renderer and differ in harness/props/c18.py",
  ]
  common.coq_obligations(res, "C18")
  res.trusted_base += ["harness/props/c18.py renderer/parser; coqc vm_compute on generated cases.v files"]
  m = impl()
  t0 = time.time()
  r = common.rng(res.seed, "c18")

  # ---- generate: condition constructor calls, operation histories ------------------------------------
  _, d1, calls = cond_universe(thorough)
  res.extra["distinct_conditions_depth<=1"] = len(d1)
  levels, progs = enumerate_states(max_ops, d1)
  reps = [p for lvl in levels[:3] for p, _ in lvl]          # every distinct state of <=2 operations
  n_rand = 20000 if thorough else 800
  rand_pairs = [("merge", r.choice(reps), r.choice(reps)) for _ in range(n_rand)]
  corpus = load_corpus()
  progs = [p for _, p in corpus] + progs + rand_pairs
  res.extra["distinct_states_by_ops"] = [len(l) for l in levels]
  res.extra["histories_run"] = len(progs)

  # ---- model side (coqc in the background) ------------------------------------------------------------
  import c18_frame  # pylint: disable=import-outside-toplevel
  import c18_ext  # pylint: disable=import-outside-toplevel
  fcases = c18_frame.gen_cases(common.rng(res.seed, "c18-frame"), thorough)
  n_forward_cases = len(fcases)
  fcases = fcases + c18_frame.gen_loop_cases(common.rng(res.seed, "c18-loop"), thorough)
  wits = witnesses()
  # normal form: the real results of all constructor calls (distinct) + hand-built objects
  call_results = [call_cond(k, a) for k, a, _ in calls]
  wf_terms = {}
  for rr in call_results + c18_ext.handbuilt_conditions():
    wf_terms.setdefault(canon(rr), rr)
  wf_keys = sorted(wf_terms)
  # API: variables x runtime types
  avars = c18_ext.variable_universe()
  gav_cases = [(v, t) for v in avars for t in c18_ext.types()]
  namer = Namer()
  for lvl in levels[:-1]:
    for p, _ in lvl:
      namer.define(p)
  box = {}
  def model_thread():
    try:
      (box["cond"], box["state"], box["wit"], box["frame"], box["wf"], box["gav"], box["var"]) = run_models(
          [("cond", [call_to_coq(k, a) for k, a, _ in calls]),
           ("state", [namer.term(p) for p in progs]),
           ("rstate", [w[1] for w in wits]),
           ("frame", [c18_frame.spec_to_coq(sp, ini) for sp, ini in fcases], c18_frame.parse_model, 150),
           ("wf", ["cond_wfb %s" % canon_to_coq(k) for k in wf_keys], c18_ext.parse_bool),
           ("gav", [c18_ext.gav_item(v, t) for v, t in gav_cases], c18_ext.parse_gav),
           ("var", [c18_ext.var_item(v) for v in avars], c18_ext.parse_var_item)], namer)
    except BaseException as e:  # pylint: disable=broad-except
      box["error"] = e
  th = threading.Thread(target=model_thread)
  th.start()

  # ---- leg 1: condition constructors on the real objects + truth-table oracle --------------------------
  real = []
  n_bad_sem = 0
  hist = {"not": 0, "and": 0, "or": 0}
  shapes = {}
  for k, a, _ in calls:
    rr = call_cond(k, a)
    real.append(canon(rr))
    hist[k] += 1
    shapes[canon(rr)[0]] = shapes.get(canon(rr)[0], 0) + 1
    res.count((k, tuple(canon(x) for x in a)) if canon(rr)[0] not in "TF" else None)
    bad = cond_oracle(k, a, rr)
    if bad is not None:
      n_bad_sem += 1
      if n_bad_sem <= 3:
        res.violation(("condition-constructor-not-equivalent:%s(%s)" % (k, ",".join(canon_str(canon(x)) for x in a)))[:120],
                      "%s(%s) = %s is not equivalent to the logical connective under valuation %s" %
                      (k, ", ".join(canon_str(canon(x)) for x in a), canon_str(canon(rr)), bad),
                      {"kind": "cond", "call": k, "args": [canon(x) for x in a]})
  res.obligation("oracle:conditions-truth-tables", n_bad_sem == 0, "%d calls not equivalent" % n_bad_sem)
  res.extra["condition_calls"] = dict(hist, total=len(calls))
  res.extra["condition_result_shapes"] = shapes
  res.sample({"call": "And(a0, Or(a1, a2), Not(a0))",
              "real": canon_str(canon(m.C.And(m.Atom(0), m.C.Or(m.Atom(1), m.Atom(2)), m.C.Not(m.Atom(0)))))})

  # ---- leg 2: Variable.with_condition -----------------------------------------------------------------
  n_vw = 0
  n_vw_bad = 0
  for c1 in d1:
    v = m.V.Variable((m.V.Binding(1, c1), m.V.Binding(2, m.C.TRUE)), name="n0")
    for c in d1:
      rr = v.with_condition(c)
      n_vw += 1
      if var_with_oracle(v, c, rr) is not None:
        n_vw_bad += 1
        if n_vw_bad <= 1:
          res.violation("variable-with_condition-not-exact:%s+%s" % (canon_str(canon(c1)), canon_str(canon(c))),
                        "Variable.with_condition does not restrict a binding by exactly the condition",
                        {"kind": "varwith", "binding": canon(c1), "cond": canon(c)})
  res.count(None, n_vw)
  res.obligation("oracle:Variable.with_condition", n_vw_bad == 0, "%d of %d" % (n_vw_bad, n_vw))

  # ---- leg 1b: normal form of constructed terms (cond_wf), result shape, laws -----------------------------
  n_nf_bad = 0
  for (k, a, _), rr in zip(calls, call_results):
    why = None
    if all(c18_ext.wf_real(x) is None for x in a):
      why = c18_ext.wf_real(rr) or c18_ext.shape_real(k, a, rr)
    if why is not None:
      n_nf_bad += 1
      if n_nf_bad <= 2:
        res.violation(("condition-normal-form:%s(%s)" % (k, ",".join(canon_str(canon(x)) for x in a)))[:120],
                      "%s(%s) = %s breaks the normal form the constructors keep: %s" % (
                          k, ", ".join(canon_str(canon(x)) for x in a), canon_str(canon(rr)), why),
                      {"kind": "wf", "call": k, "args": [canon(x) for x in a]})
  res.obligation("oracle:conditions-normal-form", n_nf_bad == 0, "%d of %d calls" % (n_nf_bad, len(calls)))
  law_terms = [wf_terms[k] for k in wf_keys if c18_ext.wf_real(wf_terms[k]) is None]
  n_law_bad = 0
  for t in law_terms:
    lf = c18_ext.law_failures(t)
    res.count(None, 19)
    if lf:
      n_law_bad += 1
      if n_law_bad <= 2:
        res.violation(("condition-law:%s:%s" % (lf[0][0], canon_str(canon(t))))[:120],
                      "law %s fails for t = %s: got %s" % (lf[0][0], canon_str(canon(t)), lf[0][1]),
                      {"kind": "law", "term": canon(t)})
  res.obligation("oracle:conditions-laws", n_law_bad == 0, "%d of %d terms" % (n_law_bad, len(law_terms)))
  res.extra["normal_form"] = {"calls_checked": len(calls), "distinct_terms_for_cond_wfb": len(wf_keys),
                              "terms_for_laws": len(law_terms)}

  # ---- leg 2b: the rest of Variable's public API, specification decided on the real objects ---------------
  n_api_bad = 0
  for v in avars:
    why = c18_ext.variable_api_oracle(v)
    res.count(("api", render_var(v)) if v.bindings else None)
    if why:
      n_api_bad += 1
      if n_api_bad <= 2:
        res.violation(("variable-api:%s" % why[0])[:110] + ":" + str(len(v.bindings)),
                      "%r: %s" % (v, "; ".join(why[:3])),
                      {"kind": "api", "bindings": [[b.value, canon(b.condition)] for b in v.bindings], "name": v.name})
  res.obligation("oracle:Variable-api", n_api_bad == 0, "%d of %d variables" % (n_api_bad, len(avars)))
  real_gav = [c18_ext.real_gav(v, t[1]) for v, t in gav_cases]
  real_var = [c18_ext.real_var_answers(v) for v in avars]
  res.extra["variable_api"] = {"variables": len(avars), "get_atomic_value_calls": len(gav_cases),
                               "outcomes": {str(k): sum(1 for r0 in real_gav if r0[0] == k) for k in range(4)}}

  # ---- leg 3: histories on the real classes + oracle on every with_condition / merge_into --------------
  kinds = {}
  real_states = []
  n_viol = 0
  n_oracle = 0
  memo = {}
  for p in progs:
    st = run_prog(p)
    rr = None if st is None else render_state(st)
    real_states.append(rr)
    kinds[p[0]] = kinds.get(p[0], 0) + 1
    res.count((p[0], rr) if rr is not None and rr[0] else None)
    n_oracle += 1
    if (p[0] in ("merge", "with") and top_oracle(p) is not None) or ref_fail(p, memo, st) is not None:
      n_viol += 1
      report_history_violation(res, p, n_viol, memo)
  res.extra["history_top_operation"] = kinds
  n_sapi_bad = 0
  n_sapi = 0
  for p in reps:
    n_sapi += 1
    why = c18_ext.state_api_oracle(p)
    if why:
      n_sapi_bad += 1
      if n_sapi_bad <= 2:
        res.violation(("state-api:%s" % why[0])[:100], "%s: %s" % (prog_str(p), "; ".join(why[:3])),
                      {"kind": "stateapi", "history": prog_json(p)})
  n_wsh = 0
  for p in progs:
    if p[0] == "with":
      n_wsh += 1
      why = c18_ext.with_shape_oracle(p)
      if why:
        n_sapi_bad += 1
        if n_sapi_bad <= 2:
          res.violation(("with_condition-shape:%s" % prog_str(p))[:110], "%s: %s" % (prog_str(p), "; ".join(why[:3])),
                        {"kind": "withshape", "history": prog_json(p)})
  res.count(None, n_sapi + n_wsh)
  res.obligation("oracle:BlockState-api(load_local/get_locals/with_condition-shape)", n_sapi_bad == 0,
                 "%d failures over %d states + %d with_condition calls" % (n_sapi_bad, n_sapi, n_wsh))

  # ---- leg 3b: sampled deeper histories (5 or more operations), real objects vs the reference semantics ------
  rd = common.rng(res.seed, "c18-deep")
  deep_budget = 60.0 if thorough else 10.0
  deep_max = 60000 if thorough else 4000
  n_deep = 0
  deep_ops = {}
  deep_seen = set()
  td = time.time()
  while n_deep < deep_max and time.time() - td < deep_budget:
    p = deep_history(rd, d1)
    n_deep += 1
    k = prog_ops(p)
    deep_ops[k] = deep_ops.get(k, 0) + 1
    dm = {}
    st = run_prog(p)
    if st is not None:
      rr = render_state(st)
      res.count(("deep", rr) if rr[0] and rr not in deep_seen else None)
      deep_seen.add(rr)
    else:
      res.count(None)
    bad = ref_fail(p, dm, st) is not None or (p[0] in ("merge", "with") and top_oracle(p) is not None)
    if not bad and rd.random() < 0.15:
      bad = first_failing_sub(p, dm) is not None     # every intermediate state too, for a sample
    if bad:
      n_viol += 1
      report_history_violation(res, p, n_viol, dm)
      if n_viol > 20:
        break
  res.extra["deep_histories"] = {"n": n_deep, "by_operations": dict(sorted(deep_ops.items())),
                                 "distinct_states": len(deep_seen), "wall_s": round(time.time() - td, 1)}
  for p in progs:
    if p[0] == "merge" and prog_ops(p) >= 3:
      st = run_prog(p)
      if st is not None and len(st.get_locals()) == 2:
        res.sample({"history": prog_str(p), "real_state": repr(st)})
        break

  # ---- leg 3c: the real FrameBase over small block graphs: path-enumeration oracle ---------------------
  freal = []
  n_fviol = 0
  fhist = {}
  n_dead = 0
  for sp, ini in fcases:
    ents, sts, fl, snaps = c18_frame.run_real(sp, ini)
    freal.append((list(ents), sts, fl))
    fhist[len(sp)] = fhist.get(len(sp), 0) + 1
    n_dead += sts is None
    reached = sum(1 for e in ents if e is not None)
    res.count(("frame", sp, ini) if reached >= 3 else None)
    bad = c18_frame.path_oracle(sp, ini, snaps) or c18_frame.final_oracle(sp, ini)
    if bad is not None:
      n_fviol += 1
      if n_fviol <= 2:
        res.violation(("frame-join-not-exact:%s" % c18_frame.spec_str(sp, ini))[:140],
                      "%s: under valuation %s the %s gives %s = %s, the enabled (forward) path gives %s" % (
                          c18_frame.spec_str(sp, ini), bad[0],
                          "final state" if bad[1] == "final" else "entry state of block #%d" % bad[1],
                          bad[2], bad[3], bad[4]),
                      {"kind": "frame", "spec": [[list(map(list, st)), list(t)] for st, t in sp],
                       "init": [list(xv) for xv in ini]})
  res.obligation("oracle:frame-path-enumeration", n_fviol == 0,
                 "%d of %d block graphs: an entry state differs from the path semantics" % (n_fviol, len(fcases)))
  res.extra["frame_graphs"] = {"n": len(fcases), "forward": n_forward_cases, "with_back_edges": len(fcases) - n_forward_cases,
                               "by_blocks": dict(sorted(fhist.items())),
                               "died_with_KeyError(unreachable block)": n_dead,
                               "final_states_checked": len(c18_frame.FINAL_SNAPS)}
  wsp, wgot, wok = c18_frame.all_paths_witness()
  res.obligation("witness:frame_loop_all_paths_refuted-on-real-FrameBase", wok,
                 "%s: header entry state allows n0 in %s under a0=True (the path around the loop brings 2)" % (wsp, wgot))
  res.extra["outside_quantifier_loop_witness"] = {"graph": wsp, "header_n0_values_under_a0_true": wgot,
                                                  "value_2_from_the_loop_body_missing": wok}
  for sp, ini in fcases[:2]:
    res.sample({"frame_graph": c18_frame.spec_str(sp, ini),
                "real_final_locals": str(c18_frame.run_real(sp, ini)[2])})

  # ---- leg 4: merge_into oracle on all pairs of reachable states (real objects only) -------------------
  if thorough:
    extra = [p for p, _ in levels[3]]
    r.shuffle(extra)
    reps_b = reps + extra[:1500]
  else:
    reps_b = reps
  budget = 400.0 if thorough else 30.0
  states = [run_prog(p) for p in reps_b]
  n_pairs = 0
  tp = time.time()
  truncated = False
  for i in range(len(reps_b)):
    if time.time() - tp > budget:
      truncated = True
      break
    for j in range(len(reps)):
      todo = [(i, j)] if i < len(reps) else [(i, j), (-j - 1, i)]
      for a, b in todo:
        pa = reps_b[a] if a >= 0 else reps[-a - 1]
        sa = states[a] if a >= 0 else states[-a - 1]
        pb, sb = reps_b[b], states[b]
        n_pairs += 1
        if merge_oracle(sa, sb, sa.merge_into(sb)) is not None:
          n_viol += 1
          report_history_violation(res, ("merge", pa, pb), n_viol)
  res.count(None, n_pairs)
  res.extra["merge_pairs_oracle"] = {"pairs": n_pairs, "states": len(reps_b), "truncated_by_time_budget": truncated}
  res.obligation("oracle:merge_into/with_condition-truth-tables", n_viol == 0,
                 "%d violating operations among %d histories + %d deep histories + %d state pairs" % (
                     n_viol, n_oracle, n_deep, n_pairs))
  res.extra["wall_real_side_s"] = round(time.time() - t0, 1)

  # ---- correspondence ---------------------------------------------------------------------------------
  th.join()
  if "error" in box:
    res.obligation("model-run", False, repr(box["error"])[:3000])
    return "proof"
  model = box["cond"]
  mism = [i for i in range(len(calls)) if model[i] != real[i]]
  for i in mism[:3]:
    k, a, _ = calls[i]
    common.log("[C18] cond mismatch: %s(%s): real=%s model=%s" % (
        k, ", ".join(canon_str(canon(x)) for x in a), canon_str(real[i]), canon_str(model[i])))
  res.obligation("correspondence:conditions(Not/And/Or)", not mism,
                 "%d of %d constructor calls disagree; first: %s" % (
                     len(mism), len(calls),
                     [(calls[i][0], [canon_str(canon(x)) for x in calls[i][1]], canon_str(real[i]), canon_str(model[i]))
                      for i in mism[:2]]))
  model_states = box["state"]
  mism = [i for i in range(len(progs)) if model_states[i] != real_states[i]]
  for i in mism[:3]:
    common.log("[C18] state mismatch: %s\n   real =%s\n   model=%s" % (prog_str(progs[i]), real_states[i], model_states[i]))
  if mism and not any(v["found_input"] for v in res.violations):
    # the model and the real classes disagree on some history: look for a concrete property violation on the
    # real code in that history, its sub-histories and a handful of continuations
    tm = time.time()
    found = 0
    for i in mism[:40]:
      if time.time() - tm > 20 or found >= 2:
        break
      h = progs[i]
      cands = [h] + extensions(h, d1)
      for c in cands:
        try:
          q = first_failing_sub(c)
        except Untranslatable:
          q = None
        if q is not None:
          found += 1
          n_viol += 1
          report_history_violation(res, q, found)
          break
    res.extra["mismatch_driven_search"] = {"mismatches": len(mism), "violations_found": found}
  res.obligation("correspondence:BlockState-histories", not mism,
                 "%d of %d histories disagree; first: %s" % (
                     len(mism), len(progs),
                     [(prog_str(progs[i]), str(real_states[i]), str(model_states[i])) for i in mism[:1]]))
  fm = box["frame"]
  fmism = []
  for i, ((sp, ini), (ents, sts, fl)) in enumerate(zip(fcases, freal)):
    real_t = (ents, None if sts is None else dict(sts), fl)
    if real_t[1] is not None:
      real_t[1].setdefault(-1, None)
    if (list(fm[i][0]), fm[i][1], fm[i][2]) != real_t:
      fmism.append(i)
  for i in fmism[:3]:
    common.log("[C18] frame mismatch: %s\n   real =%s\n   model=%s" % (
        c18_frame.spec_str(*fcases[i]), freal[i], fm[i]))
  res.obligation("correspondence:FrameBase-block-graphs", not fmism,
                 "%d of %d block graphs disagree; first: %s" % (
                     len(fmism), len(fcases), [c18_frame.spec_str(*fcases[i]) for i in fmism[:2]]))
  wf_real_ans = [c18_ext.wf_real(wf_terms[k]) is None for k in wf_keys]
  wmism = [i for i in range(len(wf_keys)) if box["wf"][i] != wf_real_ans[i]]
  res.obligation("correspondence:cond_wfb", not wmism,
                 "%d of %d terms: model cond_wfb and the oracle on the real object disagree; first: %s" % (
                     len(wmism), len(wf_keys), [canon_str(wf_keys[i]) for i in wmism[:2]]))
  gmism = [i for i in range(len(gav_cases)) if tuple(box["gav"][i]) != tuple(real_gav[i])]
  res.obligation("correspondence:Variable.get_atomic_value", not gmism,
                 "%d of %d calls disagree; first: %s" % (
                     len(gmism), len(gav_cases),
                     [(repr(gav_cases[i][0]), gav_cases[i][1][0], real_gav[i], box["gav"][i]) for i in gmism[:2]]))
  vmism = [i for i in range(len(avars)) if box["var"][i] != real_var[i]]
  for i in vmism[:2]:
    common.log("[C18] variable api mismatch: %r\n   real =%s\n   model=%s" % (avars[i], real_var[i], box["var"][i]))
  res.obligation("correspondence:Variable-api(is_atomic/has_atomic_value/with_value/with_name/values)", not vmism,
                 "%d of %d variables disagree; first: %s" % (len(vmism), len(avars), [repr(avars[i]) for i in vmism[:2]]))
  bad_w = [w[0] for w, mw in zip(wits, box["wit"]) if mw != w[2]]
  res.obligation("correspondence:hand-built-witnesses", not bad_w, "model and real classes differ on %s" % bad_w)
  res.extra["outside_quantifier_witnesses_violate_on_real_code"] = {w[0]: w[3] for w in wits}
  res.extra["wall_legs_s"] = round(time.time() - t0, 1)
  if thorough:
    ok, out = common_coqchk("C18")
    res.obligation("coqchk", ok, out[-1500:])
  return "proof"


def common_coqchk(pid):
  import subprocess
  r = subprocess.run(["timeout", "1500", "coqchk", "-silent", "-o", "-Q", common.COQ, "PV", f"PV.Props.{pid}"],
                     capture_output=True, text=True, cwd=common.COQ)
  return r.returncode == 0, r.stdout + r.stderr


def replay(res, path):
  d = json.load(open(path))
  rp = d["replay"]
  if rp["kind"] == "cond":
    args = [cond_from_canon(a) for a in rp["args"]]
    r = call_cond(rp["call"], args)
    bad = cond_oracle(rp["call"], args, r)
    print("call  :", rp["call"], [canon_str(canon(a)) for a in args])
    print("result:", canon_str(canon(r)))
    print("first valuation where it differs from the connective:", bad)
    return 1 if bad is not None else 0
  if rp["kind"] == "varwith":
    m = impl()
    v = m.V.Variable((m.V.Binding(1, cond_from_canon(rp["binding"])), m.V.Binding(2, m.C.TRUE)), name="n0")
    c = cond_from_canon(rp["cond"])
    r = v.with_condition(c)
    bad = var_with_oracle(v, c, r)
    print("var   :", v, " with_condition", c, "->", r)
    print("oracle:", bad)
    return 1 if bad is not None else 0
  if rp["kind"] in ("wf", "law", "api", "stateapi", "withshape"):
    import c18_ext  # pylint: disable=import-outside-toplevel
    m = impl()
    if rp["kind"] == "wf":
      args = [cond_from_canon(a) for a in rp["args"]]
      r = call_cond(rp["call"], args)
      why = c18_ext.wf_real(r) or c18_ext.shape_real(rp["call"], args, r)
      print("call  :", rp["call"], [canon_str(canon(a)) for a in args], "->", canon_str(canon(r)))
      print("normal-form oracle:", why)
      return 1 if why else 0
    if rp["kind"] == "law":
      t = cond_from_canon(rp["term"])
      lf = c18_ext.law_failures(t)
      print("term:", canon_str(canon(t)), " failing laws:", lf)
      return 1 if lf else 0
    if rp["kind"] == "api":
      v = m.V.Variable(tuple(m.V.Binding(x, cond_from_canon(c)) for x, c in rp["bindings"]), rp["name"])
      why = c18_ext.variable_api_oracle(v)
      print("variable:", v, " failures:", why)
      return 1 if why else 0
    p = prog_from_json(rp["history"])
    why = c18_ext.state_api_oracle(p) if rp["kind"] == "stateapi" else c18_ext.with_shape_oracle(p)
    print("history:", prog_str(p), " failures:", why)
    return 1 if why else 0
  if rp["kind"] == "frame":
    import c18_frame  # pylint: disable=import-outside-toplevel
    sp = tuple((tuple(tuple(xv) for xv in st), tuple(t)) for st, t in rp["spec"])
    ini = tuple(tuple(xv) for xv in rp["init"])
    print("block graph:", c18_frame.spec_str(sp, ini))
    ents, sts, fl, snaps = c18_frame.run_real(sp, ini)
    for k, e in enumerate(ents):
      print("  entry state of block #%d:" % k, e)
    print("  final locals:", fl)
    bad = c18_frame.path_oracle(sp, ini, snaps) or c18_frame.final_oracle(sp, ini)
    print("forward-path / final-state oracle (valuation, block # or 'final', what, got, want):", bad)
    return 1 if bad is not None else 0
  p = prog_from_json(rp["history"])
  print("history:", prog_str(p))
  s = run_prog(p)
  print("real result:", s)
  if p[0] in ("merge",):
    print("operand 1  :", run_prog(p[1]))
    print("operand 2  :", run_prog(p[2]))
  elif p[0] in ("with", "store", "storeload", "mergenone"):
    print("operand    :", run_prog(p[1]))
  fail = top_oracle(p)
  print("operand-relative oracle (valuation, local, got, want):", fail)
  rf = ref_fail(p)
  print("reference semantics of the history (valuation, local, got, want):", rf)
  want = ref_eval(p, {})
  if want is not None and s is not None:
    for i, rho in enumerate(VALUATIONS):
      print("  valuation", rho, " real:", {x: sorted(state_vals(s, rho, x)) for x in sorted(want[0])},
            " expected:", {x: sorted(want[0][x][i]) for x in sorted(want[0])})
  return 1 if fail is not None or rf is not None else 0
