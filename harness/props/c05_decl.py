"""C05, declarations: model terms for coq/Print/Decl.v, conversions to/from pytd, real text -> statement trees,
serialisation for harness/ocaml/decl_driver.ml, and the generator of declarations and whole units.

Model terms (Python tuples/lists mirroring coq/Print/Decl.v):
  const  (name_id, val 0/1, type)            tparam (name_id, lit_id, [constraint types], bound type | None)
  fsig   (sig, [exception types])            func   (name_id, kind 0..3, abs, cor, fin, [deco ids], [fsigs])
  cls    (name_id, [bases], [(kw_id, type)], [deco ids], slots [lit ids] | None, [classes], [consts], [funcs])
  unit   ([tparams], [(name_id, type)], [consts], [classes], [funcs])
  stmt   ("L", [token words]) | ("B",) | ("K", [token words], [stmts])
"""
import re

import c05_gen as g

KIND_NAMES = ["METHOD", "STATICMETHOD", "CLASSMETHOD", "PROPERTY"]


# ---------------------------------------------------------------------------------------------------
# serialisation

def ser_list(xs, f, out):
  out.append(str(len(xs)))
  for x in xs:
    f(x, out)
  return out


def ser_const(k, out):
  out += [str(k[0]), str(int(k[1]))]
  g.ser_ty(k[2], out)


def ser_tparam(t, out):
  out += [str(t[0]), str(t[1])]
  ser_list(t[2], g.ser_ty, out)
  if t[3] is None:
    out.append("-")
  else:
    out.append("+")
    g.ser_ty(t[3], out)


def ser_fsig(f, out):
  g.ser_sig(f[0], out)
  ser_list(f[1], g.ser_ty, out)


def ser_func(f, out):
  out += [str(f[0]), str(f[1]), str(int(f[2])), str(int(f[3])), str(int(f[4]))]
  ser_list(f[5], lambda d, o: o.append(str(d)), out)
  ser_list(f[6], ser_fsig, out)


def ser_cls(c, out):
  out.append(str(c[0]))
  ser_list(c[1], g.ser_ty, out)
  ser_list(c[2], lambda kv, o: (o.append(str(kv[0])), g.ser_ty(kv[1], o)), out)
  ser_list(c[3], lambda d, o: o.append(str(d)), out)
  if c[4] is None:
    out.append("-")
  else:
    out.append("+")
    ser_list(c[4], lambda d, o: o.append(str(d)), out)
  ser_list(c[5], ser_cls, out)
  ser_list(c[6], ser_const, out)
  ser_list(c[7], ser_func, out)


def ser_unit(u, out):
  ser_list(u[0], ser_tparam, out)
  ser_list(u[1], lambda a, o: (o.append(str(a[0])), g.ser_ty(a[1], o)), out)
  ser_list(u[2], ser_const, out)
  ser_list(u[3], ser_cls, out)
  ser_list(u[4], ser_func, out)
  return out


def ser_stmts(ss, out):
  out.append(str(len(ss)))
  for s in ss:
    if s[0] == "L":
      out += ["L", str(len(s[1]))] + list(s[1])
    elif s[0] == "B":
      out.append("B")
    else:
      out += ["K", str(len(s[1]))] + list(s[1])
      ser_stmts(s[2], out)
  return out


class DReader(g.Reader):
  def lst(self, f):
    return [f() for _ in range(self.int())]

  def const(self):
    nm = self.int(); v = self.int(); t = self.ty()
    return (nm, v, t)

  def tparam(self):
    nm = self.int(); lit = self.int(); cs = self.lst(self.ty); b = self.opt(self.ty)
    return (nm, lit, cs, b)

  def fsig(self):
    s = self.sig()
    return (s, self.lst(self.ty))

  def func(self):
    nm = self.int(); kind = self.int(); a = self.int(); c = self.int(); f = self.int()
    ds = self.lst(self.int)
    return (nm, kind, a, c, f, ds, self.lst(self.fsig))

  def cls(self):
    nm = self.int()
    bs = self.lst(self.ty)
    kws = self.lst(lambda: (self.int(), self.ty()))
    ds = self.lst(self.int)
    sl = self.opt(lambda: self.lst(self.int))
    cs = self.lst(self.cls)
    ks = self.lst(self.const)
    ms = self.lst(self.func)
    return (nm, bs, kws, ds, sl, cs, ks, ms)

  def unit(self):
    return (self.lst(self.tparam), self.lst(lambda: (self.int(), self.ty())), self.lst(self.const),
            self.lst(self.cls), self.lst(self.func))

  def tokens(self):
    return [self.next() for _ in range(self.int())]

  def stmts(self):
    out = []
    for _ in range(self.int()):
      k = self.next()
      if k == "L":
        out.append(("L", self.tokens()))
      elif k == "B":
        out.append(("B",))
      else:
        h = self.tokens()
        out.append(("K", h, self.stmts()))
    return out


def parse_unit_words(s):
  s = s.strip()
  if s == "NONE":
    return None
  if s.startswith("ERROR"):
    return s
  return DReader(s.split()).unit()


def parse_stmts_words(s):
  s = s.strip()
  if s.startswith("ERROR"):
    return s
  return DReader(s.split()).stmts()


def parse_fsig_words(s):
  s = s.strip()
  if s == "NONE":
    return None
  if s.startswith("ERROR"):
    return s
  return DReader(s.split()).fsig()


# ---------------------------------------------------------------------------------------------------
# real text -> statement tree

def strip_imports(text):
  ls = text.split("\n")
  i = 0
  while i < len(ls) and (ls[i].startswith("import ") or ls[i].startswith("from ")):
    i += 1
  if i and i < len(ls) and ls[i].strip() == "":
    i += 1
  return "\n".join(ls[i:])


def text_to_stmts(ids, text):
  """Indentation -> suites (what CPython's tokenizer does).  A def keeps its indented lines (joined by NL tokens)."""
  lines = text.rstrip("\n").split("\n") if text.strip() else []

  def indent(l):
    return len(l) - len(l.lstrip(" "))

  def block(i, ind):
    out = []
    while i < len(lines):
      l = lines[i]
      if l.strip() == "":
        # a blank line belongs to the enclosing suite it is followed by
        j = i
        while j < len(lines) and lines[j].strip() == "":
          j += 1
        if j < len(lines) and indent(lines[j]) < ind:
          return out, i
        out.append(("B",))
        i += 1
        continue
      k = indent(l)
      if k < ind:
        return out, i
      body_start = i + 1
      j = body_start
      while j < len(lines) and (lines[j].strip() == "" or indent(lines[j]) > k):
        j += 1
      # trailing blank lines are not part of the suite
      while j > body_start and lines[j - 1].strip() == "":
        j -= 1
      head = l.strip()
      if head.startswith("class ") and j > body_start:
        sub, _ = block_of(lines[body_start:j])
        out.append(("K", g.tokenise(ids, head), sub))
      else:
        out.append(("L", g.tokenise(ids, "\n".join(x[k:] for x in lines[i:j]))))
      i = j
    return out, i

  def block_of(ls):
    nonlocal lines
    saved = lines
    lines = ls
    ind = min(indent(x) for x in ls if x.strip())
    r = block(0, ind)
    lines = saved
    return r

  if not lines:
    return []
  return block(0, 0)[0]


# ---------------------------------------------------------------------------------------------------
# model terms <-> pytd

def _k(pytd):
  return [pytd.MethodKind.METHOD, pytd.MethodKind.STATICMETHOD, pytd.MethodKind.CLASSMETHOD, pytd.MethodKind.PROPERTY]


def _deco_alias(ids, d):
  from pytype.pytd import pytd
  nm = ids.s(d)
  return pytd.Alias(nm, pytd.NamedType("typing." + nm if g.is_typing_id(d) else nm))


def fsig_to_pytd(ids, f):
  sg = g.sig_to_pytd(ids, f[0])
  return sg.Replace(exceptions=tuple(g.to_pytd(ids, e) for e in f[1]))


def func_to_pytd(ids, f):
  from pytype.pytd import pytd
  flags = pytd.MethodFlag.NONE
  if f[2]:
    flags |= pytd.MethodFlag.ABSTRACT
  if f[3]:
    flags |= pytd.MethodFlag.COROUTINE
  if f[4]:
    flags |= pytd.MethodFlag.FINAL
  decos = tuple(_deco_alias(ids, d) for d in f[5])
  return pytd.Function(ids.s(f[0]), tuple(fsig_to_pytd(ids, s) for s in f[6]), _k(pytd)[f[1]], flags, decos)


def const_to_pytd(ids, k):
  from pytype.pytd import pytd
  return pytd.Constant(ids.s(k[0]), g.to_pytd(ids, k[2]), pytd.AnythingType() if k[1] else None)


def cls_to_pytd(ids, c):
  from pytype.pytd import pytd
  return pytd.Class(
      name=ids.s(c[0]), keywords=tuple((ids.s(k), g.to_pytd(ids, t)) for k, t in c[2]),
      bases=tuple(g.to_pytd(ids, b) for b in c[1]), methods=tuple(func_to_pytd(ids, f) for f in c[7]),
      constants=tuple(const_to_pytd(ids, k) for k in c[6]), classes=tuple(cls_to_pytd(ids, x) for x in c[5]),
      decorators=tuple(_deco_alias(ids, d) for d in c[3]),
      slots=None if c[4] is None else tuple(ids.s(s)[1:-1] for s in c[4]), template=())


def unit_to_pytd(ids, u):
  from pytype.pytd import pytd, pytd_utils
  tps = tuple(pytd.TypeParameter(ids.s(t[0]), constraints=tuple(g.to_pytd(ids, c) for c in t[2]),
                                 bound=None if t[3] is None else g.to_pytd(ids, t[3])) for t in u[0])
  return pytd_utils.CreateModule(
      "m", type_params=tps, aliases=tuple(pytd.Alias(ids.s(a[0]), g.to_pytd(ids, a[1])) for a in u[1]),
      constants=tuple(const_to_pytd(ids, k) for k in u[2]), classes=tuple(cls_to_pytd(ids, c) for c in u[3]),
      functions=tuple(func_to_pytd(ids, f) for f in u[4]))


def fsig_from_pytd(ids, sg):
  s = g.sig_from_pytd(ids, sg.Replace(exceptions=()))
  return (s, [g.from_pytd(ids, e) for e in sg.exceptions])


def func_from_pytd(ids, f):
  from pytype.pytd import pytd
  return (ids.id(f.name), _k(pytd).index(f.kind), int(bool(f.flags & pytd.MethodFlag.ABSTRACT)),
          int(bool(f.flags & pytd.MethodFlag.COROUTINE)), int(bool(f.flags & pytd.MethodFlag.FINAL)),
          [ids.id(d.name) for d in f.decorators], [fsig_from_pytd(ids, s) for s in f.signatures])


def const_from_pytd(ids, k):
  return (ids.id(k.name), int(k.value is not None), g.from_pytd(ids, k.type))


def cls_from_pytd(ids, c):
  if c.template:
    raise g.Unsupported("template")
  return (ids.id(c.name), [g.from_pytd(ids, b) for b in c.bases],
          [(ids.id(k), g.from_pytd(ids, v)) for k, v in c.keywords], [ids.id(d.name) for d in c.decorators],
          None if c.slots is None else [ids.id('"%s"' % s) for s in c.slots],
          [cls_from_pytd(ids, x) for x in c.classes], [const_from_pytd(ids, k) for k in c.constants],
          [func_from_pytd(ids, f) for f in c.methods])


def unit_from_pytd(ids, a):
  from pytype.pytd import pytd
  tps = []
  for t in a.type_params:
    if isinstance(t, pytd.ParamSpec) or t.default is not None:
      raise g.Unsupported("paramspec/default")
    tps.append((ids.id(t.name), ids.id("'%s'" % t.name), [g.from_pytd(ids, c) for c in t.constraints],
                None if t.bound is None else g.from_pytd(ids, t.bound)))
  return (tps, [(ids.id(x.name), g.from_pytd(ids, x.type)) for x in a.aliases],
          [const_from_pytd(ids, k) for k in a.constants], [cls_from_pytd(ids, c) for c in a.classes],
          [func_from_pytd(ids, f) for f in a.functions])


def canon(x):
  """lists/tuples/bools/ints -> nested tuples of ints/strs, for comparing model output with converted pytd"""
  if isinstance(x, (list, tuple)):
    return tuple(canon(y) for y in x)
  if isinstance(x, bool):
    return int(x)
  return x


# ---------------------------------------------------------------------------------------------------
# generator

class DeclGen:
  """Declarations and units in the emitted dialect (reader naming convention), independent of any program.
  `known` = fingerprints of listed findings: shapes that trigger an unlisted finding are not generated."""

  def __init__(self, r, ids, gen, env_names, known, fixed=False):
    self.r, self.ids, self.gen, self.known = r, ids, gen, known
    self.fixed = fixed          # the tree under test has fixes/C05-property-decorator-printed-twice.patch
    self.tvars = env_names
    self.env = [ids.id(x) for x in env_names]
    self.n = 0

  def fresh(self, p):
    self.n += 1
    return self.ids.id("%s%d" % (p, self.n))

  # types in the reader's convention, no one-member unions, no duplicate members
  def conv_p(self, t):
    k = t[0]
    if k == "N":
      return ("N", "p" if t[1] == "b" else t[1], t[2])
    if k == "L" and t[1] == "b":
      return ("L", "b", False, t[3])
    if k in ("G", "Tu", "Ca"):
      return (k, ("p" if t[1][0] == "b" else t[1][0], t[1][1]), [self.conv_p(p) for p in t[2]])
    if k == "U":
      return ("U", [self.conv_p(p) for p in t[1]])
    if k == "An":
      return ("An", self.conv_p(t[1]), t[2])
    return t

  def clean(self, t):
    t = self.conv_p(t)
    try:
      t = g.from_pytd(self.ids, g.to_pytd(self.ids, t))
    except AssertionError:
      pass
    return collapse_single(t)

  def ty(self, d=2, edge=False):
    return self.clean(self.gen.ty(d, self.env, edge))

  def plain_ty(self):
    """a type that needs no typing import (for mutated-parameter lines: known finding mutated-type-typing-name-not-imported)"""
    r = self.r
    base = lambda: ("N", "p", self.ids.id(r.choice(["int", "str", "bytes", "Foo", "Bar", "object"])))
    k = r.random()
    if k < 0.4:
      return base()
    if k < 0.5 and self.env:
      return ("V", r.choice(self.env))
    if k < 0.8:
      return ("G", ("p", self.ids.id(r.choice(["list", "set", "Foo"]))), [base() if r.random() < 0.7 or not self.env else ("V", r.choice(self.env))])
    return ("G", ("p", self.ids.id("dict")), [base(), base()])

  def fsig(self, cls=None, first=None, allow_mut=True):
    r, ids = self.r, self.ids
    ps, star, sstar, ret = self.gen.sig(self.env, cls)
    out = []
    for (nm, kind, opt, t, mut) in ps:
      if ids.s(nm) in ("self", "cls"):
        continue
      t = self.clean(t)
      m = None
      if allow_mut and not opt and r.random() < 0.2:
        m = self.plain_ty()
      out.append((nm, kind, opt, t, m))
    if first:
      kind0 = 0 if out and out[0][1] == 0 else 1
      q = r.random()
      ft = ("A",)
      if cls is not None and q < 0.15:
        ft = ("N", "p", cls) if first == "self" else ("G", ("p", ids.id("type")), [("N", "p", cls)])
      out = [(ids.id(first), kind0, 0, ft, None)] + out
    # _VerifyMutators: type parameters of a mutated generic type must occur in some parameter type
    have = set()
    for p in out:
      have |= {x[1] for x in g.subterms(p[3]) if x[0] == "V"}
    out = [(nm, kind, opt, t, (m if m is None or not ({x[1] for x in g.subterms(m) if x[0] == "V"} - have) else None))
           for (nm, kind, opt, t, m) in out]
    star = None if star is None else (star[0], self.clean(star[1]))
    sstar = None if sstar is None else (sstar[0], self.clean(sstar[1]))
    excs = []
    if r.random() < 0.25:
      excs = [("N", "p", ids.id(x)) for x in r.sample(["ValueError", "KeyError", "Foo.Error", "OSError"], r.choice([1, 1, 2]))]
    return ((out, star, sstar, self.clean(ret)), excs)

  def func(self, cls=None, nested=False):
    r, ids = self.r, self.ids
    kind = 0
    name = self.fresh("f")
    if cls is not None:
      kind = r.choice([0, 0, 0, 1, 2, 3])
      q = r.random()
      if q < 0.06:
        name, kind = ids.id("__new__"), 1
      elif q < 0.12:
        name, kind = ids.id("__init_subclass__"), 2
      elif q < 0.2:
        name, kind = ids.id("__init__"), 0
    first = None
    if cls is not None:
      first = {0: "self", 2: "cls", 3: "self"}.get(kind)
      if name == ids.id("__new__"):
        first = "cls"
    nsig = 1 if kind == 3 else r.choice([1, 1, 1, 2, 3])
    tcls = None if nested else cls
    if kind == 3:
      # a property getter: (self) -> T.  Unparametrised ones are re-read as Annotated constants, parametrised ones
      # get a second @property line (findings): generated only when listed
      ret = self.ty(1)
      param = any(x[0] == "V" for x in g.subterms(ret))
      if param and not self.fixed and "property-decorator-duplicated" not in self.known:
        ret = ("N", "p", ids.id("int"))
        param = False
      if not param and "property-method-reread-as-constant" not in self.known:
        kind, first = 0, "self"
      sigs = [(([(ids.id("self"), 1, 0, ("A",), None)], None, None, ret), [])]
    else:
      sigs = [self.fsig(tcls, first) for _ in range(nsig)]
    q = r.random()
    ab = int(q < 0.15)
    fin = int(0.15 <= q < 0.25)
    cor = int(0.25 <= q < 0.3)
    if kind == 3 and fin and FP_FINPROP not in self.known:
      fin = 0          # @final @property is re-printed as @property @final (proposed finding; generated once listed)
    decos = []
    if r.random() < 0.1:
      decos = [ids.id(r.choice(["mydeco", "other.deco"]))] * r.choice([1, 2])
    return (name, kind, ab, cor, fin, decos, sigs)

  def const(self, p="k"):
    return (self.fresh(p), int(self.r.random() < 0.3), self.ty())

  def klass(self, depth=0):
    r, ids = self.r, self.ids
    name = self.fresh("C")
    bases, kws = [], []
    k = r.random()
    if k < 0.15 and self.env:
      bases.append(("G", ("t", ids.id("Generic")), [("V", r.choice(self.env))]))
    elif k < 0.25 and len(self.env) >= 2:
      bases.append(("G", ("t", ids.id("Generic")), [("V", x) for x in r.sample(self.env, 2)]))
    elif k < 0.3 and self.env:
      bases += [("G", ("t", ids.id("Generic")), [("V", r.choice(self.env))]), ("N", "t", ids.id("Protocol"))]
    elif k < 0.45:
      bases.append(("G", ("p", ids.id("list")), [("N", "p", 10)]))
    elif k < 0.55:
      bases += [("N", "p", ids.id("Foo")), ("N", "p", ids.id("Bar"))]
    elif k < 0.62:
      bases.append(("N", "p", ids.id("object")))
    elif k < 0.66:
      bases += [("N", "p", ids.id("object")), ("N", "p", ids.id("Foo"))]
    if r.random() < 0.12:
      kws.append((ids.id("metaclass"), ("N", "p", ids.id("Meta"))))
    if r.random() < 0.08:
      kws.append((ids.id("total"), ("L", "b", False, r.random() < 0.5)))
    decos = []
    if r.random() < 0.15:
      decos = [ids.id("final")] * r.choice([1, 1, 2])
    elif r.random() < 0.05:
      decos = [ids.id("mydeco"), ids.id("final")]
    slots = r.choice([None, None, None, None, None, [], [], ['"x"'], ['"a"', '"b"', '"c"']])
    if slots is not None:
      slots = [ids.id(s) for s in slots]
    classes, consts, methods = [], [], []
    if r.random() >= 0.12:
      methods = [self.func(name, nested=depth > 0) for _ in range(r.choice([0, 1, 2, 3]))]
      seen = set()
      methods = [m for m in methods if not (m[0] in seen or seen.add(m[0]))]
      consts = [self.const("v") for _ in range(r.choice([0, 1, 2]))]
      if r.random() < 0.3:
        consts.append((self.fresh("p"), 0, ("An", self.ty(1), [ids.id("'property'")])))
      if depth < 2 and r.random() < 0.3:
        classes = [self.klass(depth + 1) for _ in range(r.choice([1, 1, 2]))]
    return (name, bases, kws, decos, slots, classes, consts, methods)

  def unit(self):
    r, ids = self.r, self.ids
    ntp = r.choice([0, 1, 2, len(self.tvars)])
    # every TypeVar of the environment is declared (the types may use any of them)
    tps = []
    for nm in self.tvars:
      cons, bound = [], None
      q = r.random()
      if q < 0.2:
        cons = [("N", "p", ids.id(x)) for x in r.sample(["int", "str", "bytes", "Foo"], 2)]
      elif q < 0.4:
        bound = self.clean(self.gen.ty(1, [], False))
        if any(x[0] in ("Z",) for x in g.subterms(bound)):
          bound = ("N", "p", ids.id("Foo"))
      tps.append((ids.id(nm), ids.id("'%s'" % nm), cons, bound))
    r.shuffle(tps)
    if r.random() < 0.2:
      # TypeVar-only unit: the typing names of the bounds/constraints occur nowhere else in the module
      tps2 = []
      for (nm, lit, cons, bound) in tps:
        q = r.random()
        tyc = lambda: self.clean(r.choice([
            ("G", ("t", 5), [("A",), ("N", "p", 10)]),                                  # Callable[..., int]
            ("G", ("t", ids.id("Sequence")), [("N", "p", 21)]),                         # Sequence[str]
            ("U", [("N", "p", 10), ("N", "p", 0)]),                                     # Optional[int]
            ("U", [("N", "p", 10), ("N", "p", 21)]),                                    # Union[int, str]
            ("Ca", ("t", 5), [("N", "p", 10), ("N", "p", 21)]),                         # Callable[[int], str]
            ("G", ("t", ids.id("Mapping")), [("N", "p", 21), ("A",)]),                  # Mapping[str, Any]
            ("L", "i", 3)]))                                                             # Literal[3]
        if q < 0.5:
          tps2.append((nm, lit, [], tyc()))
        elif q < 0.75:
          tps2.append((nm, lit, [tyc(), ("N", "p", ids.id("int"))], None))
        else:
          tps2.append((nm, lit, cons, bound))
      consts = [(self.fresh("k"), 0, ("N", "p", ids.id("int")))] if r.random() < 0.5 else []
      return (tps2, [], consts, [], [])
    aliases = []
    for _ in range(r.choice([0, 0, 1, 2])):
      t = self.ty(2)
      if t == ("N", "p", 0) and "alias-to-none-reread-as-constant" not in self.known:
        t = ("N", "p", ids.id("int"))
      if t[0] == "N" and (t[1] != "p" or "." in ids.s(t[2])):
        t = ("N", "p", ids.id("Foo"))          # an alias to a dotted name is an import (import bookkeeping: not modelled)
      aliases.append((self.fresh("A"), t))
    consts = [self.const() for _ in range(r.choice([0, 1, 2, 3]))]
    classes = [self.klass() for _ in range(r.choice([0, 1, 1, 2, 3]))]
    funcs = [self.func() for _ in range(r.choice([0, 1, 2, 3]))]
    return (tps, aliases, consts, classes, funcs)


def collapse_single(t):
  k = t[0]
  if k in ("G", "Tu", "Ca"):
    return (k, t[1], [collapse_single(p) for p in t[2]])
  if k == "U":
    ms = [collapse_single(p) for p in t[1]]
    return ms[0] if len(ms) == 1 else ("U", ms)
  if k == "An":
    return ("An", collapse_single(t[1]), t[2])
  return t


# ---------------------------------------------------------------------------------------------------
# the correspondence leg and the direct oracle for declarations and whole units

FP_PROP2 = "property-decorator-duplicated"
FP_PROPCONST = "property-method-reread-as-constant"
FP_ALIASNONE = "alias-to-none-reread-as-constant"
FP_FINPROP = "final-property-decorator-order"


PROBE = "from typing import TypeVar\nT = TypeVar('T')\nclass A:\n    @property\n    def y(self) -> T: ...\n"


def probe_fixed(impl):
  """Which variant of VisitFunction does the tree under test implement?  (reproducer of property-decorator-duplicated)"""
  try:
    return impl.print(impl.parse(PROBE)).count("@property") == 1
  except Exception:  # pylint: disable=broad-except
    return False


def unit_features(ids, u, fixed=False):
  """Which listed findings a generated unit triggers (computed on the generated term, independent of the model)."""
  f = set()
  def funcs(fs, in_class):
    for fn in fs:
      if fn[1] == 3:
        param = any(any(x[0] == "V" for x in g.subterms(s[0][3])) or (s[0][0] and s[0][0][0][3] != ("A",)) for s in fn[6])
        if not param:
          f.add(FP_PROPCONST)
        elif not fixed:
          f.add(FP_PROP2)
        if param and fn[4]:
          f.add(FP_FINPROP)
  def klass(c):
    funcs(c[7], True)
    for x in c[5]:
      klass(x)
  funcs(u[4], False)
  for c in u[3]:
    klass(c)
  if any(a[1] in (("N", "p", 0), ("N", "b", 0)) for a in u[1]):
    f.add(FP_ALIASNONE)
  return f


def typing_names_not_imported(ids, text):
  """Direct oracle: every member of `typing` (per the harness's id table) that occurs as a NAME token in the stub's
  declarations is imported by the stub's own `from typing import ...` line (or `import typing` is present)."""
  ls = text.split("\n")
  imported = set()
  for l in ls:
    if l.startswith("from typing import "):
      for x in l[len("from typing import "):].split(","):
        x = x.strip()
        imported.add(x.split(" as ")[-1].strip())
    if l.strip() == "import typing":
      return []
  body = strip_imports(text)
  used = set()
  try:
    for w in g.tokenise(ids, body):
      if w.startswith("n"):
        i = int(w[1:])
        if g.is_typing_id(i):
          used.add(ids.s(i))
  except Exception:  # pylint: disable=broad-except
    return []
  return sorted(used - imported)


def check_units(res, model, impl, ids, dg, n_units, hist, report, unknown_violation, disagree, helpers):
  """helpers: oracle_text, explain_diff, diff_causes, err_cause from c05.py"""
  oracle_text, explain_diff, diff_causes, err_cause = helpers
  units = []
  for _ in range(n_units):
    u = dg.unit()
    try:
      a = unit_to_pytd(ids, u)
    except AssertionError:
      continue
    units.append((u, a))
  fixed = dg.fixed
  outs = model.run([" ".join(ser_unit(u, ["U", str(int(fixed))])) for u, _ in units])
  n_wf = 0
  for (u, a), mo in zip(units, outs):
    if mo.startswith("ERROR"):
      disagree("decl-model-error", mo[:200])
      continue
    mstmts, mparse, mnorm, wf, mstmts2, mparse2, mstable = [p.strip() for p in mo.split("|")]
    mstmts, mstmts2 = canon(parse_stmts_words(mstmts)), canon(parse_stmts_words(mstmts2))
    mparse, mnorm, mparse2 = canon(parse_unit_words(mparse)), canon(parse_unit_words(mnorm)), canon(parse_unit_words(mparse2))
    try:
      text = impl.print(a)
    except Exception as e:  # pylint: disable=broad-except
      disagree("decl-print-exception", repr(e)[:200])
      continue
    body = strip_imports(text)
    rstmts = canon(text_to_stmts(ids, body))
    res.count(("unit", body))
    hist["unit:classes=%d" % min(len(u[3]), 3)] += 1
    for sec, nm in zip(u, ("tparams", "aliases", "consts", "classes", "funcs")):
      if sec:
        hist["unit:has-" + nm] += 1
    if len(res.samples) < 6 and 60 < len(body) < 400 and u[3] and u[4]:
      res.sample({"unit_printed": body})
    if rstmts != mstmts:
      disagree("unit-lines", "real=%r model=%r text=%s" % (first_diff(rstmts, mstmts), None, body[:400]))
    missing = typing_names_not_imported(ids, text)
    if missing:
      hist["unit:typing-name-not-imported"] += 1
      where = "typevar-bound-or-constraint" if any(
          re.search(r"\b%s\b" % m, l) for m in missing for l in body.split("\n") if "= TypeVar(" in l) else "declaration"
      unknown_violation("typing-name-not-imported:" + where,
                        "typing names used in the printed unit are missing from its import line: %s" % missing,
                        {"kind": "stub", "text": text})
    o = oracle_text(impl, text)
    tb = None
    if o["parse"]:
      try:
        tb = canon(unit_from_pytd(ids, o["ast"]))
      except g.Unsupported:
        tb = "?"
    if tb != "?" and rstmts == mstmts and tb != mparse:
      disagree("unit-parse", "text=%s\nreal=%r\nmodel=%r err=%s" % (body[:500], first_diff(tb, mparse), None, o["err"]))
    feats = unit_features(ids, u, fixed)
    if wf == "1":
      n_wf += 1
      hist["unit:wf"] += 1
      if mnorm != mparse:
        disagree("unit-norm", "parse(print u) <> norm u in the model: %s" % body[:300])
      if o["parse"] and o["text2"] is not None and tb != "?":
        rstmts2 = canon(text_to_stmts(ids, strip_imports(o["text2"])))
        # monitor of print_unit_fixed_point_partial: stable_unit implies the real text fixed point (declarations part)
        if mstable == "1":
          hist["unit:stable"] += 1
          if strip_imports(o["text2"]).rstrip("\n") != body.rstrip("\n"):
            disagree("stable_unit-not-sufficient", "text=%s\nreprinted=%s" % (body[:600], strip_imports(o["text2"])[:600]))
        if rstmts2 != mstmts2:
          disagree("unit-reprint", "text=%s\ndiff=%r" % (body[:400], first_diff(rstmts2, mstmts2)))
        else:
          # the second generation: does the real reader accept it, and as what
          o2 = oracle_text(impl, o["text2"])
          tb2 = None
          if o2["parse"]:
            try:
              tb2 = canon(unit_from_pytd(ids, o2["ast"]))
            except g.Unsupported:
              tb2 = "?"
          if tb2 != "?" and tb2 != mparse2:
            disagree("unit-parse2", "text2=%s\ndiff=%r err=%s" % (o["text2"][:400], first_diff(tb2, mparse2), o2["err"]))
          if not o2["parse"] and FP_PROP2 not in feats:
            unknown_violation("reprinted-stub-does-not-parse:" + err_cause(o2["err"]),
                              "the re-printed stub is rejected by the reader: " + str(o2["err"]),
                              {"kind": "stub", "text": o["text2"]})
    elif not feats:
      hist["unit:not-wf"] += 1
    # ---- direct oracle on the implementation ----
    if not o["parse"]:
      unknown_violation("stub-does-not-parse:" + err_cause(o["err"]), "a printed dialect unit is rejected by the reader: " + str(o["err"]),
                        {"kind": "stub", "text": text})
      continue
    if not o["verify"]:
      unknown_violation("stub-verify:" + err_cause(o["err"]), "VerifyVisitor rejects the re-read stub: " + str(o["err"]), {"kind": "stub", "text": text})
    # structural oracle (independent of the model): names, kinds and flags of the functions, and the number of their
    # signatures and exceptions, survive the round trip (a property becomes a constant: listed findings)
    if tb not in (None, "?"):
      def fmap(fs):
        return {f[0]: (f[1], f[2], f[3], f[4], len(f[6]), tuple(len(s[1]) for s in f[6])) for f in fs}
      def cmp_funcs(path, fs_u, fs_b):
        mu, mb = fmap(fs_u), fmap(fs_b)
        for nm, v in mu.items():
          if v[0] == 3:
            continue
          if nm not in mb:
            unknown_violation("decl-diff:function-lost", "a printed function is missing after re-reading: %s.%s" % (path, ids.s(nm)),
                              {"kind": "stub", "text": text})
          elif mb[nm] != v:
            what = "kind" if mb[nm][0] != v[0] else "flags" if mb[nm][1:4] != v[1:4] else "signatures-or-exceptions"
            unknown_violation("decl-diff:function-" + what, "re-read function differs structurally from the printed one: %s.%s printed=%r reread=%r"
                              % (path, ids.s(nm), v, mb[nm]), {"kind": "stub", "text": text})
      def cmp_cls(path, cu, cb):
        cmp_funcs(path + "." + ids.s(cu[0]), cu[7], cb[7])
        mb = {x[0]: x for x in cb[5]}
        for x in cu[5]:
          if x[0] in mb:
            cmp_cls(path + "." + ids.s(cu[0]), x, mb[x[0]])
      cmp_funcs("<module>", u[4], tb[4])
      mbc = {x[0]: x for x in tb[3]}
      for cu in u[3]:
        if cu[0] in mbc:
          cmp_cls("", cu, mbc[cu[0]])
        else:
          unknown_violation("decl-diff:class-lost", "a printed class is missing after re-reading: " + ids.s(cu[0]), {"kind": "stub", "text": text})
    if not o["fix"]:
      fps, unexpl = explain_diff(text, o["text2"] or "")
      t1, t2 = strip_imports(text).split("\n"), strip_imports(o["text2"] or "").split("\n")
      mine = set()
      if FP_PROP2 in feats or FP_PROPCONST in feats or FP_ALIASNONE in feats or FP_FINPROP in feats:
        mine = feats & {FP_PROP2, FP_PROPCONST, FP_ALIASNONE, FP_FINPROP}
        unexpl = []
      if unexpl or not (fps or mine):
        for cause in diff_causes(unexpl)[:2]:
          unknown_violation("stub-diff:" + cause, "re-printing the re-read unit changes it", {"kind": "stub", "text": text, "reprinted": o["text2"]})
      for fp in sorted(fps | mine):
        report(fp, "re-printing the re-read unit changes it", {"kind": "stub", "text": text, "reprinted": o["text2"]})
  return len(units), n_wf


def first_diff(a, b, path=()):
  if type(a) is not type(b) or not isinstance(a, tuple):
    return (path, a, b) if a != b else None
  if len(a) != len(b):
    return (path, "len", len(a), len(b), a[:6], b[:6])
  for i, (x, y) in enumerate(zip(a, b)):
    d = first_diff(x, y, path + (i,))
    if d is not None:
      return d
  return None
