"""C15 (a) — the compile-error path end to end: translator pieces, generators, correspondence legs, oracle.

Model: coq/Io/Compile.v (re_match / compile_error_init / native_output / from_output / syntax_error_str).
Real code: pytype/pyc/compiler.py (CompileError.__init__, _COMPILE_ERROR_RE, the first-byte dispatch of
compile_src_string_to_pyc_string), pytype/pyc/compile_bytecode.py (compile_src_to_pyc), pytype/pyc/pyc.py
(compile_src), pytype/io.py (check_or_generate_pyi) and, on the hypothesis side, CPython's SyntaxError.__str__.
"""
import ast
import os
import re
import sys
import unicodedata
import warnings

import common

SCRATCH = os.path.join(common.BUILD, "c15", "compile", "p%d" % os.getpid())

EXPECTED_RE = r"^(.*) \((.*), line (\d+)\)$"
INIT_TEXT = (
    "def __init__(self, msg):\n"
    "    super().__init__(msg)\n"
    "    match = _COMPILE_ERROR_RE.match(msg)\n"
    "    if match:\n"
    "        self.error = match.group(1)\n"
    "        self.filename = match.group(2)\n"
    "        self.line = int(match.group(3))\n"
    "    else:\n"
    "        self.error = msg\n"
    "        self.filename = None\n"
    "        self.line = 1")
TO_PYC_TEXT = (
    "def compile_src_to_pyc(src, filename, output, mode):\n"
    "    try:\n"
    "        codeobject = compile(src, filename, mode)\n"
    "    except Exception as err:\n"
    "        output.write(b'\\x01')\n"
    "        output.write(str(err).encode('utf-8'))\n"
    "    else:\n"
    "        output.write(b'\\x00')\n"
    "        write_pyc(output, codeobject)")
NATIVE_TEST = "can_compile_bytecode_natively(python_version)"
NATIVE_BODY = (
    "output = io.BytesIO()\n"
    "compile_bytecode.compile_src_to_pyc(src, filename or '<>', output, mode)\n"
    "bytecode = output.getvalue()")
DISPATCH_TEXT = (
    "first_byte = bytecode[0]\n"
    "if first_byte == 0:\n"
    "    return bytecode[1:]\n"
    "elif first_byte == 1:\n"
    "    code = bytecode[1:]\n"
    "    raise CompileError(utils.native_str(code))\n"
    "else:\n"
    "    raise OSError('_compile.py produced invalid result')")
NATIVE_STR_TEXT = (
    "def native_str(s: str | bytes, errors: str='strict') -> str:\n"
    "    if isinstance(s, str):\n"
    "        return s\n"
    "    else:\n"
    "        return s.decode('utf-8', errors)")


class TranslatorError(Exception):
  pass


def _nodoc(body):
  return [n for n in body if not (isinstance(n, ast.Expr) and isinstance(n.value, ast.Constant) and isinstance(n.value.value, str))]


def _fn(path, name, cls=None):
  tree = ast.parse(open(path).read())
  body = tree.body
  if cls:
    cs = [n for n in body if isinstance(n, ast.ClassDef) and n.name == cls]
    if len(cs) != 1:
      raise TranslatorError(f"{path}: expected exactly one class {cls}")
    body = cs[0].body
  fs = [n for n in body if isinstance(n, ast.FunctionDef) and n.name == name]
  if len(fs) != 1:
    raise TranslatorError(f"{path}: expected exactly one def {name}")
  f = fs[0]
  f.body = _nodoc(f.body)
  return f


def _same(label, got, want):
  if got != want:
    raise TranslatorError(f"{label} no longer has the modelled shape:\n{got}\n-- modelled --\n{want}")


def translate_compile():
  """Fail-closed reading of the compile-error path.  Returns {"nd": [block starts], "maxd": int}."""
  from pytype.pyc import compiler
  repo = common.REPO
  pat = compiler._COMPILE_ERROR_RE  # pylint: disable=protected-access
  if pat.pattern != EXPECTED_RE or pat.flags != re.UNICODE:
    raise TranslatorError(f"compiler._COMPILE_ERROR_RE is {pat.pattern!r} flags={pat.flags}; modelled: {EXPECTED_RE!r} flags={int(re.UNICODE)}")
  if compiler.CompileError.__mro__[1] is not Exception:
    raise TranslatorError("compiler.CompileError no longer derives directly from Exception")
  _same("compiler.CompileError.__init__", ast.unparse(_fn(os.path.join(repo, "pytype/pyc/compiler.py"), "__init__", "CompileError")), INIT_TEXT)
  _same("compile_bytecode.compile_src_to_pyc", ast.unparse(_fn(os.path.join(repo, "pytype/pyc/compile_bytecode.py"), "compile_src_to_pyc")), TO_PYC_TEXT)
  f = _fn(os.path.join(repo, "pytype/pyc/compiler.py"), "compile_src_string_to_pyc_string")
  if not (len(f.body) >= 2 and isinstance(f.body[0], ast.If)):
    raise TranslatorError("compile_src_string_to_pyc_string: expected `if can_compile_bytecode_natively(..)` first")
  _same("compile_src_string_to_pyc_string: native test", ast.unparse(f.body[0].test), NATIVE_TEST)
  _same("compile_src_string_to_pyc_string: native branch", "\n".join(ast.unparse(n) for n in f.body[0].body), NATIVE_BODY)
  _same("compile_src_string_to_pyc_string: first-byte dispatch", "\n".join(ast.unparse(n) for n in f.body[1:]), DISPATCH_TEXT)
  _same("utils.native_str", ast.unparse(_fn(os.path.join(repo, "pytype/utils.py"), "native_str")), NATIVE_STR_TEXT)
  pyc_src = open(os.path.join(repo, "pytype/pyc/pyc.py")).read()
  if "CompileError = compiler.CompileError" not in pyc_src or "compiler.compile_src_string_to_pyc_string(" not in pyc_src:
    raise TranslatorError("pyc.py no longer re-exports compiler.CompileError / calls compile_src_string_to_pyc_string")
  return digit_table()


def digit_table():
  """The class `\\d` matches in a str pattern and int()'s digit values (independent of pytype's source)."""
  # blocks of ten consecutive code points
  allchars = "".join(chr(c) for c in range(0x110000) if not 0xD800 <= c <= 0xDFFF)
  digits = [ord(ch) for ch in re.findall(r"\d", allchars)] + [c for c in range(0xD800, 0xE000) if re.fullmatch(r"\d", chr(c))]
  nd = [c for c in range(0x110000) if unicodedata.category(chr(c)) == "Nd"]
  if sorted(digits) != nd:
    raise TranslatorError("re's \\d and unicodedata category Nd disagree")
  if len(nd) % 10:
    raise TranslatorError("Nd characters do not come in blocks of ten")
  starts = nd[::10]
  for i, s in enumerate(starts):
    blk = nd[10 * i:10 * i + 10]
    if blk != list(range(s, s + 10)) or any(int(chr(c)) != c - s or unicodedata.decimal(chr(c)) != c - s for c in blk):
      raise TranslatorError(f"Nd block at U+{s:04X} is not ten consecutive digits 0..9")
  if starts[0] != 48:
    raise TranslatorError("first Nd block is not ASCII 0-9")
  return {"nd": starts, "maxd": sys.get_int_max_str_digits()}


def coq_lines(info):
  out = []
  out.append("(* `\\d` (Unicode Nd) as starts of blocks of ten consecutive digits 0..9; sys.get_int_max_str_digits() *)")
  out.append("Definition nd_block_starts : list N := [%s]%%N." % "; ".join(str(s) for s in info["nd"]))
  out.append("Definition int_max_str_digits : nat := %d." % info["maxd"])
  return out


# =========================================================================================
# helpers

def cl(s):
  return "[" + "; ".join(str(ord(c)) for c in s) + "]"


def copt(s):
  return "None" if s is None else f"(Some {cl(s)})"


CASES_HEADER = (
    "From Coq Require Import List Bool Arith NArith ZArith.\n"
    "From PV Require Import Directors.Model Io.ErrLine.\n"
    "From PV Require Import Io.Model Io.Compile Generated.C15_Handlers.\n"
    "Import ListNotations.\nLocal Open Scope N_scope.\n"
    "Fixpoint leqb (a b : list N) : bool := match a, b with [], [] => true | x :: a', y :: b' => (x =? y) && leqb a' b' | _, _ => false end.\n"
    "Fixpoint bad_idx {A} (f : A -> bool) (i : nat) (l : list A) : list nat := match l with [] => [] | x :: t => (if f x then [] else [i]) ++ bad_idx f (S i) t end.\n"
    "Definition ce_eqb (a b : list N * list N * N * N) : bool := match a, b with (e1, f1, l1, t1), (e2, f2, l2, t2) => leqb e1 e2 && leqb f1 f2 && (l1 =? l2) && (t1 =? t2) end.\n"
    "Definition pyc_eqb (a b : N * N) : bool := (fst a =? fst b) && (snd a =? snd b).\n"
    "Definition maxd := int_max_str_digits.\nDefinition nd := nd_block_starts.\n")


def real_init(msg):
  """(error, filename-or-'', line, tag) of the real CompileError(msg); tag 1 matched / 0 fallback / 2 ValueError."""
  from pytype.pyc import compiler
  try:
    e = compiler.CompileError(msg)
  except ValueError:
    return ("", "", 0, 2)
  if e.filename is None:
    return (e.error, "", e.line, 0)
  return (e.error, e.filename, e.line, 1)


def enc_ce(t):
  return f"({cl(t[0])}, {cl(t[1])}, {t[2]}, {t[3]})"


class Batch:
  """All cases of the new legs go into ONE cases file (one coqc start-up): each leg adds definitions and Evals that
  print the indices of disagreeing cases, and a callback that turns them into its obligation."""

  def __init__(self, header=CASES_HEADER):
    self.header = header
    self.parts = []
    self.legs = []     # (name, n_evals, callback)

  def add(self, name, defs, evals, callback):
    self.parts.append(defs + "".join(f"Eval vm_compute in ({e}).\n" for e in evals))
    self.legs.append((name, len(evals), callback))

  def run(self, res, fname="c15_batch"):
    if not self.legs:
      return
    ok, out = common.run_cases_v(fname, self.header + "".join(self.parts))
    terms = common.parse_coq_eval(out) if ok else []
    want = sum(n for _, n, _ in self.legs)
    if not ok or len(terms) != want:
      for name, _, cb in self.legs:
        cb(None, "cases file failed: " + out[-1500:])
      return
    k = 0
    for name, n, cb in self.legs:
      mine = terms[k:k + n]
      k += n
      cb([[int(x) for x in re.findall(r"\d+", t)] for t in mine], "")


# =========================================================================================
# leg 1: generated messages through the real CompileError.__init__ vs compile_error_init

DIGIT_SCRIPTS = ["0123456789", "٠١٢٣٤٥٦٧٨٩", "०१२३४५६७८९", "𝟎𝟏𝟐𝟑𝟒𝟓𝟔𝟕𝟖𝟗", "０１２３４５６７８９"]
MSGS = ["invalid syntax", "'return' outside function", "unterminated string literal (detected at line 3)",
        "invalid character '（' (U+FF08)", "name 'x' is parameter and global", "'(' was never closed", "", "x", "é (", " (",
        "no binding for nonlocal 'q' found", "f-string: expecting '}'", "a, line 4)", "too many statically nested blocks"]
FILES = ["f.py", "<>", "a b.py", "input.py", "", "a (b, line 7).py", "ü.py", "x, line 9", "(", " (", "<string>", "a(b).py", "é (x"]


def gen_digits(r, maxd):
  k = r.random()
  if k < .55:
    return str(r.choice([0, 1, 2, 3, 7, 9, 10, 12, 42, 99, 100, 1234, r.randint(0, 5000), 2**31 - 1, 10**20 + 7]))
  if k < .65:
    return "0" * r.randint(1, 4) + str(r.randint(0, 300))
  if k < .8:
    sc = r.choice(DIGIT_SCRIPTS[1:])
    return "".join(sc[int(ch)] for ch in str(r.randint(0, 5000)))
  if k < .9:
    return "".join(r.choice(DIGIT_SCRIPTS)[r.randint(0, 9)] for _ in range(r.randint(1, 6)))
  if k < .95:
    return ""
  return r.choice(["-1", "1_0", "+3", " 4", "4 ", "1.0", "１２a", "²", "½", "一"])


def gen_message(r, maxd):
  """A compiler message: mostly the well-formed shape, then edits that make it malformed in every way the pattern cares about."""
  E = r.choice(MSGS)
  F = r.choice(FILES)
  d = gen_digits(r, maxd)
  msg = f"{E} ({F}, line {d})"
  label = "wellformed"
  k = r.random()
  if k < .45:
    pass
  elif k < .52:
    msg += "\n"; label = "final-newline"
  elif k < .56:
    msg += r.choice(["\n\n", " ", "\n ", "\r", "\r\n", ")", "\n)"]); label = "trailing-junk"
  elif k < .64:
    i = r.randint(0, len(msg)); msg = msg[:i] + "\n" + msg[i:]; label = "newline-inside"
  elif k < .70:
    i = r.randint(0, len(msg)); msg = msg[:i] + r.choice(["\r", "\x0b", "\x0c", "\x1c", "\x85", "\u2028", "\x00"]) + msg[i:]; label = "other-line-separator-inside"
  elif k < .76:
    msg = f"{E} ({F})"; label = "no-lineno"
  elif k < .82:
    msg = f"{E} (line {d})"; label = "no-filename"
  elif k < .86:
    msg = E; label = "bare"
  elif k < .93:
    # drop / double one character of the separators
    seps = [m.start() for m in re.finditer(r" \(|, line |\)$", msg)]
    if seps:
      i = min(r.choice(seps) + r.randint(0, 1), len(msg) - 1)
      msg = msg[:i] + (msg[i + 1:] if r.random() < .6 else msg[i] + msg[i:]); label = "separator-edit"
  else:
    toks = [" (", ", line ", ")", "(", " ", ",", "line", "1", "٣", "\n", "x", "-", ", line 5)", " (f, line 6)"]
    msg = "".join(r.choice(toks) for _ in range(r.randint(0, 9))); label = "token-soup"
  return msg, label


def correspondence_init(res, r, n_cases, info, batch):
  maxd = info["maxd"]
  cases = []
  labels = {}
  n_viol = 0
  fixed = [("", "empty"), ("\n", "only-newline"),
           (" (, line 0)", "empty-groups"), ("(, line 0)", "no-space"), ("a (b (c, line 1), line 2)", "nested"),
           ("invalid syntax (a\nb.py, line 3)", "newline-in-filename")] if maxd else []
  for msg, label in fixed + [gen_message(r, maxd) for _ in range(n_cases)]:
    got = real_init(msg)
    cases.append((msg, got))
    labels[label] = labels.get(label, 0) + 1
    labels[f"tag{got[3]}"] = labels.get(f"tag{got[3]}", 0) + 1
    # direct oracle on the real code, independent of the model: a text of the exact well-formed shape with ASCII
    # digits must give that line (python's own int) and must split at the LAST " (" before ", line "
    m = re.fullmatch(r"([^\n]*) \(([^\n]*), line ([0-9]+)\)\n?", msg)
    if m and len(m.group(3)) <= maxd:
      head = msg[:m.start(3) - len(", line ")]
      cut = head.rfind(" (")
      want = (head[:cut], head[cut + 2:], int(m.group(3)), 1)
      if got != want and n_viol < 3:
        n_viol += 1
        res.violation("compile-error-message:parse", f"CompileError({msg!r}) gives {got}, the message says {want}",
                      {"kind": "compile-message", "msg": msg})
    res.count(("ce-init", msg) if got[3] == 1 else None)
  defs = ("Definition ce_cases : list (list N * (list N * list N * N * N)) := [\n  " +
          ";\n  ".join(f"({cl(m)}, {enc_ce(g)})" for m, g in cases) + "].\n")
  # int()'s digit limit: long digit runs are built inside Coq (a 4300-digit literal is slow to read); the line is
  # compared modulo a prime
  P = 1000000007
  big = []
  for digit, count in ([("1", maxd), ("1", maxd + 1), ("0", maxd + 1), ("٣", maxd + 1)] if maxd else [("1", 5000)]):
    got = real_init("x (f, line " + digit * count + ")")
    big.append((ord(digit), count, got[3], got[2] % P))
    labels["int-limit"] = labels.get("int-limit", 0) + 1
    want_tag = 2 if maxd and count > maxd else 1
    if got[3] != want_tag:
      res.violation("compile-error-message:int-limit", f"CompileError with {count} digits: tag {got[3]}, expected {want_tag}", {"kind": "compile-message", "msg": "x (f, line " + digit * count + ")"})
  defs += ("Definition big_cases : list (N * nat * N * N) := [" + "; ".join(f"({d}, {c}%nat, {t}, {m})" for d, c, t, m in big) + "].\n"
           f"Definition big_ok (c : N * nat * N * N) : bool := match c with (d, n, t, m) => "
           f"match encode_ce (compile_error_init nd maxd ({cl('x (f, line ')} ++ repeat d n ++ [41])) with (_, _, l, t') => (t' =? t) && (l mod {P} =? m) end end.\n")

  def done(bad, err):
    ok = bad is not None and not bad[0] and not bad[1]
    res.obligation("correspondence:compile_error_init-model-vs-compiler.CompileError", ok,
                   err or repr([cases[i] for i in bad[0][:3]] + [big[i] for i in bad[1][:3]])[:1500])
  batch.add("ceinit", defs, ["bad_idx (fun c => ce_eqb (encode_ce (compile_error_init nd maxd (fst c))) (snd c)) 0%nat ce_cases",
                             "bad_idx big_ok 0%nat big_cases"], done)
  res.extra["compile_message_cases"] = {"n": len(cases), "labels": dict(sorted(labels.items()))}
  return len(cases)


# =========================================================================================
# leg 2: the compile step (compile_src_to_pyc + first-byte dispatch) with injected compile() results

class _Boom(Exception):
  pass


def real_pipeline_exc(text):
  """compile() raises an exception whose str() is `text`; returns (tag, line) as encode_pyc."""
  from pytype.pyc import compile_bytecode, compiler

  def fake_compile(src, filename, mode):  # pylint: disable=unused-argument
    raise _Boom(text)
  compile_bytecode.compile = fake_compile
  try:
    return _classify(lambda: compiler.compile_src_string_to_pyc_string("x = 1\n", "f.py", sys.version_info[:2], None))
  finally:
    del compile_bytecode.compile


def real_pipeline_bytes(data):
  """the compile script's output is `data`; returns (tag, line)."""
  from pytype.pyc import compile_bytecode, compiler
  saved = compile_bytecode.compile_src_to_pyc

  def fake(src, filename, output, mode):  # pylint: disable=unused-argument
    output.write(data)
  compile_bytecode.compile_src_to_pyc = fake
  try:
    return _classify(lambda: compiler.compile_src_string_to_pyc_string("x = 1\n", "f.py", sys.version_info[:2], None))
  finally:
    compile_bytecode.compile_src_to_pyc = saved


def _classify(thunk):
  from pytype.pyc import compiler
  try:
    thunk()
    return (0, 0)
  except compiler.CompileError as e:
    return (1, e.line)
  except UnicodeEncodeError:
    return (3, 0)
  except UnicodeDecodeError:
    return (4, 0)
  except ValueError:
    return (2, 0)
  except IndexError:
    return (6, 0)
  except OSError:
    return (5, 0)


def correspondence_pipeline(res, r, info, batch):
  maxd = info["maxd"]
  ev_cases = []      # (coq event term, real)
  out_cases = []     # (coq output term, real)
  texts = ["invalid syntax (f.py, line 3)", "x (caf\udce9.py, line 3)", "\udc80", "no location",            "'return' outside function (a\nb.py, line 3)", "x (f, line ٤٢)", ""]
  for _ in range(40):
    texts.append(gen_message(r, maxd)[0])
  for t in texts:
    ev_cases.append((f"CompExc {cl(t)}", real_pipeline_exc(t)))
  # compile() returning normally: the real compile_src_to_pyc writes b"\0" + a pyc
  from pytype.pyc import compiler
  ev_cases.append(("CompOk", _classify(lambda: compiler.compile_src_string_to_pyc_string("x = 1\n", "f.py", sys.version_info[:2], None))))
  datas = [b"", b"\x00", b"\x00abc", b"\x01", b"\x01x (f, line 5)", b"\x01\xff\xfe", b"\x01x (f, line 5)\xc3", b"\x02", b"\xffx (f, line 5)",
           b"\x01" + "é (ü, line ٣)".encode("utf-8"), b"\x03\x01"]
  for d in datas:
    if not d:
      term = "OutEmpty"
    else:
      try:
        payload = d[1:].decode("utf-8")
      except UnicodeDecodeError:
        payload = None
      term = f"Out {d[0]} {copt(payload)}"
    out_cases.append((term, real_pipeline_bytes(d)))
  defs = ("Definition ev_cases : list (compile_event * (N * N)) := [\n  " +
          ";\n  ".join(f"({t}, ({g[0]}, {g[1]}))" for t, g in ev_cases) + "].\n"
          "Definition out_cases : list (output * (N * N)) := [\n  " +
          ";\n  ".join(f"({t}, ({g[0]}, {g[1]}))" for t, g in out_cases) + "].\n")

  def done(bad, err):
    ok = bad is not None and not bad[0] and not bad[1]
    res.obligation("correspondence:compile_native/from_output-model-vs-compile_src_string_to_pyc_string", ok,
                   err or repr([ev_cases[i] for i in bad[0][:3]] + [out_cases[i] for i in bad[1][:3]])[:1500])
  batch.add("pipeline", defs,
            ["bad_idx (fun c => pyc_eqb (encode_pyc (compile_native nd maxd (fst c))) (snd c)) 0%nat ev_cases",
             "bad_idx (fun c => pyc_eqb (encode_pyc (from_output nd maxd (fst c))) (snd c)) 0%nat out_cases"], done)
  tags = {}
  for _, g in ev_cases + out_cases:
    tags[g[0]] = tags.get(g[0], 0) + 1
    res.count(("pipeline", _) if g[0] else None)
  res.extra["compile_pipeline_cases"] = {"n": len(ev_cases) + len(out_cases), "by_result_tag": tags}


# =========================================================================================
# leg 3: the producer - CPython's SyntaxError.__str__ vs syntax_error_str

def correspondence_syntax_str(res, r, n_cases, batch):
  cases = []
  for i in range(n_cases):
    msg = r.choice(MSGS)
    fn = r.choice([None, "f.py", "/a/b/f.py", "a/", "dir with space/g h.py", "a\nb.py", "x (y.py", "/", "//", "a/b (c/d.py", "", "ü/é.py", "back\\slash.py"])
    ln = r.choice([None, 0, 1, 3, 12, 1234, 2**31 - 1, -1, -12, r.randint(0, 99999)])
    e = SyntaxError(msg, (fn, ln, 1, "text"))
    if e.filename != fn or e.lineno != ln:
      continue
    got = str(e)
    cases.append((msg, fn, None if ln is None else str(ln), got))
    res.count(("syntax-str", msg, fn, ln) if fn is not None and ln is not None else None)
  defs = ("Definition ss_cases : list (list N * option (list N) * option (list N) * list N) := [\n  " +
          ";\n  ".join(f"({cl(m)}, {copt(f)}, {copt(l)}, {cl(g)})" for m, f, l, g in cases) + "].\n")

  def done(bad, err):
    ok = bad is not None and not bad[0]
    res.obligation("correspondence:syntax_error_str-model-vs-CPython-SyntaxError.__str__", ok,
                   err or repr([cases[i] for i in bad[0][:3]])[:1500])
  batch.add("syntaxstr", defs, ["bad_idx (fun c => match c with (m, f, l, g) => leqb (syntax_error_str m f l) g end) 0%nat ss_cases"], done)
  res.extra["syntax_error_str_cases"] = len(cases)


# =========================================================================================
# leg 4: real uncompilable sources: CPython vs pyc.compile_src vs the model vs io.check_or_generate_pyi

# statements that ast.parse accepts and compile() rejects (symtable / code generator); each candidate is
# verified before use, so a CPython that moves one of them into the parser just drops it from the set
COMPILE_STAGE = [
    "return 5", "break", "continue", "nonlocal q", "yield 1", "await x", "x = 1\nglobal x", "print(x)\nglobal x",
    "from __future__ import nope", "x = 1\nfrom __future__ import annotations", "def f(a, a): pass",
    "def f():\n    nonlocal q", "def f(q):\n    global q", "def f():\n    from m import *", "class C:\n    return 1",
    "async def f():\n    yield 1\n    return 2", "def f():\n    [await x for x in y]", "def f():\n    async with a: pass",
    "def f():\n    async for a in b: pass", "match x:\n    case _: pass\n    case 1: pass",
    "match x:\n    case y: pass\n    case 1: pass", "match x:\n    case [a] | [b]: pass", "match x:\n    case [a, a]: pass",
    "a, *b, *c = x", "*a = x", "def f():\n    x: int = 1\n    global x", "try:\n    pass\nexcept* E:\n    break",
    "try:\n    pass\nexcept:\n    pass\nexcept E:\n    pass", "[x for x in y if (x := 1)]", "class C:\n    [y := 1 for x in z]",
    "def f():\n    x = 1\n    nonlocal x", "lambda: (yield)\nyield", "def f(x=(yield)): pass", "class C(await z): pass",
    "f(\n  1,\n  (yield),\n)", "def g():\n    def f():\n        nonlocal zz", "x = (\n    1 +\n    (await y)\n)",
    "def f():\n    return [\n        (yield)\n        for x in y\n    ]", "def f(*, a, a): pass", "lambda a, a: 0",
    "for x in y:\n    pass\nelse:\n    continue", "while x:\n    def f():\n        break", "def f():\n    class C:\n        nonlocal f\n    f = 1",
    "type X = (yield)", "def f[T](x: (yield)): pass", "class C[T]((yield)): pass",
    "for a in b:\n" + "".join(" " * (2 * i + 2) + "for a in b:\n" for i in range(20)) + " " * 44 + "pass",
]
PADDING = ["a{k} = {k}", "# comment {k}", "", "def pad{k}():\n    return {k}", "s{k} = '''\n{k}\n'''", "if a0:\n    b{k} = 1"]
E2E_FILENAMES = ["f.py", "a b.py", "ü.py", "a(b).py", "x.line 9.py", "mod.v2.py"]
QUIRK_FILENAMES = ["a (b, line 7).py", "a\nb.py", os.fsdecode(b"caf\xe9.py")]


def compile_stage_templates():
  ok = []
  with warnings.catch_warnings():
    warnings.simplefilter("ignore")
    for t in COMPILE_STAGE:
      try:
        ast.parse(t)
      except SyntaxError:
        continue
      try:
        compile(t, "f.py", "exec", dont_inherit=True)
      except SyntaxError:
        ok.append(t)
  return ok


def gen_source(r, templates):
  parts = ["a0 = 0"]
  k = r.choice([0, 0, 1, 2, 3, 5, 8, 9, 10, 11, 30, 99, 120])
  for i in range(k):
    parts.append(r.choice(PADDING).format(k=i + 1))
  if r.random() < .1:
    parts.append("\n" * r.choice([100, 1000, 4000]))
  parts.append(r.choice(templates))
  for i in range(r.choice([0, 0, 1, 3])):
    parts.append(r.choice(PADDING).format(k=900 + i))
  src = "\n".join(parts)
  if r.random() < .7:
    src += "\n"
  return src


def cpython_error(src, filename):
  with warnings.catch_warnings():
    warnings.simplefilter("ignore")
    try:
      compile(src, filename or "<>", "exec", dont_inherit=True)
    except SyntaxError as e:
      return e
  return None


def expected_line(e):
  """The line pytype must report for a SyntaxError of the code generator: CPython's own, or 1 where CPython has none
  (or a negative one: documented in c15.cpython_verdict)."""
  return e.lineno if e.lineno is not None and e.lineno >= 0 else 1


def e2e(src, filename, check):
  """Runs the real io.check_or_generate_pyi on a file; returns ("ok", [(name, line, message)], default_stub) or ("raise", exc name, msg)."""
  from pytype import config, io as pio
  from pytype.imports import builtin_stubs
  os.makedirs(SCRATCH, exist_ok=True)
  path = os.path.join(SCRATCH, filename)
  with open(path, "w", encoding="utf-8", newline="") as f:
    f.write(src)
  try:
    opts = config.Options.create(path, check=check, python_version=sys.version_info[:2], output=None if check else "-")
    try:
      r = pio.check_or_generate_pyi(opts)
    except Exception as e:  # pylint: disable=broad-except
      return ("raise", type(e).__name__, str(e)[:200])
    errs = [(e.name, e.line, e._message) for e in r.context.errorlog]  # pylint: disable=protected-access
    default = check or (r.pyi is not None and r.pyi.startswith(builtin_stubs.DEFAULT_SRC))
    return ("ok", errs, default)
  finally:
    try:
      os.unlink(path)
    except OSError:
      pass


def judge_e2e(src, filename, got):
  """[(fingerprint, what)] for one end-to-end run on a text whose code generation CPython rejects."""
  e = cpython_error(src, filename)
  if e is None:
    return []
  want = expected_line(e)
  base = os.path.basename(filename)
  if got[0] == "raise":
    if got[1] == "UnicodeEncodeError" and any(0xD800 <= ord(c) <= 0xDFFF for c in base):
      return [("escape:UnicodeEncodeError:compile-error-with-undecodable-file-name",
               f"file name {base!r} (not valid UTF-8 on disk) + a code-generation SyntaxError (line {want}: {e.msg}): "
               f"str(err).encode('utf-8') in compile_bytecode.compile_src_to_pyc raises and {got[1]} escapes io.check_or_generate_pyi")]
    return [(f"escape:{got[1]}:compile-stage-error", f"{got[1]} escapes io.check_or_generate_pyi on a text CPython rejects at line {want} ({e.msg}): {got[2]!r}")]
  errs = got[1]
  if len(errs) != 1 or errs[0][0] != "python-compiler-error":
    return [("compile-error-report:count", f"CPython rejects the text (line {want}: {e.msg}) but pytype reports {[(n, l) for n, l, _ in errs][:5]}")]
  if errs[0][1] != want:
    if "\n" in base:
      return [("compile-error-report:line:file-name-with-newline",
               f"file name {base!r} contains a newline: _COMPILE_ERROR_RE (no DOTALL) does not match '{e.msg} ({base}, line {want})', "
               f"CompileError falls back to line 1; CPython blames line {want}, pytype reports line {errs[0][1]}")]
    return [("compile-error-report:line", f"CPython blames line {want} ({e.msg}), pytype reports line {errs[0][1]}")]
  if not got[2]:
    return [("compile-error-report:stub", "compile error but the stub is not the default stub")]
  if errs[0][2] != e.msg and " (" not in base:
    return [("compile-error-report:message", f"CPython's message is {e.msg!r}, pytype reports {errs[0][2]!r}")]
  return []


def correspondence_real_sources(res, r, n_cases, n_e2e, info, batch):
  from pytype.pyc import pyc
  templates = compile_stage_templates()
  res.obligation("generator:compile-stage-templates", len(templates) >= 25,
                 f"only {len(templates)} of {len(COMPILE_STAGE)} templates are rejected by compile() but accepted by ast.parse")
  cases = []
  msgs = {}
  n_viol = 0
  ver = sys.version_info[:2]
  names = E2E_FILENAMES + QUIRK_FILENAMES + ["dir/sub/f.py", "", None]
  todo = [(gen_source(r, templates), r.choice(names)) for _ in range(n_cases)]
  todo += [(f"a0 = 0\n\n{t}\n", "f.py") for t in templates]          # every template at least once
  for src, fn in todo:
    e = cpython_error(src, fn)
    if e is None:
      continue
    text = str(e)
    try:
      pyc.compile_src(src, fn, ver, None)
      got = None
    except pyc.CompileError as ce:
      got = (ce.error, "" if ce.filename is None else ce.filename, ce.line, 0 if ce.filename is None else 1)
    except UnicodeEncodeError:
      got = "UnicodeEncodeError"
    msgs[e.msg] = msgs.get(e.msg, 0) + 1
    base = os.path.basename(fn or "<>")
    exotic = "\n" in base or any(0xD800 <= ord(c) <= 0xDFFF for c in base)
    res.count(("compile-stage", src, fn) if not exotic else None)
    # model: compile_native on CPython's own str(err)
    if got == "UnicodeEncodeError":
      cases.append((text, None, (3, 0)))
    elif got is not None:
      cases.append((text, got, (1, got[2])))
    # direct oracle on the real pyc.compile_src, independent of the model
    if got is None:
      n_viol += res.violation("compile-stage-error:not-raised", f"compile() rejects the text ({text}) but pyc.compile_src returned",
                              {"kind": "compile-stage", "src": src, "filename": fn}) or 0
    elif not exotic and n_viol < 3:
      want = expected_line(e)
      if got == "UnicodeEncodeError" or got[2] != want:
        n_viol += res.violation("compile-error-report:line", f"CPython blames line {want} ({e.msg}); pyc.compile_src raises CompileError with line {got if isinstance(got, str) else got[2]}",
                                {"kind": "compile-stage", "src": src, "filename": fn}) or 0
      elif " (" not in base and (got[0] != e.msg or got[1] != base):
        n_viol += res.violation("compile-error-report:message", f"CPython: {e.msg!r} in {base!r}; CompileError.error={got[0]!r} filename={got[1]!r}",
                                {"kind": "compile-stage", "src": src, "filename": fn}) or 0
  defs = ("Definition rs_cases : list (list N * option (list N * list N * N * N) * (N * N)) := [\n  " +
          ";\n  ".join(f"({cl(t)}, {'None' if g is None else '(Some ' + enc_ce(g) + ')'}, ({p[0]}, {p[1]}))" for t, g, p in cases) + "].\n")

  def done(bad, err):
    ok = bad is not None and not bad[0]
    res.obligation("correspondence:compile_native-model-vs-pyc.compile_src-on-real-uncompilable-sources", ok,
                   err or repr([cases[i] for i in bad[0][:3]])[:1500])
  batch.add("realsrc", defs,
            ["bad_idx (fun c => match c with (t, g, p) => pyc_eqb (encode_pyc (compile_native nd maxd (CompExc t))) p && "
             "match g with Some g' => ce_eqb (encode_ce (compile_error_init nd maxd t)) g' | None => true end end) 0%nat rs_cases"], done)
  # end to end through io.check_or_generate_pyi
  e2e_n = 0
  quirks = {}
  jobs = [(gen_source(r, templates), r.choice(E2E_FILENAMES), i % 3 == 0) for i in range(n_e2e)]
  jobs += [(f"a0 = 0\n\nreturn 5\n", fn, False) for fn in QUIRK_FILENAMES]
  for src, fn, check in jobs:
    try:
      got = e2e(src, fn, check)
    except OSError:
      continue      # the file system refuses the name
    e2e_n += 1
    for fp, what in judge_e2e(src, fn, got):
      if fn in QUIRK_FILENAMES and fp not in res.known:
        quirks[fp] = what       # outside the property's quantifier (a source text under an ordinary file name); see report
        continue
      if n_viol < 3 or fp in res.known:
        n_viol += res.violation(fp, what, {"kind": "compile-stage-e2e", "src": src, "filename": fn, "check": check}) or 0
  import shutil
  shutil.rmtree(SCRATCH, ignore_errors=True)
  res.extra["compile_stage"] = {"templates": len(templates), "sources": len(todo), "model_cases": len(cases), "end_to_end_runs": e2e_n,
                                "distinct_cpython_messages": len(msgs), "file_name_quirks_reproduced": quirks}
  res.sample({"compile-stage source": todo[0][0][-80:], "filename": todo[0][1], "cpython": str(cpython_error(*todo[0]))})


def replay(rp):
  """Replays a compile-path input; returns 1 if it still fails."""
  common.bootstrap_pytype()
  kind = rp.get("kind")
  if kind == "compile-message":
    got = real_init(rp["msg"])
    print("CompileError(%r) ->" % rp["msg"], got)
    m = re.fullmatch(r"([^\n]*) \(([^\n]*), line ([0-9]+)\)\n?", rp["msg"])
    if not m:
      return 0
    head = rp["msg"][:m.start(3) - len(", line ")]
    cut = head.rfind(" (")
    want = (head[:cut], head[cut + 2:], int(m.group(3)), 1)
    print("the message says", want)
    return 1 if got != want else 0
  src, fn = rp["src"], rp["filename"]
  e = cpython_error(src, fn)
  print("source:\n" + src)
  print("file name:", repr(fn))
  print("cpython:", None if e is None else (e.lineno, e.msg, str(e)))
  if kind == "compile-stage-e2e":
    got = e2e(src, fn, rp.get("check", False))
    print("pytype :", got)
    viol = judge_e2e(src, fn, got)
    print("oracle :", viol)
    return 1 if viol else 0
  from pytype.pyc import pyc
  try:
    pyc.compile_src(src, fn, sys.version_info[:2], None)
    print("pytype : pyc.compile_src returned")
    return 1 if e is not None else 0
  except pyc.CompileError as ce:
    print("pytype : CompileError", (ce.error, ce.filename, ce.line))
    if e is None:
      return 1
    base = os.path.basename(fn or "<>")
    return 1 if ce.line != expected_line(e) or (" (" not in base and (ce.error != e.msg or ce.filename != base)) else 0
  except Exception as x:  # pylint: disable=broad-except
    print("pytype :", type(x).__name__, x)
    return 1
