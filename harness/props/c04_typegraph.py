"""C04 leg: the typegraph hands bindings out in an order that is a function of the construction history only.

`typegraph.h` promises id-ordered sets (pointer_less), never pointer order.  A pointer- or hash-ordered container shows
no difference on a fresh heap (addresses mostly ascend with ids); it shows up after heap churn.  This leg replays one
fixed construction history many times in one process, with differently sized allocations and frees of OTHER programs
in between, and under several hash seeds (sub-processes), and requires every ordered observation to be identical in
all replays and equal to binding-id order where the API documents id order.
"""
import json
import os
import random
import subprocess
import sys


def build(seed, n_nodes=12, n_vars=4, n_data=9):
  """Builds the fixed history `seed` on a fresh Program; returns the ordered observations."""
  from pytype.typegraph import cfg  # pylint: disable=import-outside-toplevel
  r = random.Random("c04-tg:%s" % seed)
  p = cfg.Program()
  data = ["d%d" % i for i in range(n_data)]
  nodes = [p.NewCFGNode("n0")]
  for i in range(1, n_nodes):
    nodes.append(r.choice(nodes).ConnectNew("n%d" % i))
  for _ in range(n_nodes // 2):
    a, b = r.sample(range(n_nodes), 2)
    nodes[min(a, b)].ConnectTo(nodes[max(a, b)])
  vs = [p.NewVariable() for _ in range(n_vars)]
  # several bindings of one variable at ONE node, created in an order unrelated to the data order
  for v in vs:
    for where in r.sample(nodes, 3):
      for d in r.sample(data, r.randint(2, 6)):
        v.AddBinding(d, [], where)
  # pasting re-registers existing bindings at new nodes (ids out of creation order at that node)
  for _ in range(6):
    a, b = r.sample(vs, 2)
    a.PasteVariable(b, r.choice(nodes), [])
  obs = []
  for vi, v in enumerate(vs):
    obs.append(("bindings", vi, [b.data for b in v.bindings]))
    for ni, n in enumerate(nodes):
      obs.append(("Bindings", vi, ni, [b.data for b in v.Bindings(n)]))
      obs.append(("Data", vi, ni, list(v.Data(n))))
      obs.append(("Filter", vi, ni, [b.data for b in v.Filter(n)]))
  for ni, n in enumerate(nodes):
    obs.append(("node.bindings", ni, [(b.variable.id, b.data) for b in n.bindings]))
    obs.append(("incoming", ni, [x.id for x in n.incoming]))
    obs.append(("outgoing", ni, [x.id for x in n.outgoing]))
  return obs


def churn(r, keep):
  """Allocates and frees other programs of random sizes so that later allocations land at recycled addresses."""
  from pytype.typegraph import cfg  # pylint: disable=import-outside-toplevel
  for _ in range(r.randint(1, 4)):
    p = cfg.Program()
    n = [p.NewCFGNode("c")]
    for _ in range(r.randint(1, 60)):
      n.append(r.choice(n).ConnectNew("c"))
    v = p.NewVariable()
    for i in range(r.randint(1, 40)):
      v.AddBinding("x%d" % i, [], r.choice(n))
    if r.random() < 0.5:
      keep.append(p)
    if keep and r.random() < 0.6:
      keep.pop(r.randrange(len(keep)))
  junk = [bytearray(r.randint(16, 4096)) for _ in range(r.randint(0, 50))]
  del junk


def replays(seed, n_replays):
  r = random.Random("c04-tg-churn:%s" % seed)
  keep = []
  out = []
  for _ in range(n_replays):
    out.append(build(seed))
    churn(r, keep)
  return out


def main():
  # sub-process entry: prints one JSON line
  sys.path.insert(0, os.path.dirname(os.path.dirname(os.path.abspath(__file__))))
  import common  # pylint: disable=import-outside-toplevel
  common.bootstrap_pytype()
  seed, n = sys.argv[1], int(sys.argv[2])
  print(json.dumps(replays(seed, n)))


def run_leg(res, common, n_histories, n_replays, hashseeds=("0", "1", "7")):
  """Returns (number of observation lists compared, list of differences)."""
  diffs = []
  compared = 0
  for h in range(n_histories):
    seed = "%s-%d" % (res.seed, h)
    per_seed = []
    for hs in hashseeds:
      p = subprocess.run([common.PY, os.path.abspath(__file__), seed, str(n_replays)], capture_output=True, text=True,
                         env=common.impl_env(hs), timeout=600)
      if p.returncode != 0:
        diffs.append({"history": seed, "hashseed": hs, "what": "replay process failed: " + p.stderr[-300:]})
        continue
      per_seed.append((hs, json.loads(p.stdout.strip().split("\n")[-1])))
    ref = per_seed[0][1][0] if per_seed else None
    for hs, runs in per_seed:
      for k, obs in enumerate(runs):
        compared += 1
        if obs != ref:
          first = next((a, b) for a, b in zip(ref, obs) if a != b)
          diffs.append({"history": seed, "hashseed": hs, "replay": k, "reference": first[0], "this replay": first[1]})
  return compared, diffs


if __name__ == "__main__":
  main()
