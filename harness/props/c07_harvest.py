"""C07: typegraphs harvested from real VM runs.

`dump_program(program)` turns a live cfg.Program (e.g. `ret.context.program` after
io.generate_pyi) into the C07 description format through the public cfg API only (cfg_nodes,
node.incoming/condition/bindings, binding.variable/origins, variable.bindings).
`reduce_desc(desc, queries)` cuts a description down to what the given queries can read (bindings
reachable through source sets, node conditions and "same variable", nodes backward reachable from
the query nodes plus the origin nodes of kept bindings) and renumbers ids monotonically, which
preserves every id-ordered container of the solver.
`programs(r, n)` generates small straight-line/conditional programs (no imports: typeshed is absent).
"""
import itertools


def dump_program(p):
  nodes = list(p.cfg_nodes)
  bs = {}
  todo = []
  def visit(b):
    if b.id not in bs:
      bs[b.id] = b
      todo.append(b)
  for n in nodes:
    for b in n.bindings:
      visit(b)
    if n.condition is not None:
      visit(n.condition)
  while todo:
    b = todo.pop()
    for o in b.origins:
      for ss in o.source_sets:
        for x in ss:
          visit(x)
    for x in b.variable.bindings:
      visit(x)
  nb = p.next_binding_id
  desc = {"nodes": [{"inc": [m.id for m in n.incoming],
                     "cond": None if n.condition is None else n.condition.id} for n in nodes],
          "bindings": []}
  for i in range(nb):
    b = bs.get(i)
    if b is None:      # a binding no node, condition or source set mentions: invisible to the solver
      desc["bindings"].append({"var": 10 ** 6 + i, "origins": []})
    else:
      desc["bindings"].append({"var": b.variable.id,
                               "origins": [[o.where.id, [sorted(x.id for x in ss) for ss in o.source_sets]]
                                           for o in b.origins]})
  return desc, nodes, bs


def reduce_desc(d, queries):
  """Returns (reduced description, renumbered queries)."""
  nn = len(d["nodes"])
  qnodes = set()
  goals = set()
  for q in queries:
    if q[0] in ("H", "V", "C"):
      qnodes.add(q[1]); goals.update(q[2])
  reach = set(qnodes)
  todo = list(qnodes)
  while todo:
    x = todo.pop()
    for y in d["nodes"][x]["inc"]:
      if y not in reach:
        reach.add(y); todo.append(y)
  byvar = {}
  for i, b in enumerate(d["bindings"]):
    byvar.setdefault(b["var"], []).append(i)
  keep = set()
  todo = list(goals) + [d["nodes"][n]["cond"] for n in reach if d["nodes"][n]["cond"] is not None]
  while todo:
    b = todo.pop()
    if b in keep:
      continue
    keep.add(b)
    for w, ssets in d["bindings"][b]["origins"]:
      for ss in ssets:
        todo.extend(ss)
    todo.extend(byvar[d["bindings"][b]["var"]])
  knodes = set(reach)
  for b in keep:
    for w, _ in d["bindings"][b]["origins"]:
      knodes.add(w)
  nmap = {n: i for i, n in enumerate(sorted(knodes))}
  bmap = {b: i for i, b in enumerate(sorted(keep))}
  vmap = {}
  for b in sorted(keep):
    vmap.setdefault(d["bindings"][b]["var"], len(vmap))
  nodes = []
  for n in sorted(knodes):
    c = d["nodes"][n]["cond"]
    nodes.append({"inc": [nmap[m] for m in d["nodes"][n]["inc"] if m in nmap] if n in reach else [],
                  "cond": bmap[c] if (c is not None and n in reach) else None})
  bindings = []
  for b in sorted(keep):
    bindings.append({"var": vmap[d["bindings"][b]["var"]],
                     "origins": [[nmap[w], [[bmap[x] for x in ss] for ss in ssets]]
                                 for w, ssets in d["bindings"][b]["origins"]]})
  qs = []
  for q in queries:
    if q[0] in ("H", "V", "C"):
      qs.append((q[0], nmap[q[1]], [bmap[x] for x in q[2]]))
    elif q[0] == "R":
      qs.append(q)
  return {"nodes": nodes, "bindings": bindings}, qs


# ------------------------------------------------------------------------------------------
# small programs whose typegraphs have the shapes the VM really builds: branches, joins, conditional
# expressions, boolean operators, re-assignments inside branches, calls of local functions

def programs(r, n):
  out = []
  for _ in range(n):
    nv = r.randint(2, 5)
    names = ["v%d" % i for i in range(nv)]
    consts = ["1", "'s'", "None", "False", "True", "1.5", "[]", "{'a'}", "'xyz'.strip()", "len('a')"]
    lines = []
    defined = []
    def expr(depth=0):
      k = r.random()
      if defined and k < 0.3:
        return r.choice(defined)
      if defined and k < 0.5 and depth < 2:
        return "%s if %s else %s" % (expr(depth + 1), r.choice(defined), expr(depth + 1))
      if defined and k < 0.65 and depth < 2:
        return "%s %s %s" % (expr(depth + 1), r.choice(["and", "or"]), expr(depth + 1))
      return r.choice(consts)
    def block(indent, depth):
      for _ in range(r.randint(1, 3)):
        k = r.random()
        if defined and k < 0.35 and depth < 2:
          cond = r.choice(defined)
          if r.random() < 0.3:
            cond = "not " + cond
          elif r.random() < 0.2:
            cond = cond + " is None"
          lines.append(indent + "if %s:" % cond)
          block(indent + "    ", depth + 1)
          if r.random() < 0.5:
            lines.append(indent + "else:")
            block(indent + "    ", depth + 1)
        else:
          v = r.choice(names)
          lines.append(indent + "%s = %s" % (v, expr()))
          if v not in defined and indent == "":
            defined.append(v)
    lines.append("%s = %s" % (names[0], r.choice(consts)))
    defined.append(names[0])
    block("", 0)
    block("", 0)
    out.append("\n".join(lines) + "\n")
  return out


def harvest_queries(r, d, nodes_of_interest, var_bindings, max_sets=40):
  """Queries in the shape the VM asks: IsVisible(b, n) for every binding of the module's own variables at
  every node after the root, and HasCombination on pairs/triples of them at a few nodes, each with
  all its subsets."""
  qs = []
  for n in nodes_of_interest:
    for b in var_bindings:
      qs.append(("H", n, [b]))
  bl = sorted(var_bindings)
  for _ in range(max_sets):
    if len(bl) < 2 or not nodes_of_interest:
      break
    n = r.choice(nodes_of_interest)
    s = sorted(r.sample(bl, min(len(bl), r.randint(2, 3))))
    qs.append(("H", n, s))
    for m in range(1, len(s)):
      for sub in itertools.combinations(s, m):
        qs.append(("H", n, list(sub)))
  return qs
