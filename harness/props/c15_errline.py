"""C15 (b) — which line a logged error carries: real errors.Error.with_stack / ErrorLog.error / ErrorLog._add with a real
Director's filter_error installed, against the model Io/ErrLine.v (which reuses the C03 director model)."""
import os

import common

SOURCES = [
    "def f(x):\n  if x:\n    return 1\n\n\ndef g():\n  def h():\n    y = 1\n    return y\n  return h\nz = 3\n",
    "class C:\n  def m(self):\n    a = 1\n    b = 2\n\n  def n(self):\n    def inner():\n      pass\n    return inner\nx = 1\ny = 2",
    "x = 1\ny = 2\nz = 3\n",
    "import typing\n\n@typing.final\ndef f(a,\n      b):\n  for i in a:\n    if i:\n      return b\n\nasync def k():\n  return 0\n",
]
NAMES = {"bad-return-type": None, "attribute-error": None}    # filled with C03's ids


class _Code:
  def __init__(self, filename):
    self.filename = filename
    self.name = "f"

  def get_arg_count(self):
    return 0


def _opclass(name):
  return type(name, (), {})


OPCLASSES = {n: _opclass(n) for n in ("RETURN_VALUE", "RETURN_CONST", "LOAD_CONST", "CALL")}


def make_op(kind, line, code):
  op = OPCLASSES[kind]()
  op.code = code
  op.line = line
  op.endline = line
  op.col = 0
  op.endcol = 0
  return op


def file_lines(src):
  return src.count("\n") + (0 if src.endswith("\n") or src == "" else 1)


def correspondence(res, r, n_cases, batch):
  from pytype import state as frame_state
  from pytype.directors import directors
  from pytype.errors import errors
  import c03_gen  # the id table of error names shared with the C03 model
  ids = None
  for attr in ("name_ids", "error_ids", "NAME_IDS"):
    if hasattr(c03_gen, attr):
      ids = getattr(c03_gen, attr)
      ids = ids() if callable(ids) else ids
      break
  if ids is None:
    # read the ids from the generated table's comment block
    import re
    txt = open(os.path.join(common.COQ, "Generated", "C03_ErrorClasses.v")).read()
    ids = {m.group(2): int(m.group(1)) for m in re.finditer(r"^\s+(\d+)\s+([a-z][a-z0-9-]*)\s", txt, re.M)}
  name_ids = {n: ids[n] for n in NAMES}
  cases = []
  n_viol = 0
  stats = {"kept": 0, "suppressed": 0, "line0": 0, "adjusted": 0}
  for i in range(n_cases):
    src = r.choice(SOURCES)
    nl = file_lines(src)
    log0 = errors.ErrorLog(src)
    d = directors.Director(directors.parse_src(src, (3, 12)), log0, "f.py", [])
    fr_items = list(d._function_ranges._start_to_end.items())  # pylint: disable=protected-access
    ret_lines = sorted(d.return_lines)
    code = _Code("f.py")
    wild = r.random() < .15            # lines outside the file too: the model must agree there as well
    frames = []
    for _ in range(r.choice([0, 1, 1, 2, 2, 3, 4])):
      if r.random() < .2:
        op = None
      else:
        line = r.randint(0, nl + 3) if wild else r.randint(1, max(nl, 1))
        op = make_op(r.choice(["RETURN_VALUE", "RETURN_VALUE", "RETURN_CONST", "LOAD_CONST", "CALL"]), line, code)
      f = frame_state.SimpleFrame(op)
      f.skip_in_tracebacks = r.random() < .25
      frames.append(f)
    if frames and r.random() < .3:      # two consecutive frames on the same line (the dedup)
      j = r.randrange(len(frames))
      if frames[j].current_opcode is not None:
        f = frame_state.SimpleFrame(make_op("CALL", frames[j].current_opcode.line, code))
        frames.insert(j + 1, f)
    override = r.choice([None, None, None, 0, r.randint(1, max(nl, 1)), (nl + 2) if wild else 1])
    name = r.choice(list(NAMES))
    log = errors.ErrorLog(src)
    log.set_error_filter(d.filter_error)
    with errors._CURRENT_ERROR_NAME.bind(name):  # pylint: disable=protected-access
      probe = errors.Error.with_stack(list(frames), errors.SEVERITY_ERROR, "m", src=src)
      log.error(list(frames), "m", line=override)
    ret_op = probe.opcode_name in ("RETURN_VALUE", "RETURN_CONST")
    got = [e.line for e in log]
    real = None if not got else got[0]
    cases.append((fr_items, ret_lines, [(f.skip_in_tracebacks, None if f.current_opcode is None else f.current_opcode.line) for f in frames],
                  override, name_ids[name], ret_op, probe.line, real))
    stats["kept" if got else "suppressed"] += 1
    if got and real == 0:
      stats["line0"] += 1
    if got and real != (override or probe.line):
      stats["adjusted"] += 1
    # direct oracle on the real code (the hypotheses of logged_line_in_file, then its conclusion)
    in_file = all(f.current_opcode is None or 1 <= f.current_opcode.line <= nl for f in frames)
    has_pos = probe.line != 0 or bool(override)
    ov_ok = override is None or override == 0 or 1 <= override <= nl
    if got and in_file and has_pos and ov_ok and not (1 <= real <= nl) and n_viol < 3:
      n_viol += res.violation("error-line-outside-file:with_stack", f"stack lines inside a {nl}-line file, logged line {real}",
                              {"kind": "errline", "src": src, "frames": cases[-1][2], "override": override, "name": name}) or 0
    res.count(("errline", i) if frames else None)
  zl = lambda xs: "[" + "; ".join(str(x) for x in xs) + "]"
  oz = lambda x: "None" if x is None else f"(Some ({x}))"
  bl = lambda b: "true" if b else "false"
  defs = ("Definition el_cases : list (list (Z * Z) * list Z * list frame * option Z * N * bool * Z * option Z) := [\n  " +
          ";\n  ".join("(%s, %s, %s, %s, %d%%N, %s, %d, %s)" % (
              "[" + "; ".join(f"({a}, {b})" for a, b in fr) + "]", zl(rl),
              "[" + "; ".join(f"mkF {bl(sk)} {oz(ln)}" for sk, ln in st) + "]", oz(ov), nid, bl(ro), pl, oz(real))
                      for fr, rl, st, ov, nid, ro, pl, real in cases) + "]%Z.\n"
          "Definition oz_eqb (a b : option Z) : bool := match a, b with Some x, Some y => Z.eqb x y | None, None => true | _, _ => false end.\n"
          "Definition el_ok (c : list (Z * Z) * list Z * list frame * option Z * N * bool * Z * option Z) : bool :=\n"
          "  match c with (fr, rl, st, ov, nid, ro, pl, real) =>\n"
          "    Z.eqb (with_stack_line st) pl &&\n"
          "    match build_events [] fr [] with\n"
          "    | Ok ds => match logged ds rl st ov nid ro with Ok x => oz_eqb x real | Raise _ => false end\n"
          "    | Raise _ => false end end.\n")

  def done(bad, err):
    ok = bad is not None and not bad[0]
    res.obligation("correspondence:error-line-model-vs-Error.with_stack/ErrorLog.error/Director.filter_error", ok,
                   err or repr([cases[i] for i in bad[0][:3]])[:1500])
  batch.add("errline", defs, ["bad_idx el_ok 0%nat el_cases"], done)
  res.extra["error_line_cases"] = {"n": len(cases), **stats}


def replay(rp):
  print("error-line replay: source\n" + rp["src"])
  print("frames (skip_in_tracebacks, opcode line):", rp["frames"], "override:", rp["override"], "name:", rp["name"])
  common.bootstrap_pytype()
  from pytype import state as frame_state
  from pytype.directors import directors
  from pytype.errors import errors
  src = rp["src"]
  d = directors.Director(directors.parse_src(src, (3, 12)), errors.ErrorLog(src), "f.py", [])
  code = _Code("f.py")
  frames = []
  for sk, ln in rp["frames"]:
    f = frame_state.SimpleFrame(None if ln is None else make_op("RETURN_VALUE", ln, code))
    f.skip_in_tracebacks = sk
    frames.append(f)
  log = errors.ErrorLog(src)
  log.set_error_filter(d.filter_error)
  with errors._CURRENT_ERROR_NAME.bind(rp["name"]):  # pylint: disable=protected-access
    log.error(frames, "m", line=rp["override"])
  got = [e.line for e in log]
  print("logged lines:", got, "file lines:", file_lines(src))
  return 1 if got and not 1 <= got[0] <= file_lines(src) else 0
