"""C09, second leg: the Python-visible reachability surface beyond the bit matrix.

Histories of program.NewCFGNode / node.ConnectNew / node.ConnectTo / program.NewVariable / var.AddBinding /
binding.AddOrigin / var.PasteBinding / var.PasteVariable / var.AssignToNewVariable are run on cfg.so and on the
extracted model coq/Typegraph/Prune.v (harness/ocaml/prune_driver.ml); after every step var.Bindings(node),
var.Data(node), var.Filter(node, strict=False) (single-binding variables), program.is_reachable are compared.
The property itself is decided on the implementation by `oracle_*` below, which read only Python-visible state
(binding.origins[i].where, var.bindings, the recorded edge list) and never the model.

Token format: see harness/ocaml/prune_driver.ml.  Bindings are named by (variable, index into var.bindings
modulo its length) so that the generator needs no knowledge of binding ids; the driver is given the resolved id.
"""
import time

import os
import re

import common

OPS = "NKCVWAOTUGE"   # E = program.entrypoint = node|None (Typegraph/Entry.v: erased before the model run, by theorem pe_run_core)
MODEL_MAX_VAR_SIZE = 64        # coq/Typegraph/Prune.v MAX_VAR_SIZE


def header_max_var_size():
  """MAX_VAR_SIZE as /repo's typegraph.h declares it today (None if the declaration is not found)."""
  txt = open(os.path.join(common.REPO, "pytype", "typegraph", "typegraph.h")).read()
  m = re.search(r"MAX_VAR_SIZE\s*=\s*(\d+)\s*;", txt)
  return int(m.group(1)) if m else None


QUERIES = "BDLFRM"


class Dt:
  """A data object with a number; identity is what data_to_binding_ keys on."""
  __slots__ = ("i",)

  def __init__(self, i):
    self.i = i

  def __repr__(self):
    return "d%d" % self.i


def opt(x):
  return "-" if x is None else str(x)


def to_line(h):
  return " ".join(" ".join(opt(x) if x is None else str(x) for x in o) for o in h)


# ------------------------------------------------------------------------------------ implementation

class Impl:
  """Executes a history on the real cfg.Program.  Ops naming a binding carry an index k; it is resolved to the
  binding id here (k mod len(var.bindings)) and the resolved history (ids instead of indexes) is recorded in
  self.resolved for the model driver.  An op that cannot be resolved (variable without bindings) is dropped."""

  def __init__(self, n_data=200):
    from pytype.typegraph import cfg
    self.p = cfg.Program()
    self.objs = [Dt(i) for i in range(n_data)]
    self.p.default_data = self.objs[0]
    self.nodes = []
    self.vars = []
    self.edges = []          # every ConnectTo/ConnectNew call, self and duplicate edges included
    self.resolved = []
    self.kept = []           # the ops as given (binding indexes), parallel to self.resolved: what a replay needs
    self.out = []
    self.op_bad = None

  def node(self, o):
    return None if o is None else self.nodes[o]

  def binding(self, v, k):
    bs = self.vars[v].bindings
    return bs[k % len(bs)] if bs else None

  def step(self, o):
    t = o[0]
    p = self.p
    o_given = o
    if t == "N":
      self.nodes.append(p.NewCFGNode("n%d" % len(self.nodes)))
    elif t == "K":
      self.edges.append((o[1], len(self.nodes)))
      self.nodes.append(self.nodes[o[1]].ConnectNew("n%d" % len(self.nodes)))
    elif t == "C":
      self.edges.append((o[1], o[2]))
      self.nodes[o[1]].ConnectTo(self.nodes[o[2]])
    elif t == "V":
      self.vars.append(p.NewVariable())
    elif t == "W":
      self.vars.append(p.NewVariable([self.objs[d] for d in o[3:]], [], self.nodes[o[1]]))
    elif t == "A":
      if o[3] is None:
        self.vars[o[1]].AddBinding(self.objs[o[2]])
      else:
        self.vars[o[1]].AddBinding(self.objs[o[2]], [], self.nodes[o[3]])
    elif t == "O":
      b = self.binding(o[1], o[2])
      if b is None:
        return
      b.AddOrigin(self.nodes[o[3]], [])
      o = ("O", o[1], b.id, o[3])
    elif t == "T":
      b = self.binding(o[2], o[3])
      if b is None:
        return
      src_where = [og.where.id for og in b.origins]
      self.vars[o[1]].PasteBinding(b, self.node(o[4]))
      # direct postcondition of PasteBinding (typegraph.cc's comment): linked at `where` when some origin of the
      # pasted binding lies elsewhere, otherwise (or without `where`) the origins themselves are copied
      nb = [x for x in self.vars[o[1]].bindings if x.data is b.data]
      if len(self.vars[o[1]].bindings) < MODEL_MAX_VAR_SIZE - 1 or nb:
        have = {og.where.id for x in nb for og in x.origins}
        need = {o[4]} if (o[4] is not None and any(w != o[4] for w in src_where)) else set(src_where)
        if not nb or not need <= have:
          self.op_bad = "PasteBinding(where=%s) of a binding with origins %s left the copy with origins %s" % (
              o[4], src_where, sorted(have))
      o = ("T", o[1], o[2], b.id, o[4])
    elif t == "U":
      self.vars[o[1]].PasteVariable(self.vars[o[2]], self.node(o[3]))
    elif t == "G":
      self.vars.append(self.vars[o[1]].AssignToNewVariable(self.node(o[2])))
    elif t == "E":
      # Program state outside the graph (Entry.v): written here, read back at once (entrypoint_last_write) and
      # irrelevant to every later answer (entrypoint_irrelevant) - the model run simply omits the op
      p.entrypoint = self.node(o[1])
      back = p.entrypoint
      if (back is None) != (o[1] is None) or (back is not None and back.id != self.nodes[o[1]].id):
        self.op_bad = "program.entrypoint reads back %r after writing node %r" % (getattr(back, "id", None), o[1])
    elif t in ("B", "L"):
      self.out.append(",".join(str(b.id) for b in self.vars[o[1]].Bindings(self.node(o[2]))))
    elif t == "D":
      self.out.append(",".join(str(d.i) for d in self.vars[o[1]].Data(self.node(o[2]))))
    elif t == "F":
      if len(self.vars[o[1]].bindings) != 1:      # more bindings: the solver decides (C07), not modelled here
        return
      self.out.append(",".join(str(b.id) for b in self.vars[o[1]].Filter(self.nodes[o[2]], False)))
    elif t == "R":
      self.out.append("1" if p.is_reachable(src=self.nodes[o[1]], dst=self.nodes[o[2]]) else "0")
    elif t == "M":
      self.out.append("".join("1" if p.is_reachable(src=a, dst=b) else "0" for a in self.nodes for b in self.nodes))
    else:
      raise ValueError(o)
    self.resolved.append(o)
    self.kept.append(o_given)

  # ---- the direct oracles (no model involved) ----
  def succ(self):
    s = [set() for _ in self.nodes]
    for a, b in self.edges:
      s[a].add(b)
    return s

  def true_reach(self, a, b):
    s = self.succ()
    seen = {a}
    todo = [a]
    while todo:
      x = todo.pop()
      for y in s[x]:
        if y not in seen:
          seen.add(y)
          todo.append(y)
    return b in seen

  def reaching_definitions(self, v, n):
    """ids of the bindings b of var v with an origin node m and a path m -> ... -> n in the inserted edges on which
    no node other than m carries an origin of any binding of v (reaching definitions; n itself kills)."""
    var = self.vars[v]
    where = {}                                  # node id -> binding ids with an origin there
    for b in var.bindings:
      for og in b.origins:
        where.setdefault(og.where.id, set()).add(b.id)
    pred = [set() for _ in self.nodes]
    for a, b in self.edges:
      if a != b:
        pred[b].add(a)
    # backwards from n through unbound nodes
    res = set()
    seen = {n}
    todo = [n]
    while todo:
      x = todo.pop()
      if x in where:
        res |= where[x]
        continue
      for y in pred[x]:
        if y not in seen:
          seen.add(y)
          todo.append(y)
    return res

  def oracle(self, o):
    """None if the implementation's last answer satisfies the property, else a description."""
    t = o[0]
    got = self.out[-1]
    if t in ("B", "L", "D"):
      var = self.vars[o[1]]
      if o[2] is None:
        if len(var.bindings) > MODEL_MAX_VAR_SIZE:
          return "variable holds %d bindings, more than MAX_VAR_SIZE=%d" % (len(var.bindings), MODEL_MAX_VAR_SIZE)
        want = [b.id for b in var.bindings]
        if t == "D":
          want = [b.data.i for b in var.bindings]
        return None if got == ",".join(map(str, want)) else "Bindings/Data(None) is not all bindings: %s" % got
      rd = self.reaching_definitions(o[1], o[2])
      if t == "D":
        want = sorted(b.data.i for b in var.bindings if b.id in rd)
        have = sorted(int(x) for x in got.split(",") if x)
        return None if want == have else "Data(n%d)=%s but reaching definitions carry %s" % (o[2], have, want)
      have = [int(x) for x in got.split(",") if x]
      if len(set(have)) != len(have):
        return "Bindings(n%d) has duplicates: %s" % (o[2], have)
      return None if set(have) == rd else "Bindings(n%d)=%s but reaching definitions are %s" % (o[2], sorted(have), sorted(rd))
    if t == "F":
      var = self.vars[o[1]]
      if len(var.bindings) == 1:
        want = str(var.bindings[0].id)
        return None if got == want else "Filter(strict=False) of a single-binding variable returned %r" % got
      return None
    if t == "R":
      want = "1" if self.true_reach(o[1], o[2]) else "0"
      return None if got == want else "is_reachable(%d,%d)=%s, BFS says %s" % (o[1], o[2], got, want)
    if t == "M":
      k = len(self.nodes)
      want = "".join("1" if self.true_reach(a, b) else "0" for a in range(k) for b in range(k))
      return None if got == want else "is_reachable matrix differs from BFS"
    return None


def run_impl(h, check_oracle=True):
  """Returns (output string, resolved history (binding ids, for the model), first oracle failure or None as
  (index, what), kept history (binding indexes as given, parallel to the resolved one, for replays))."""
  im = Impl()
  bad = None
  for o in h:
    im.step(o)
    if check_oracle and bad is None and o[0] in QUERIES and im.resolved and im.resolved[-1] is o:
      w = im.oracle(o)
      if w is not None:
        bad = (len(im.resolved) - 1, w)
    if check_oracle and bad is None and im.op_bad is not None:
      bad = (len(im.resolved) - 1, im.op_bad)
  return ";".join(im.out) + (";" if im.out else ""), im.resolved, bad, im.kept


# ------------------------------------------------------------------------------------ generation

class Gen:
  """Generates well-formed histories without running anything: it tracks only counts (nodes, variables) and a
  conservative "this variable has had an AddBinding" flag; binding indexes are resolved later."""

  def __init__(self, r):
    self.r = r
    self.ops = []
    self.nn = 0
    self.nv = 0
    self.touched_var = None

  def emit(self, *o):
    self.ops.append(tuple(o))
    t = o[0]
    if t in "NK":
      self.nn += 1
    if t in "VWG":
      self.nv += 1
      self.touched_var = self.nv - 1
    if t in "AO":
      self.touched_var = o[1]
    if t in "TU":
      self.touched_var = o[1]

  def node(self):
    return self.r.randrange(self.nn)

  def node_opt(self, p_none=0.3):
    return None if self.r.random() < p_none else self.node()

  def queries(self, full_limit=36, n_pairs=10):
    r = self.r
    if self.nv == 0 or self.nn == 0:
      return
    if self.nv * self.nn <= full_limit:
      pairs = [(v, n) for v in range(self.nv) for n in range(self.nn)]
    else:
      pairs = []
      for _ in range(n_pairs):
        v = self.touched_var if (self.touched_var is not None and r.random() < 0.6) else r.randrange(self.nv)
        pairs.append((v, self.node()))
    for v, n in pairs:
      self.ops.append(("B", v, n))
      k = r.random()
      if k < 0.25:
        self.ops.append(("L", v, n))
      elif k < 0.4:
        self.ops.append(("D", v, n))
      elif k < 0.5:
        self.ops.append(("F", v, n))
    if r.random() < 0.15:
      v = r.randrange(self.nv)
      self.ops.append(("B", v, None))
      self.ops.append(("D", v, None))
    if self.nn <= 12 and r.random() < 0.3:
      self.ops.append(("M",))
    else:
      for _ in range(2):
        self.ops.append(("R", self.node(), self.node()))


def gen_random(r, n_steps, max_nodes, max_vars, n_data, q=True):
  g = Gen(r)
  g.emit("N")
  p_entry = r.choice([0.0, 0.03, 0.08])
  if r.random() < 0.5:
    g.emit("E", 0)                                # pytype sets the root node as entrypoint right away
  for _ in range(n_steps):
    if r.random() < p_entry:
      g.emit("E", g.node_opt(0.2))
    k = r.random()
    if g.nn < max_nodes and k < 0.22:
      if r.random() < 0.6:
        g.emit("K", g.node())
      else:
        g.emit("N")
    elif k < 0.42:
      a, b = g.node(), g.node()
      if a > b and r.random() < 0.75:
        a, b = b, a
      g.emit("C", a, b)
    elif g.nv == 0 or (g.nv < max_vars and k < 0.50):
      j = r.random()
      if j < 0.5 or g.nv == 0:
        g.emit("V")
      elif j < 0.75:
        g.emit("W", g.node(), *((lambda ds: (len(ds),) + tuple(ds))([r.randrange(1, n_data) for _ in range(r.randint(0, 3))])))
      else:
        g.emit("G", r.randrange(g.nv), g.node_opt())
    elif k < 0.78:
      g.emit("A", r.randrange(g.nv), r.randrange(1, n_data), g.node_opt(0.08))
    elif k < 0.86:
      g.emit("O", r.randrange(g.nv), r.randrange(8), g.node())
    elif k < 0.93 and g.nv >= 2:
      dst = r.randrange(g.nv)
      src = r.choice([x for x in range(g.nv) if x != dst])
      g.emit("T", dst, src, r.randrange(8), g.node_opt())
    elif g.nv >= 2:
      dst = r.randrange(g.nv)
      src = r.choice([x for x in range(g.nv) if x != dst])
      g.emit("U", dst, src, g.node_opt())
    else:
      g.emit("A", r.randrange(g.nv), r.randrange(1, n_data), g.node())
    if q:
      g.queries()
  return g.ops


def gen_structured(r, n_blocks):
  """A structured CFG (sequences, if/else diamonds, loops with back edges) with assignments to a few variables on
  the way: the classical reaching-definitions situation.  Variables are created first."""
  g = Gen(r)
  g.emit("N")
  if r.random() < 0.6:
    g.emit("E", 0)
  nv = r.randint(1, 3)
  for _ in range(nv):
    g.emit("V")
  cur = 0
  def assign(at):
    if r.random() < 0.7:
      g.emit("A", r.randrange(nv), r.randrange(1, 6), at)
      g.queries()
  assign(0)
  for _ in range(n_blocks):
    k = r.random()
    if k < 0.35:                                  # straight line
      g.emit("K", cur); cur = g.nn - 1; assign(cur)
    elif k < 0.75:                                # diamond, sometimes with a nested branch
      g.emit("K", cur); a = g.nn - 1; assign(a)
      g.emit("K", cur); b = g.nn - 1; assign(b)
      if r.random() < 0.3:
        g.emit("K", a); a = g.nn - 1; assign(a)
      g.emit("K", a); j = g.nn - 1
      g.emit("C", b, j)
      if r.random() < 0.3:
        g.emit("C", cur, j)                       # if without else
      cur = j; assign(cur)
    else:                                         # loop: head -> body -> head, head -> exit
      g.emit("K", cur); head = g.nn - 1
      g.emit("K", head); body = g.nn - 1; assign(body)
      if r.random() < 0.5:
        g.emit("K", body); body = g.nn - 1; assign(body)
      g.emit("C", body, head)
      g.emit("K", head); cur = g.nn - 1; assign(cur)
    g.queries()
  return g.ops


def gen_single(r, n_nodes, n_origins):
  """One variable with exactly one binding whose origins are spread over a graph that crosses 64-node buckets:
  the bindings_.size()==1 shortcut (bit matrix) against the general walk (model token L) and the oracle."""
  g = Gen(r)
  g.emit("N")
  while g.nn < n_nodes:
    if r.random() < 0.8:
      g.emit("K", g.node() if r.random() < 0.5 else g.nn - 1)
    else:
      g.emit("N")
  for _ in range(n_nodes // 3):
    a, b = g.node(), g.node()
    if a > b and r.random() < 0.8:
      a, b = b, a
    g.emit("C", a, b)
  g.emit("V")
  g.emit("V")
  for i in range(n_origins):
    g.emit("A", 0, 1, g.node())
    for _ in range(6):
      n = g.node()
      g.ops.append(("B", 0, n)); g.ops.append(("L", 0, n))
    if i == n_origins // 2:                       # a second variable, two bindings, same graph
      g.emit("A", 1, 1, g.node()); g.emit("A", 1, 2, g.node())
  for _ in range(30):
    n = g.node()
    g.ops.append(("B", 0, n)); g.ops.append(("L", 0, n)); g.ops.append(("F", 0, n)); g.ops.append(("B", 1, n))
    a, b = g.node(), g.node()
    g.emit("C", a, b)
    g.ops.append(("R", a, b)); g.ops.append(("R", b, a))
  return g.ops


def gen_entry(r, n_nodes):
  """Cycles through the entrypoint: a node is made the entrypoint (before or after the edges exist, possibly moved
  and reset in between) and edge paths lead back into it; is_reachable is asked for (x, entrypoint) pairs, the full
  matrix while small, and Bindings at the entrypoint for a variable bound inside the cycle."""
  g = Gen(r)
  g.emit("N")
  e = 0
  early = r.random() < 0.5
  if early:
    g.emit("E", 0)
  while g.nn < n_nodes:
    g.emit("K", g.nn - 1 if r.random() < 0.7 else g.node())
  if not early or r.random() < 0.5:
    e = g.node() if r.random() < 0.5 else 0
    if r.random() < 0.3:
      g.emit("E", None)
    g.emit("E", e)
  g.emit("V")
  g.emit("A", 0, 1, g.node())
  for _ in range(r.randint(1, 3)):
    src = g.node()
    g.emit("C", src, e)                           # a back edge into the entrypoint
    for x in {src, g.node(), g.node(), g.nn - 1}:
      g.ops.append(("R", x, e)); g.ops.append(("R", e, x))
    g.ops.append(("B", 0, e)); g.ops.append(("L", 0, e))
    if g.nn <= 12:
      g.ops.append(("M",))
    if r.random() < 0.4:
      g.emit("A", 0, r.randrange(1, 4), g.node())
    if r.random() < 0.3:
      e2 = g.node()
      g.emit("E", e2)
      g.ops.append(("R", e, e2)); g.ops.append(("R", g.node(), e2))
      e = e2
  g.queries()
  return g.ops


def gen_maxvar(r, extra):
  """More than MAX_VAR_SIZE-1 distinct data on one variable: the default_data fallback of FindOrAddBinding."""
  g = Gen(r)
  g.emit("N"); g.emit("K", 0); g.emit("K", 1); g.emit("K", 1); g.emit("C", 2, 3)
  g.emit("V"); g.emit("V")
  n = 62 + extra
  for d in range(1, n + 1):
    g.emit("A", 0, d, r.randrange(g.nn) if r.random() < 0.9 else None)
    if d >= 60:
      g.ops.append(("B", 0, None)); g.ops.append(("D", 0, None)); g.ops.append(("D", 0, g.node()))
  g.emit("A", 0, 5, 3)                            # existing data: not replaced by the default
  g.emit("A", 0, 150, 2)                          # new data: default again (already present)
  g.emit("U", 1, 0, None); g.ops.append(("D", 1, None)); g.ops.append(("B", 1, 3))
  g.emit("G", 0, 2); g.ops.append(("D", 2, None)); g.ops.append(("B", 2, 3)); g.ops.append(("B", 2, 0))
  g.queries()
  return g.ops


def exhaustive_small():
  """Every history over the fixed 4-node diamond-with-back-edge graph that makes <= 3 AddBinding calls (data in
  {1,2}, any node) on one variable, all nodes queried after every call."""
  base = [("N",), ("K", 0), ("K", 0), ("K", 1), ("C", 2, 3), ("C", 3, 1), ("V",)]
  res = []
  def rec(h, k):
    if k == 0:
      res.append(list(h)); return
    for d in (1, 2):
      for n in range(4):
        hh = h + [("A", 0, d, n)] + [("B", 0, x) for x in range(4)] + [("L", 0, x) for x in range(4)]
        rec(hh, k - 1)
  rec(base, 3)
  return res


# ------------------------------------------------------------------------------------ shrinking

def strip_queries(h):
  return [o for o in h if o[0] in OPS]


def shrink(h, bad, budget_s=15.0):
  """Greedy removal of non-query ops (later ones first) while bad(core + final queries) stays true."""
  deadline = time.time() + budget_s
  h = list(h)
  changed = True
  while changed and time.time() < deadline:
    changed = False
    for i in range(len(h) - 1, -1, -1):
      if time.time() > deadline:
        break
      if h[i][0] in "NKVWG":          # index-shifting ops: keep (removing them renumbers everything after)
        continue
      cand = h[:i] + h[i + 1:]
      try:
        if bad(cand):
          h = cand
          changed = True
      except Exception:
        pass
  return h
