"""C15 — any compilable source is analysed to a result, never an internal failure.

PARTIAL by nature: a total Gallina function cannot exhibit an escaping exception, so the proof part covers the
three pieces that are logic, and the bulk of the assurance is a declared SEARCH over real runs of pytype.

Proof (coq/Props/C15.v over coq/Io/Model.v + coq/Generated/C15_Handlers.v):
  dispatch_total            every opcode of pycnite's 3.8-3.12 tables that can reach the VM has an opcodes.py class
                            and a byte_<NAME> handler (table REGENERATED from /repo and pycnite on every run)
  outcome_classification    the except chain of io.check_or_generate_pyi (clauses + subclass matrix REGENERATED
                            from io.py's AST and the live classes) maps every event to the stated outcome
  line_split_exact & co     errors.Error._find_all_line_split/_visualize_failed_lines cut out exactly the blamed line
                            for a line inside the file; Examples show the wrap-around for a line past the file
Tie: regeneration (fail-closed translator) + correspondence (injected exceptions through the real
     check_or_generate_pyi; random texts/lines through the real Error methods) against the model in cases.v.
Search/oracle: generated programs, token-level mutants, CPython 3.12 stdlib slices through the real
     io.check_or_generate_pyi in worker subprocesses with a per-file timeout.
"""
import ast
import collections
import glob
import inspect
import json
import os
import re
import subprocess
import sys
import time
import warnings

import common

sys.path.insert(0, os.path.dirname(os.path.abspath(__file__)))
import c15_compile  # noqa: E402
import c15_errline  # noqa: E402
import c15_gen   # noqa: E402
import c15_pool  # noqa: E402

GEN_V = os.path.join(common.COQ, "Generated", "C15_Handlers.v")
SCRATCH = os.path.join(common.BUILD, "c15")
VERSIONS = [(3, 8), (3, 9), (3, 10), (3, 11), (3, 12)]


class TranslatorError(Exception):
  pass


# =========================================================================================
# (1)+(2) translator: /repo + pycnite  ->  coq/Generated/C15_Handlers.v      (fail-closed)

# the exact shapes of io.check_or_generate_pyi the model was written against (ast.unparse text)
NOFAIL_BODY = (
    "if options.nofail:\n"
    "    log.warning('***Caught exception: %s', str(e), exc_info=True)\n"
    "    if not options.check:\n"
    "        other_error_info = '# Caught error in pytype: ' + str(e).replace('\\n', '\\n#') + '\\n# ' + "
    "'\\n# '.join(traceback.format_exc().splitlines())\n"
    "else:\n"
    "    prefix = str(e.args[0]) if e.args else ''\n"
    "    e.args = (f'{prefix}\\nFile: {options.input}',) + e.args[1:]\n"
    "    raise")
TRY_BODY = (
    "src = read_source_file(options.input, options.open_function)\n"
    "if options.check:\n"
    "    ctx = check_py(src=src, options=options, loader=loader).context\n"
    "    ast, result = (None, None)\n"
    "else:\n"
    "    ret, result = generate_pyi(src=src, options=options, loader=loader)\n"
    "    ctx = ret.context\n"
    "    ast = ret.ast")
BEFORE_TRY = (
    "loader = load_pytd.create_loader(options)\n"
    "compiler_error = None\n"
    "other_error_info = ''\n"
    "src = ''")
AFTER_TRY = (
    "ctx = context.Context(options, loader, src=src)\n"
    "if compiler_error:\n"
    "    ctx.errorlog.python_compiler_error(*compiler_error)\n"
    "ast = pytd_builtins.GetDefaultAst(parser.PyiOptions.from_toplevel_options(options))\n"
    "result = pytd_builtins.DEFAULT_SRC + other_error_info\n"
    "return AnalysisResult(ctx, ast, result)")
ELSE_BODY = "return AnalysisResult(ctx, ast, result)"
SKIP_BODY = "other_error_info = '# skip-file found, file not analyzed'"

# classes the theorems name (cls_<key> constants in the generated file) -> how to find the live class
PROBES = [
    ("UsageError", "pytype.utils:UsageError"),
    ("CompileError", "pytype.pyc.pyc:CompileError"),
    ("ConstantError", "pytype.constant_folding:ConstantError"),
    ("IndentationError", "builtins:IndentationError"),
    ("TabError", "builtins:TabError"),
    ("ParserSyntaxError", "libcst:ParserSyntaxError"),
    ("SyntaxError", "builtins:SyntaxError"),
    ("SkipFileError", "pytype.directors.directors:SkipFileError"),
    ("Exception", "builtins:Exception"),
    ("KeyError", "builtins:KeyError"),
    ("RecursionError", "builtins:RecursionError"),
    ("AssertionError", "builtins:AssertionError"),
    ("VirtualMachineError", "pytype.vm:VirtualMachineError"),
    ("ConversionError", "pytype.abstract.abstract_utils:ConversionError"),
    ("MemoryError", "builtins:MemoryError"),
    ("UnicodeDecodeError", "builtins:UnicodeDecodeError"),
    ("OSError", "builtins:OSError"),
    ("ValueError", "builtins:ValueError"),
    ("UnicodeEncodeError", "builtins:UnicodeEncodeError"),
    ("IndexError", "builtins:IndexError"),
    ("KeyboardInterrupt", "builtins:KeyboardInterrupt"),
    ("SystemExit", "builtins:SystemExit"),
    ("GeneratorExit", "builtins:GeneratorExit"),
    ("BaseException", "builtins:BaseException"),
]


def _resolve(spec):
  import importlib
  mod, name = spec.split(":")
  return getattr(importlib.import_module(mod), name)


def translate_chain():
  """Reads the except chain of io.check_or_generate_pyi from io.py's AST.  Returns
  (clauses [(class object, dotted name, action, line attr)], universe [(key, class)])."""
  from pytype import io as pio
  path = os.path.join(common.REPO, "pytype", "io.py")
  tree = ast.parse(open(path).read())
  fns = [n for n in tree.body if isinstance(n, ast.FunctionDef) and n.name == "check_or_generate_pyi"]
  if len(fns) != 1:
    raise TranslatorError("io.py: expected exactly one check_or_generate_pyi")
  body = [n for n in fns[0].body if not (isinstance(n, ast.Expr) and isinstance(n.value, ast.Constant))]
  tries = [i for i, n in enumerate(body) if isinstance(n, ast.Try)]
  if len(tries) != 1:
    raise TranslatorError("io.check_or_generate_pyi: expected exactly one try statement")
  t = body[tries[0]]
  up = lambda nodes: "\n".join(ast.unparse(n) for n in nodes)
  def same(label, got, want):
    if got != want:
      raise TranslatorError(f"io.check_or_generate_pyi: {label} no longer has the modelled shape:\n{got}\n-- modelled --\n{want}")
  same("statements before try", up(body[:tries[0]]), BEFORE_TRY)
  same("try body", up(t.body), TRY_BODY)
  same("else clause", up(t.orelse), ELSE_BODY)
  same("statements after try", up(body[tries[0] + 1:]), AFTER_TRY)
  if t.finalbody:
    raise TranslatorError("io.check_or_generate_pyi: unexpected finally clause")
  clauses = []
  for h in t.handlers:
    if h.type is None:
      raise TranslatorError("bare except clause is not modelled")
    if isinstance(h.type, ast.Tuple):
      raise TranslatorError("tuple except clause is not modelled")
    dotted = ast.unparse(h.type)
    try:
      cls = eval(dotted, dict(pio.__dict__))  # the class object the running io module would test against
    except Exception as e:  # pylint: disable=broad-except
      raise TranslatorError(f"cannot resolve except class {dotted}: {e}")
    if not (isinstance(cls, type) and issubclass(cls, BaseException)):
      raise TranslatorError(f"except class {dotted} is not an exception class")
    text = up(h.body)
    var = h.name
    m = re.fullmatch(r"compiler_error = \(options\.input, (\w+)\.(\w+), (\w+)\.(\w+)\)", text)
    if text == "raise":
      act, attr = "ActReraise", None
    elif m and m.group(1) == var and m.group(3) == var:
      act, attr = "ActCompilerError", m.group(2)
    elif text == SKIP_BODY:
      act, attr = "ActSkip", None
    elif text == NOFAIL_BODY and var == "e":
      act, attr = "ActNofailBranch", None
    else:
      raise TranslatorError(f"except {dotted}: body is not one of the modelled shapes:\n{text}")
    clauses.append((cls, dotted, act, attr))
  universe = []
  seen = set()
  for key, spec in PROBES:
    cls = _resolve(spec)
    universe.append((key, cls))
    seen.add(cls)
  for cls, dotted, _, _ in clauses:
    if cls not in seen:
      universe.append((re.sub(r"\W", "_", dotted), cls))
      seen.add(cls)
  return clauses, universe


def translate_ops():
  """(rows, intrinsics): rows = [(name, [minor versions], absorbed, has_class, has_handler, detail)]."""
  from pycnite import bytecode, mapping
  from pytype import tracer_vm, vm
  from pytype.pyc import opcodes
  vmcls = tracer_vm.CallTracer
  if vm.VirtualMachine not in vmcls.__mro__:
    raise TranslatorError("tracer_vm.CallTracer no longer derives from vm.VirtualMachine")
  # the dispatch expressions the model is about
  src = inspect.getsource(vm.VirtualMachine.run_instruction)
  if 'getattr(self, f"byte_{op.name}", None)' not in src:
    raise TranslatorError("vm.run_instruction no longer dispatches through getattr(self, f'byte_{op.name}', None)")
  src = inspect.getsource(opcodes._make_opcodes)  # pylint: disable=protected-access
  if "g[op.name].for_python_version(python_version)" not in src:
    raise TranslatorError("opcodes._make_opcodes no longer looks the class up as g[op.name].for_python_version(..)")
  if "return self.__class__.__name__" not in inspect.getsource(opcodes.Opcode.name.fget):
    raise TranslatorError("Opcode.name is no longer the class name")

  def takes(fn, n):
    try:
      sig = inspect.signature(fn)
    except (TypeError, ValueError):
      return False
    ps = [p for p in sig.parameters.values() if p.kind in (p.POSITIONAL_ONLY, p.POSITIONAL_OR_KEYWORD)]
    var = any(p.kind == p.VAR_POSITIONAL for p in sig.parameters.values())
    req = [p for p in ps if p.default is p.empty]
    return len(req) <= n and (len(ps) >= n or var)

  by_name = collections.OrderedDict()
  for v in VERSIONS:
    opmap = mapping.get_mapping(v)
    for num, name in sorted(opmap.items()):
      # does the disassembler ever hand this opcode on?  (EXTENDED_ARG is folded into the next argument)
      yielded = [o.op for o in bytecode.wordcode_reader(bytes([num, 1, 9, 0]))]
      absorbed = num not in yielded
      cls = opcodes.__dict__.get(name)
      has_class = isinstance(cls, type) and issubclass(cls, opcodes.Opcode)
      hname = None
      if has_class:
        try:
          vcls = cls.for_python_version(v)
          has_class = isinstance(vcls, type) and issubclass(vcls, opcodes.Opcode)
          hname = vcls.__name__
        except Exception:  # pylint: disable=broad-except
          has_class = False
      fn = getattr(vmcls, "byte_" + (hname or name), None)
      has_handler = callable(fn) and takes(fn, 3)       # (self, state, op)
      row = by_name.setdefault(name, {"versions": [], "absorbed": True, "cls": True, "handler": True, "detail": []})
      row["versions"].append(v[1])
      row["absorbed"] &= absorbed
      row["cls"] &= has_class
      row["handler"] &= has_handler
      if not absorbed and not (has_class and has_handler):
        row["detail"].append(f"3.{v[1]}:class={has_class},handler={has_handler}")
  if 9 not in [o.op for o in bytecode.wordcode_reader(bytes([9, 0]))]:
    raise TranslatorError("probe of pycnite.wordcode_reader is broken (NOP not yielded)")
  # the same fact on real code: CPython emits EXTENDED_ARG for the 300th constant, pytype's opcode list has none
  import dis as cpython_dis
  from pytype.pyc import pyc
  big = "def f(a):\n" + "".join(f"  a = a + 's{i}'\n" for i in range(300)) + "  return a\n"
  code = compile(big, "big.py", "exec")
  def all_codes(c):
    yield c
    for k in c.co_consts:
      if hasattr(k, "co_code"):
        yield from all_codes(k)
  cpy = {i.opname for c in all_codes(code) for i in cpython_dis.get_instructions(c)}
  pcode = pyc.compile_src(big, "big.py", sys.version_info[:2], None)
  def all_pcodes(c):
    yield c
    for k in c.co_consts:
      if hasattr(k, "co_code"):
        yield from all_pcodes(k)
  pyt = {o.name for c in all_pcodes(pcode) for o in opcodes.dis(c)}
  if sys.version_info[:2] == (3, 12) and ("EXTENDED_ARG" not in cpy or "EXTENDED_ARG" in pyt):
    raise TranslatorError(f"EXTENDED_ARG probe on real code: cpython emits={'EXTENDED_ARG' in cpy}, pytype sees={'EXTENDED_ARG' in pyt}")
  rows = [(n, r["versions"], r["absorbed"], r["cls"], r["handler"], ";".join(r["detail"])) for n, r in by_name.items()]
  intr = []
  for src_fn, descs in (("byte_CALL_INTRINSIC_1", mapping.PYTHON_3_12_INTRINSIC_1_DESCS),
                        ("byte_CALL_INTRINSIC_2", mapping.PYTHON_3_12_INTRINSIC_2_DESCS)):
    s = inspect.getsource(getattr(vm.VirtualMachine, src_fn))
    if 'getattr(self, f"byte_{op.argval}", None)' not in s or "intrinsic_fn(state)" not in s:
      raise TranslatorError(f"vm.{src_fn} no longer dispatches through getattr(self, f'byte_{{op.argval}}', None)(state)")
    for d in descs:
      fn = getattr(vmcls, "byte_" + d, None)
      intr.append((d, callable(fn) and takes(fn, 2)))
  return rows, intr


def coq_bool(b):
  return "true" if b else "false"


def coq_str(s):
  if not re.fullmatch(r"[A-Za-z0-9_.]+", s):
    raise TranslatorError(f"unexpected name {s!r}")
  return '"' + s + '"'


def generate_v():
  """Returns (text of Generated/C15_Handlers.v, info dict)."""
  rows, intr = translate_ops()
  clauses, universe = translate_chain()
  ids = {cls: i for i, (_, cls) in enumerate(universe)}
  out = []
  out.append("(* GENERATED on every run by harness/props/c15.py from /repo/pytype/{pyc/opcodes.py,vm.py,tracer_vm.py,io.py},")
  out.append("   pycnite's opcode tables and the live exception classes.  Do not edit, do not commit. *)")
  out.append("From Coq Require Import String.")
  out.append("From Coq Require Import List Bool NArith.")
  out.append("From PV Require Import Io.Model.")
  out.append("Import ListNotations.")
  out.append("Local Open Scope string_scope.")
  out.append("")
  out.append("Definition supported_minor_versions : list nat := [%s]." % "; ".join(str(v[1]) for v in VERSIONS))
  out.append("Definition op_table : list oprow := [")
  out.append(";\n".join("  mkOp %s [%s] %s %s %s" % (coq_str(n), "; ".join(map(str, vs)), coq_bool(a), coq_bool(c), coq_bool(h))
                        for n, vs, a, c, h, _ in rows))
  out.append("].")
  out.append("Definition intrinsic_table : list intrinsic_row := [")
  out.append(";\n".join("  mkIntr %s %s" % (coq_str(n), coq_bool(h)) for n, h in intr))
  out.append("].")
  out.append("")
  out.append("(* exception class universe: id = position *)")
  for i, (key, cls) in enumerate(universe):
    out.append(f"Definition cls_{key} : nat := {i}.   (* {cls.__module__}.{cls.__qualname__} *)")
  out.append("Definition class_universe : list nat := [%s]." % "; ".join(f"cls_{k}" for k, _ in universe))
  out.append("(* subclass_matrix[c][h] = issubclass(class c, class h) *)")
  out.append("Definition subclass_matrix : list (list bool) := [")
  out.append(";\n".join("  [" + "; ".join(coq_bool(issubclass(ci, cj)) for _, cj in universe) + "]" for _, ci in universe))
  out.append("].")
  out.append("(* the except clauses of io.check_or_generate_pyi, in source order *)")
  out.append("Definition except_chain : list clause := [")
  out.append(";\n".join(f"  mkClause cls_{universe[ids[cls]][0]} {act}   (* except {dotted}" + (f": line = e.{attr}" if attr else "") + " *)"
                        for cls, dotted, act, attr in clauses))
  out.append("].")
  out.append("Definition outcome (ev : event) (nofail check : bool) : outcome :=")
  out.append("  outcome_of subclass_matrix except_chain ev nofail check.")
  out.append("")
  try:
    cinfo = c15_compile.translate_compile()
  except c15_compile.TranslatorError as e:
    raise TranslatorError(str(e))
  out.extend(c15_compile.coq_lines(cinfo))
  out.append("")
  info = {"compile": cinfo, "rows": rows, "intrinsics": intr, "clauses": [(d, a, at) for _, d, a, at in clauses],
          "universe": universe, "ids": ids, "clause_objs": clauses}
  return "\n".join(out), info


# =========================================================================================
# correspondence (2): inject exceptions into the real check_or_generate_pyi

class _FakeOp:
  def __init__(self, line):
    self.line = line


def make_exception(key, cls, line, attr):
  """An instance of `cls` whose line attribute (the one the matching clause reads) is `line`."""
  import libcst
  from pytype import constant_folding
  from pytype.pyc import pyc
  if cls is pyc.CompileError:
    # the line is parsed out of the message by _COMPILE_ERROR_RE; no match -> 1
    if line is None:
      return None
    e = cls(f"bad thing (input.py, line {line})")
    assert e.line == line
    return e
  if cls is constant_folding.ConstantError:
    return cls("Value after * must be an iterable, not int", _FakeOp(line))
  if issubclass(cls, SyntaxError):
    e = cls("invalid syntax", ("input.py", line, 1, "x", line, 2))
    assert e.lineno == line
    return e
  if cls is libcst.ParserSyntaxError:
    if line is None:
      return None
    return cls("parser error", lines=["x"] * (line + 1), raw_line=line, raw_column=0)
  if cls is UnicodeDecodeError:
    return cls("utf8", b"\xff", 0, 1, "invalid start byte")
  if cls is UnicodeEncodeError:
    return cls("utf-8", "\udce9", 0, 1, "surrogates not allowed")
  if key in ("Exception0",):
    return Exception()
  try:
    return cls("injected " + key)
  except TypeError:
    return cls()


def real_outcome(io_mod, opts, exc, fake_ctx):
  """Runs the real check_or_generate_pyi with check_py/generate_pyi replaced; returns the encoded outcome."""
  from pytype.imports import builtin_stubs
  from pytype.pyi import parser as pyi_parser

  class _Ret:
    context = fake_ctx
    ast = "FAKE-AST"

  def fake_check_py(src, options, loader):  # pylint: disable=unused-argument
    if exc is not None:
      raise exc
    return _Ret()

  def fake_generate_pyi(src, options, loader):  # pylint: disable=unused-argument
    if exc is not None:
      raise exc
    return _Ret(), "FAKE-PYI"

  saved = io_mod.check_py, io_mod.generate_pyi
  io_mod.check_py, io_mod.generate_pyi = fake_check_py, fake_generate_pyi
  try:
    try:
      r = io_mod.check_or_generate_pyi(opts)
    except BaseException as e:  # pylint: disable=broad-except
      ann = bool(e.args) and str(e.args[0]).endswith(f"\nFile: {opts.input}")
      return [1, 1 if ann else 0], "raised " + type(e).__name__
  finally:
    io_mod.check_py, io_mod.generate_pyi = saved
  if r.context is fake_ctx:
    ok = (r.ast is None and r.pyi is None) if opts.check else (r.ast == "FAKE-AST" and r.pyi == "FAKE-PYI")
    return ([0] if ok else [9]), "result"
  names = [e.name for e in r.context.errorlog]
  lines = [e.line for e in r.context.errorlog]
  if any(n != "python-compiler-error" for n in names):
    return [9], "unexpected errors " + repr(names)
  default_ast = builtin_stubs.GetDefaultAst(pyi_parser.PyiOptions.from_toplevel_options(opts))
  from pytype.pytd import pytd_utils
  if r.ast is None or not pytd_utils.ASTeq(r.ast, default_ast) or r.pyi is None or not r.pyi.startswith(builtin_stubs.DEFAULT_SRC):
    return [9], "not the default stub"
  suffix = r.pyi[len(builtin_stubs.DEFAULT_SRC):]
  if suffix == "":
    i = 0
  elif suffix == "# skip-file found, file not analyzed":
    i = 1
  elif suffix.startswith("# Caught error in pytype: "):
    i = 2
  else:
    return [9], "unexpected pyi suffix " + suffix[:60]
  return [2, i] + lines, "default"


def correspondence_chain(res, info, r):
  from pytype import config, io as pio
  os.makedirs(SCRATCH, exist_ok=True)
  path = os.path.join(SCRATCH, "inject_input.py")
  with open(path, "w") as f:
    f.write("x = 1\ny = 2\n")
  attr_of = {}
  for cls, _, act, attr in info["clause_objs"]:
    attr_of[cls] = attr
  cases = []
  universe = info["universe"]
  fake_ctx = object()
  line_values = [None, 0, 1, 7, 2000]
  for key, cls in universe:
    # the clause that will match decides which attribute carries the line
    lines = line_values if any(issubclass(cls, c) and a == "ActCompilerError" for c, _, a, _ in info["clause_objs"]) else [None]
    for line in lines:
      for nofail in (False, True):
        for check in (False, True):
          cases.append((key, cls, line, nofail, check))
  cases.append(("Exception0", Exception, None, False, False))
  cases.append(("Exception0", Exception, None, True, False))
  real = []
  model_terms = []
  kept = []
  ids = info["ids"]
  logging_off()
  optcache = {}
  def options_for(nofail, check):
    if (nofail, check) not in optcache:
      optcache[(nofail, check)] = config.Options.create(path, check=check, nofail=nofail, python_version=(3, 12),
                                                        output=None if check else "-")
    return optcache[(nofail, check)]
  for key, cls, line, nofail, check in cases:
    exc = make_exception(key, cls, line, None)
    if exc is None:
      continue
    opts = options_for(nofail, check)
    enc, what = real_outcome(pio, opts, exc, fake_ctx)
    real.append(enc)
    kept.append((key, line, nofail, check, what))
    lt = "None" if line is None else f"(Some {line})"
    model_terms.append(f"(Raised {ids[cls]} {lt}, {coq_bool(nofail)}, {coq_bool(check)})")
  for nofail in (False, True):
    for check in (False, True):
      opts = options_for(nofail, check)
      enc, what = real_outcome(pio, opts, None, fake_ctx)
      real.append(enc)
      kept.append(("<returned>", None, nofail, check, what))
      model_terms.append(f"(Returned, {coq_bool(nofail)}, {coq_bool(check)})")
  body = ("From Coq Require Import List Bool.\nFrom PV Require Import Io.Model Generated.C15_Handlers.\nImport ListNotations.\n"
          "Definition cases : list (event * bool * bool) := [\n  " + ";\n  ".join(model_terms) + "].\n"
          "Eval vm_compute in (map (fun c => match c with (ev, nf, ck) => encode_outcome (outcome ev nf ck) end) cases).\n")
  ok, out = common.run_cases_v("c15_chain", body)
  if not ok:
    res.obligation("correspondence:except-chain", False, "cases.v failed: " + out[-1500:])
    return
  terms = common.parse_coq_eval(out)
  model = [[int(x) for x in re.findall(r"\d+", grp)] for grp in re.findall(r"\[([^\[\]]*)\]", terms[0])] if terms else []
  mism = [(k, m, rl) for k, m, rl in zip(kept, model, real) if m != rl]
  if len(model) != len(real):
    mism.append(("length", len(model), len(real)))
  for k, m, rl in zip(kept, model, real):
    res.count(("chain", k[0], k[1], k[2], k[3]) if rl != [0] else None)
  res.obligation("correspondence:except-chain-model-vs-io.check_or_generate_pyi", not mism,
                 f"{len(mism)} of {len(real)} injected events disagree: {mism[:4]}")
  res.extra["chain_cases"] = len(real)
  res.sample({"injected": "IndentationError(lineno=7), nofail=False, check=False",
              "real_outcome": next((rl for k, rl in zip(kept, real) if k[0] == "IndentationError" and k[1] == 7), None)})
  # CompileError's own line extraction (compiler.py _COMPILE_ERROR_RE), checked directly
  from pytype.pyc import pyc
  bad = []
  for msg, want in [("invalid syntax (f.py, line 3)", 3), ("x (a b.py, line 12)", 12), ("no location", 1),
                    ("multi\nline (f.py, line 4)", 1), ("'(' was never closed (<>, line 1)", 1),
                    ("source code string cannot contain null bytes", 1)]:
    if pyc.CompileError(msg).line != want:
      bad.append((msg, pyc.CompileError(msg).line, want))
  res.obligation("correspondence:CompileError-line-extraction", not bad, repr(bad))


def logging_off():
  import logging
  logging.disable(logging.CRITICAL)


# =========================================================================================
# correspondence (3): real Error._find_all_line_split / _visualize_failed_lines vs the model

def gen_text(r):
  alphabet = ["a", "b", " ", "x", "=", "1", "\n", "\n", "\n", "é", "#", "\t"]
  n = r.choice([0, 1, 2, 3, 5, 8, 13, 21, 40])
  s = "".join(r.choice(alphabet) for _ in range(n))
  k = r.random()
  if k < .2:
    s = s.rstrip("\n")
  elif k < .4:
    s += "\n"
  elif k < .5:
    s = "\n" + s
  return s


def correspondence_lines(res, r, n_cases):
  from pytype import utils
  from pytype.errors import errors
  pre, post = utils.COLOR_ERROR_NAME_TEMPLATE.split("%s")
  cl = lambda s: "[" + "; ".join(str(ord(c)) for c in s) + "]"
  split_cases = []
  vis_cases = []
  for i in range(n_cases):
    s = gen_text(r)
    nl = s.count("\n") + 1
    b = r.randint(0, nl + 2)
    e = r.choice([b, b, r.randint(0, nl + 2), b + 1, b + 2])
    err = errors.Error.for_test(errors.SEVERITY_ERROR, "m", "test-error", src=s, filename="f.py", line=1)
    pts = err._find_all_line_split(b, e)  # pylint: disable=protected-access
    split_cases.append((s, b, e, pts))
    line = r.choice([0, 1, 1, 2, 3, nl, nl + 1, nl + 3, r.randint(0, nl + 1)])
    endline = r.choice([0, 0, line, line + 1, line + 2, max(line - 1, 0), nl])
    col = r.choice([0, 0, 1, 2, 5])
    endcol = r.choice([0, 0, 1, 3, 7])
    hasfn = r.random() < .9
    err = errors.Error.for_test(errors.SEVERITY_ERROR, "m", "test-error", src=s, filename="f.py" if hasfn else None,
                                line=line, endline=endline, col=col, endcol=endcol)
    txt = err._visualize_failed_lines()  # pylint: disable=protected-access
    vis_cases.append((s, hasfn, line, endline, col, endcol, txt))
    inside = 1 <= line <= nl and (endline == 0 or line <= endline <= nl)
    res.count(("lines", s, line, endline, col, endcol) if inside and s else None)
  bodies = []
  chunk = 200
  for k in range(0, len(split_cases), chunk):
    sc = split_cases[k:k + chunk]
    vc = vis_cases[k:k + chunk]
    body = ("From Coq Require Import List Bool Arith ZArith.\nFrom PV Require Import Io.Model.\nImport ListNotations.\n"
            "Fixpoint leqb (a b : list nat) : bool := match a, b with [], [] => true | x :: a', y :: b' => (x =? y) && leqb a' b' | _, _ => false end.\n"
            "Fixpoint bad_idx {A} (f : A -> bool) (i : nat) (l : list A) : list nat := match l with [] => [] | x :: t => (if f x then [] else [i]) ++ bad_idx f (S i) t end.\n"
            f"Definition pre := {cl(pre)}.\nDefinition post := {cl(post)}.\n"
            "Definition split_cases : list (list nat * nat * nat * list nat) := [\n  " +
            ";\n  ".join(f"({cl(s)}, {b}, {e}, [{'; '.join(map(str, pts))}])" for s, b, e, pts in sc) + "].\n"
            "Definition vis_cases : list (list nat * bool * (nat * nat * nat * nat) * list nat) := [\n  " +
            ";\n  ".join(f"({cl(s)}, {coq_bool(h)}, ({ln}, {el}, {c}, {ec}), {cl(txt)})" for s, h, ln, el, c, ec, txt in vc) + "].\n"
            "Eval vm_compute in (bad_idx (fun c => match c with (s, b, e, want) => leqb (find_all_line_split s b e) want end) 0 split_cases).\n"
            "Eval vm_compute in (bad_idx (fun c => match c with (s, h, (ln, el, c, ec), want) => leqb (render pre post (visualize s h ln el c ec)) want end) 0 vis_cases).\n")
    bodies.append((f"c15_lines{k // chunk}", body))
  outs = common.run_cases_parallel(bodies)
  bad = []
  for name, _ in bodies:
    ok, out = outs[name]
    if not ok:
      bad.append((name, "coqc failed: " + out[-800:]))
      continue
    terms = common.parse_coq_eval(out)
    if len(terms) != 2 or any(t != "[]" for t in terms):
      k0 = int(name[len("c15_lines"):]) * chunk
      idx = [int(x) for x in re.findall(r"\d+", terms[0])] if terms else []
      bad.append((name, terms, [split_cases[k0 + i] for i in idx[:2]]))
  res.obligation("correspondence:line-split-and-visualize-model-vs-errors.Error", not bad, repr(bad)[:1500])
  res.extra["line_cases"] = 2 * n_cases


# =========================================================================================
# search: oracle on real runs

# opcodes CPython 3.12 emits with line 0 (function/generator prologue): they never are the current opcode of an error
PROLOGUE_OPS = {"RESUME", "RETURN_GENERATOR", "POP_TOP", "COPY_FREE_VARS", "MAKE_CELL"}

DOCUMENTED_CONSTANT_ERRORS = ("Value after * must be an iterable", "Value after ** must be an mapping", "TypeError: ")


def seen_text(src):
  """What read_source_file hands to the analysis (text mode = universal newlines)."""
  return src.replace("\r\n", "\n").replace("\r", "\n")


def cpython_verdict(seen):
  """("compiles",) | ("syntax", blamed line as pytype must report it, msg) | ("other", exception type name)."""
  with warnings.catch_warnings():
    warnings.simplefilter("ignore")
    parser_stage = None
    try:
      ast.parse(seen)
    except SyntaxError as e:
      parser_stage = e
    except (ValueError, RecursionError, MemoryError, OverflowError) as e:
      return ("other", type(e).__name__)
    try:
      compile(seen, "input.py", "exec", dont_inherit=True)
    except SyntaxError as e:
      if parser_stage is not None:
        # found by the parser: directors.parse_src sees the same SyntaxError; line = e.lineno or 0
        return ("syntax", e.lineno or 0, e.msg)
      # found by the compiler proper (symtable/codegen): pytype gets str(err) back from compile_bytecode and
      # parses "(file, line N)"; without a line the regex fails and CompileError.line = 1
      # (CPython 3.12 can blame line -1, e.g. `return` in an except* block inside `async with`: `\d+` does not
      # match "-1" either, so that is line 1 as well)
      return ("syntax", e.lineno if e.lineno is not None and e.lineno >= 0 else 1, e.msg)
    except (ValueError, RecursionError, MemoryError, OverflowError) as e:
      return ("other", type(e).__name__)
  return ("compiles",)


def ast_depth(seen):
  """Nesting depth of the text's AST (iterative; 0 if it does not parse)."""
  try:
    with warnings.catch_warnings():
      warnings.simplefilter("ignore")
      tree = ast.parse(seen)
  except Exception:  # pylint: disable=broad-except
    return 0
  depth = 0
  todo = [(tree, 1)]
  while todo:
    n, d = todo.pop()
    depth = max(depth, d)
    todo.extend((c, d + 1) for c in ast.iter_child_nodes(n))
  return depth


def augmented_breaks(seen):
  """True if pytype's own source rewriting (preprocess.augment_annotations) turns a compiling text into a
  non-compiling one."""
  try:
    from pytype import preprocess
    aug = preprocess.augment_annotations(seen)
    if aug == seen:
      return False
    with warnings.catch_warnings():
      warnings.simplefilter("ignore")
      compile(aug, "input.py", "exec", dont_inherit=True)
    return False
  except SyntaxError:
    return True
  except Exception:  # pylint: disable=broad-except
    return False


def file_lines(seen):
  """Number of lines of the text as CPython numbers them: a final newline does not start another line."""
  return seen.count("\n") + (0 if seen.endswith("\n") or seen == "" else 1)


def judge(src, r, stats=None):
  """Oracle.  Returns (category, [(fingerprint, what)]) for one worker result.  `stats` (a Counter) receives
  errors_checked / errors_on_last_line / errors_on_last_two_lines for the line clause."""
  seen = seen_text(src)
  st = r["status"]
  if st in ("timeout", "skipped"):
    return st, []
  if st == "harness-error":
    return "harness-error", []
  if st == "died":
    return "died", [(f"worker-died:rc={r.get('rc')}", f"the analysing process died (exit code {r.get('rc')})")]
  verdict = cpython_verdict(seen)
  if st in ("raise", "print-raise"):
    if r["exc"] == "UsageError" and "typeshed" in r.get("msg", ""):
      return "not-explorable:typeshed", []
    if verdict[0] == "other" and r["exc"] == verdict[1]:
      # CPython itself fails with a resource error (e.g. RecursionError on a 3000-term sum); same error from pytype
      return "not-explorable:cpython-resource-limit", []
    stage = "escape" if st == "raise" else "escape-while-printing"
    if r["exc"] == "RecursionError" and ast_depth(seen) > 100:
      # one root cause (pytype's recursive AST/bytecode passes on a deeply nested source CPython still compiles),
      # but the frame in which the limit is hit first varies with the nesting depth: name the cause, not the frame
      return stage, [(f"{stage}:RecursionError:deeply-nested-source",
                      f"RecursionError escapes io.check_or_generate_pyi on a source whose AST is {ast_depth(seen)} levels deep "
                      f"(CPython compiles it; first hit in {r.get('pytype_frame')})")]
    return stage, [(f"{stage}:{r['exc']}:{r.get('pytype_frame')}",
                    f"{r['exc']} escapes io.check_or_generate_pyi ({r.get('msg', '')[:120]!r}; innermost pytype frame {r.get('pytype_frame')})")]
  errs = r["errors"]
  nl = file_lines(seen)
  viol = []
  if stats is not None:
    # monitored hypotheses of logged_line_in_file: every opcode line and every function-range end is a line of the file
    ops, fr = r.get("ops"), r.get("fr")
    if ops and ops[0] and nl > 0:
      stats["programs_with_opcodes_monitored"] += 1
      stats["opcodes_monitored"] += ops[0]
      for nm in ops[3]:
        stats["line0:" + nm] += 1
      if (ops[1] is not None and not (1 <= ops[1] and ops[2] <= nl)) or not set(ops[3]) <= PROLOGUE_OPS:
        stats["opcode_line_outside_file"] += 1
        stats.setdefault("_mon_bad", []).append(f"opcode lines {ops[1]}..{ops[2]}, line 0 on {ops[3]} in a {nl}-line text: {seen[:200]!r}")
    if fr and fr[0]:
      stats["function_ranges_monitored"] += fr[0]
      if not (1 <= fr[1] and fr[2] <= nl):
        stats["function_range_end_outside_file"] += 1
        stats.setdefault("_mon_bad", []).append(f"function range ends {fr[1]}..{fr[2]} in a {nl}-line text: {seen[:200]!r}")
  cerrs = [e for e in errs if e[0] == "python-compiler-error"]
  if verdict[0] == "syntax":
    cat = "compile-error"
    if len(errs) != 1 or len(cerrs) != 1:
      viol.append(("compile-error-report:count", f"CPython rejects the text (line {verdict[1]}: {verdict[2]}) but pytype reports {[(e[0], e[1]) for e in errs][:5]}"))
    elif cerrs[0][1] != verdict[1]:
      viol.append(("compile-error-report:line", f"CPython blames line {verdict[1]} ({verdict[2]}), pytype reports line {cerrs[0][1]}"))
    elif not r.get("pyi_default") and r.get("has_pyi"):
      viol.append(("compile-error-report:stub", "compile error but the stub is not the default stub"))
  elif verdict[0] == "other":
    cat = "cpython-resource-limit"
  else:
    cat = "analysed"
    fallback = bool(r.get("has_pyi")) and bool(r.get("pyi_default"))   # the whole-file fallback of the except chain
    for e in cerrs:
      if e[5].startswith(DOCUMENTED_CONSTANT_ERRORS):
        cat = "analysed:constant-error"       # io.py `except constant_folding.ConstantError` (documented)
      elif not fallback:
        # reported by the VM while the analysis went on and produced a real stub: a string that pytype evaluates
        # as an annotation (e.g. type['...']) did not parse.  Part of the error report, not a rejected file.
        cat = "analysed:string-annotation-compiler-error"
      elif augmented_breaks(seen):
        viol.append(("spurious-compiler-error:augment_annotations",
                     f"CPython compiles the text; pytype's preprocess.augment_annotations rewrites it into invalid syntax and reports python-compiler-error at line {e[1]}: {e[5]}"))
      else:
        viol.append(("spurious-compiler-error:other", f"CPython compiles the text but pytype reports python-compiler-error at line {e[1]}: {e[5]}"))
  # the line clause, for EVERY error of EVERY analysed input: 1 <= line <= number of lines of the file.
  # Only exception: the single python-compiler-error of a text CPython rejects carries CPython's own line (compared
  # above; CPython may blame 0 = no line for null bytes, or the line after the last one at an unexpected EOF).
  for e in errs:
    name, line, endline, hasfn, excerpt_ok = e[0], e[1], e[2], e[3], e[4]
    if stats is not None:
      stats["errors_checked"] += 1
      if line == nl:
        stats["errors_on_last_line"] += 1
      if nl - 1 <= line <= nl:
        stats["errors_on_last_two_lines"] += 1
      if endline and endline != line:
        stats["errors_spanning_lines"] += 1
    if name == "python-compiler-error" and verdict[0] == "syntax" and line == verdict[1]:
      continue
    if not (1 <= line <= nl):
      viol.append((f"error-line-outside-file:{name}", f"{name} reported at line {line} of a {nl}-line text"))
    elif excerpt_ok is False:
      viol.append((f"excerpt-not-the-blamed-line:{name}", f"{name} at line {line}: rendered excerpt differs from the source line"))
  return cat, viol


def minimise(src, fingerprint, entry_kw, budget_s=20.0):
  """Minimisation keeping the same fingerprint; time-bounded; one dedicated worker.

  Passes, repeated until nothing changes or the time is up: (1) delete a statement together with its indented block,
  largest blocks first; (2) unwrap a compound statement (drop the header, dedent its block); (3) delete single
  lines; (4) delete single tokens / replace a bracketed or call expression by a name.  Candidates that CPython
  cannot compile are skipped without running pytype unless the violation itself is about a compile error."""
  deadline = time.time() + budget_s
  env = common.impl_env()
  w = c15_pool._Worker(99, env, "min")  # pylint: disable=protected-access
  about_compile = fingerprint.startswith(("compile-error", "spurious"))
  tried = set()

  def fails(text):
    if not text.strip() or text in tried:
      return False
    tried.add(text)
    if not about_compile and cpython_verdict(seen_text(text))[0] != "compiles":
      return False
    job = dict(entry_kw, id="m", src=text)
    r = w.run(job, 15)
    _, viol = judge(text, r)
    return any(fp == fingerprint for fp, _ in viol)

  def indent(ln):
    return len(ln) - len(ln.lstrip(" \t"))

  def block_end(lines, i):
    """Index after the block that line i heads (i itself if it heads none); blank lines stay with the block."""
    k = i + 1
    while k < len(lines) and (not lines[k].strip() or indent(lines[k]) > indent(lines[i])):
      k += 1
    return k

  try:
    lines = src.split("\n")
    changed = True
    while changed and time.time() < deadline:
      changed = False
      # (1) statements with their blocks, big ones first
      order = sorted(range(len(lines)), key=lambda i: -(block_end(lines, i) - i))
      i_done = set()
      for i in order:
        if time.time() > deadline:
          break
        if i >= len(lines) or i in i_done or not lines[i].strip():
          continue
        k = block_end(lines, i)
        cand = lines[:i] + lines[k:]
        if cand and fails("\n".join(cand)):
          lines = cand
          changed = True
          break
      if changed:
        continue
      # (2) unwrap compound statements
      for i in range(len(lines)):
        if time.time() > deadline:
          break
        k = block_end(lines, i)
        if k - i < 2 or not lines[i].rstrip().endswith(":"):
          continue
        body = [ln for ln in lines[i + 1:k]]
        d = min((indent(ln) for ln in body if ln.strip()), default=0) - indent(lines[i])
        cand = lines[:i] + [ln[d:] if ln.strip() else ln for ln in body] + lines[k:]
        if fails("\n".join(cand)):
          lines = cand
          changed = True
          break
      if changed:
        continue
      # (3) single lines
      for i in range(len(lines) - 1, -1, -1):
        if time.time() > deadline:
          break
        cand = lines[:i] + lines[i + 1:]
        if cand and fails("\n".join(cand)):
          lines = cand
          changed = True
      if changed:
        continue
      # (4) tokens
      text = "\n".join(lines)
      try:
        toks, tail = c15_gen.tokens_of(text)
      except Exception:  # pylint: disable=broad-except
        break
      join = lambda ts: "".join(a + b for a, b in ts) + tail
      i = len(toks) - 1
      while i >= 0 and time.time() < deadline:
        if toks[i][1].strip():
          cands = [toks[:i] + toks[i + 1:]]
          if toks[i][1] in ")]}":
            # replace the whole bracketed expression (and a callee name in front of it) by a plain name
            depth, k = 0, i
            while k >= 0:
              if toks[k][1] in ")]}":
                depth += 1
              elif toks[k][1] in "([{":
                depth -= 1
                if depth == 0:
                  break
              k -= 1
            if k >= 0:
              cands.insert(0, toks[:k] + [[toks[k][0], "x"]] + toks[i + 1:])
              cands.insert(1, toks[:k] + toks[i + 1:])
          for c in cands:
            t2 = join(c)
            if fails(t2):
              toks = c
              changed = True
              break
        i = min(i - 1, len(toks) - 1)
      lines = join(toks).split("\n")
    return "\n".join(lines)
  finally:
    w.kill()


def build_jobs(res, r, thorough):
  """[(id, kind, src, meta)]; corpus first."""
  jobs = []
  cdir = os.path.join(common.CORPUS, "C15")
  for f in sorted(os.listdir(cdir)) if os.path.isdir(cdir) else []:
    d = json.load(open(os.path.join(cdir, f)))
    jobs.append(("corpus:" + f, "corpus", d["src"], {"check": bool(d.get("check"))}))
  n_prog = 3000 if thorough else 215
  feats = collections.Counter()
  # programs whose LAST statement produces an error (line clause can only fail at the end of the file): every
  # template with and without a final newline, plus random template/ending/prefix combinations
  names = sorted(c15_gen.tail_templates())
  k = 0
  for nm in names:
    for ending in ("", "\n"):
      src, lab = c15_gen.tail_program(r, nm, ending, prefix=False)
      jobs.append((f"tail{k}:{lab}", "tail-error-construct", src, {"check": k % 3 == 0}))
      k += 1
  for _ in range(1200 if thorough else 40):
    src, lab = c15_gen.tail_program(r)
    if r.random() < .3 and not src.endswith("\r\n"):
      src = c15_gen.decorate(r, src)
      lab += "|decorated"
    jobs.append((f"tail{k}:{lab}", "tail-error-construct", src, {"check": k % 3 == 0}))
    k += 1
  # DIRECTIVE layer: a structured comment inside a multi-line statement followed by own-line range directives
  # (every template with a `# type:` and a `# pytype:` comment), plus random template/comment/error-class picks
  # and force-decorated random programs; a share of all random programs is decorated as well (gen_program)
  k = 0
  for nm in sorted(c15_gen.directive_templates()):
    for cm in ("# type: ignore", "# pytype: disable=ERR"):
      src, lab = c15_gen.directive_program(r, nm, cm)
      jobs.append((f"dir{k}:{lab}", "directive-comments", src, {"check": k % 2 == 0}))
      k += 1
  for _ in range(1500 if thorough else 25):
    src, lab = c15_gen.directive_program(r)
    jobs.append((f"dir{k}:{lab}", "directive-comments", src, {"check": k % 2 == 0}))
    k += 1
  for _ in range(1500 if thorough else 25):
    base, _ = c15_gen.gen_program(r)
    if "\r" in base:
      continue
    src = c15_gen.decorate(r, base, force_inner=True)
    jobs.append((f"dir{k}:force-decorated", "directive-comments", src, {"check": k % 2 == 0}))
    k += 1
  # boundary values on concrete abstract values (enumerated, c15_gen.edge_statements): all in thorough, a rotating
  # third in quick (which third depends on the seed, so three seeds cover everything)
  edge = c15_gen.edge_programs()
  for i, (lab, src) in enumerate(edge):
    if thorough or (i // 2) % 3 == res.seed % 3:
      jobs.append((lab, "edge-constants", src, {"check": False}))
  for lab, src in c15_gen.union_shape_programs():
    jobs.append((lab, "edge-constants", src, {"check": False}))
  kinds = collections.Counter()
  progs = []
  for i in range(n_prog):
    s, f = c15_gen.gen_program(r)
    for x in f:
      feats[x] += 1
    progs.append(s)
    jobs.append((f"gen{i}", "generated", s, {"check": i % 4 == 0}))
  for i, s in enumerate(progs):
    m, k = c15_gen.mutate(r, s)
    if r.random() < .25:
      m, k2 = c15_gen.mutate(r, m)
      k = k + "+" + k2
    kinds[k.split("+")[0]] += 1
    jobs.append((f"mut{i}", "mutant", m, {"check": i % 4 == 1, "mutation": k}))
  files = c15_gen.stdlib_files(include_tests=False)
  r.shuffle(files)
  n_slices = 4000 if thorough else 60
  max_lines = 250 if thorough else 60
  cnt = 0
  for p in files:
    for lab, text in c15_gen.slices_of(p, max_lines):
      jobs.append(("std:" + lab, "stdlib-slice", text, {"check": False}))
      cnt += 1
      if cnt >= n_slices:
        break
    if cnt >= n_slices:
      break
  if thorough:
    whole = 0
    for p in files:
      src = c15_gen.read_text(p)
      if src is None or src.count("\n") > 300:
        continue
      st = c15_gen.strip_imports(src)
      if st is None:
        continue
      jobs.append(("stdfile:" + os.path.relpath(p, c15_gen.STDLIB), "stdlib-file-imports-stripped", st, {"check": True}))
      whole += 1
      if whole >= 400:
        break
    # files CPython's own test-suite keeps as non-compiling inputs
    for p in sorted(glob.glob(os.path.join(c15_gen.STDLIB, "test", "**", "bad*.py"), recursive=True)):
      src = c15_gen.read_text(p)
      if src is not None and len(src) < 20000:
        jobs.append(("stdbad:" + os.path.relpath(p, c15_gen.STDLIB), "stdlib-bad-syntax-file", src, {"check": True}))
  # corpus first, then the kinds interleaved, so that a run cut short by the time budget still covers every kind
  head = [j for j in jobs if j[1] == "corpus"]
  groups = collections.OrderedDict()
  for j in jobs:
    if j[1] != "corpus":
      groups.setdefault(j[1], []).append(j)
  lists = list(groups.values())
  longest = max([len(l) for l in lists] + [0])
  tail = []
  for i in range(longest):
    for l in lists:
      # spread the shorter lists evenly over the longest
      k = i * len(l) // longest
      if k < len(l) and (i == 0 or k != (i - 1) * len(l) // longest):
        tail.append(l[k])
  jobs = head + tail
  res.extra["generator_features"] = dict(sorted(feats.items()))
  res.extra["mutation_kinds"] = dict(sorted(kinds.items()))
  return jobs


def search(res, r, thorough):
  jobs = build_jobs(res, r, thorough)
  nworkers = 6
  timeout = 60 if thorough else 20
  budget = 1320 if thorough else 75
  deadline = time.time() + budget
  by_id = {j[0]: j for j in jobs}
  t0 = time.time()
  results = c15_pool.run_jobs([dict(id=j[0], src=j[2], check=j[3].get("check", False), entry="cogp") for j in jobs],
                              nworkers, timeout, deadline=deadline)
  wall = time.time() - t0
  cats = collections.Counter()
  per_kind = collections.defaultdict(collections.Counter)
  found = collections.OrderedDict()    # fingerprint -> (what, id)
  n_compiling = n_noncompiling = 0
  err_names = collections.Counter()
  line_stats = collections.Counter()
  for jid, kind, src, meta in jobs:
    rr = results.get(jid, {"status": "skipped"})
    cat, viol = judge(src, rr, line_stats)
    cats[cat] += 1
    per_kind[kind][cat.split(":")[0]] += 1
    if cat in ("timeout", "skipped", "harness-error") or cat.startswith("not-explorable"):
      res.count(None)
      continue
    v = cpython_verdict(seen_text(src))
    if v[0] == "compiles":
      n_compiling += 1
    else:
      n_noncompiling += 1
    res.count((kind, src))
    for e in rr.get("errors", []):
      err_names[e[0]] += 1
    if len(res.samples) < 4 and kind == "mutant" and cat == "compile-error":
      res.sample({"kind": kind, "mutation": meta.get("mutation"), "src": src[:300],
                  "pytype": [(e[0], e[1]) for e in rr["errors"]], "cpython": list(v)})
    for fp, what in viol:
      if fp not in found or len(src) < len(by_id[found[fp][1]][2]):
        found[fp] = (what, jid)
  # which 3.12 opcodes the explored compiling inputs contain (CPython's own disassembly; a coverage measure only)
  import dis as cpython_dis
  explored_ops = set()
  n_dis = 0
  for jid, kind, src, meta in jobs:
    rr = results.get(jid, {"status": "skipped"})
    if rr.get("status") not in ("ok", "raise") or n_dis >= 1500:
      continue
    try:
      with warnings.catch_warnings():
        warnings.simplefilter("ignore")
        code = compile(seen_text(src), "input.py", "exec", dont_inherit=True)
    except Exception:  # pylint: disable=broad-except
      continue
    n_dis += 1
    todo = [code]
    while todo:
      c = todo.pop()
      explored_ops.update(i.opname for i in cpython_dis.get_instructions(c))
      todo.extend(k for k in c.co_consts if hasattr(k, "co_code"))
  try:
    from pycnite import mapping
    table312 = set(mapping.get_mapping((3, 12)).values())
  except Exception:  # pylint: disable=broad-except
    table312 = set()
  res.extra["opcode_coverage_3_12"] = {
      "in_table": len(table312), "exercised": len(explored_ops & table312),
      "never_generated": sorted(table312 - explored_ops)}
  mon_bad = line_stats.pop("_mon_bad", [])
  res.obligation("monitor:opcode-lines-and-function-range-ends-inside-file",
                 not mon_bad and line_stats.get("opcodes_monitored", 0) > 0,
                 f"{len(mon_bad)} analysed programs break the hypothesis: {mon_bad[:2]}" if mon_bad else
                 f"opcodes monitored: {line_stats.get('opcodes_monitored', 0)}")
  n_reported = 0
  for fp, (what, jid) in found.items():
    _, kind, src, meta = by_id[jid]
    entry_kw = {"check": meta.get("check", False), "entry": "cogp"}
    replay = {"src": src, "check": meta.get("check", False), "kind": kind, "case": jid, "fingerprint": fp}
    if fp in res.known:
      res.violation(fp, what, replay)
      continue
    if n_reported >= 3:
      continue
    small = minimise(src, fp, entry_kw, 20.0 if n_reported == 0 else 8.0)
    # does it fail on a fresh worker, independent of what that worker analysed before?
    chk = c15_pool.run_jobs([dict(entry_kw, id="confirm", src=small)], 1, 60, tag="confirm")["confirm"]
    replay["confirmed_in_isolation"] = any(f == fp for f, _ in judge(small, chk)[1])
    replay["src"] = small
    replay["original_src"] = src if len(src) < 6000 else src[:6000]
    res.violation(fp, what, replay)
    n_reported += 1
  res.extra["search"] = {
      "jobs": len(jobs), "wall_s": round(wall, 1), "workers": nworkers, "per_file_timeout_s": timeout,
      "categories": dict(cats), "per_kind": {k: dict(v) for k, v in per_kind.items()},
      "timeouts": cats.get("timeout", 0), "skipped_for_budget": cats.get("skipped", 0),
      "compiling_inputs_explored": n_compiling, "non_compiling_inputs_explored": n_noncompiling,
      "error_names_reported": dict(err_names.most_common(25)),
      "line_clause": dict(line_stats),
      "distinct_violation_fingerprints": list(found), "unlisted_fingerprints": [fp for fp in found if fp not in res.known],
  }
  common.log(f"[C15] search: {len(jobs)} inputs in {wall:.0f}s; categories {dict(cats)}; "
             f"timeouts={cats.get('timeout', 0)} skipped={cats.get('skipped', 0)}; line clause {dict(line_stats)}; "
             f"fingerprints={list(found)}")


# =========================================================================================

def run(res):
  thorough = res.tier == "thorough"
  res.rule = ("SEARCH: random import-free Python 3.12 programs (loops, generators, async, with/try/finally/except*, match, "
              "decorators, comprehensions, star-expressions, walrus, f-strings, nested defs/classes, global/nonlocal, del, "
              "assert, lambda defaults, chained comparisons, PEP 695), one or two token-level mutations of each "
              "(delete/insert/swap/replace/duplicate token, operator/keyword swaps, line delete/dup/swap/indent), and "
              "import-free top-level functions/classes cut from CPython 3.12's stdlib, and ~55 templates (x file endings x random "
              "prefixes) whose LAST statement produces an error (implicit return None under -> int/str/List[int] after if/for/"
              "while/try/with/match, nested/async/decorated/method, multi-line calls, decorators, directives, type comments; a "
              "quarter of the random programs also end in one), and a DIRECTIVE layer (comments only: 32 templates with a `# type:`/"
              "`# pytype:` comment inside a multi-line display/signature/call/with followed by several disable/enable regions; "
              "40% of the random programs decorated with trailing/own-line/range directives, type comments, invalid names, "
              "non-ASCII comments), each run through the real "
              "io.check_or_generate_pyi (3/4 infer, 1/4 check mode) in worker processes with a per-file timeout. "
              "Non-trivial = the run finished and was judged (not typeshed-blocked, not timed out); distinct by source text. "
              "CORRESPONDENCE: every exception class of the generated universe x line values x nofail x check injected into "
              "the real check_or_generate_pyi; random texts x (begin,end)/(line,endline,col,endcol) through the real Error methods.")
  res.assumptions = [
      "PARTIAL: the VM itself is not modelled; 'no internal exception escapes' is established by search only",
      "CPython 3.12.1's compile()/ast.parse are the reference for 'CPython cannot compile the text' and for the blamed line",
      "typeshed is absent in this environment: inputs that make pytype load a typeshed module are not explorable",
      "expected line of the single python-compiler-error: if ast.parse rejects the text (directors.parse_src sees the same "
      "SyntaxError first) it is `e.lineno or 0`; if only compile() rejects it (symtable/codegen, CompileError branch) it is the "
      "N of '(file, line N)' in str(err), i.e. e.lineno, or 1 when CPython gives no line or a negative one (the regex wants \\d+); line 0 is accepted only in the first case "
      "with lineno None (null bytes)",
      "byte_* handler presence/arity is read from the live classes (inspect); handler bodies are exercised by search only",
      "generator, mutator, oracle and differ in harness/props/c15*.py",
  ]
  os.makedirs(SCRATCH, exist_ok=True)
  common.bootstrap_pytype()
  # ---- regeneration (fail-closed)
  info = None
  try:
    text, info = generate_v()
    common.write_if_changed(GEN_V, text)
    res.obligation("translator:Generated/C15_Handlers.v", True, "")
  except TranslatorError as e:
    res.obligation("translator:Generated/C15_Handlers.v", False, str(e))
  if info is not None:
    rows = info["rows"]
    lacking = [(n, d) for n, vs, a, c, h, d in rows if not a and not (c and h)]
    res.extra["dispatch"] = {"opcode_names": len(rows), "absorbed_by_disassembler": [n for n, _, a, _, _, _ in rows if a],
                             "reaching_vm_without_class_or_handler": lacking,
                             "intrinsics": len(info["intrinsics"]),
                             "intrinsics_without_handler": [n for n, h in info["intrinsics"] if not h],
                             "except_chain": info["clauses"]}
  timing = {}
  t = time.time()
  common.coq_obligations(res, "C15")
  timing["coq"] = round(time.time() - t, 1); t = time.time()
  r = common.rng(res.seed, "c15")
  if info is not None:
    correspondence_chain(res, info, common.rng(res.seed, "c15-chain"))
  timing["chain"] = round(time.time() - t, 1); t = time.time()
  correspondence_lines(res, common.rng(res.seed, "c15-lines"), 1500 if thorough else 400)
  timing["lines"] = round(time.time() - t, 1); t = time.time()
  try:
    cinfo = info["compile"] if info is not None else c15_compile.digit_table()
  except c15_compile.TranslatorError:
    cinfo = None
  if cinfo is not None:
    # (a) the compile-error path: messages, the compile step, the producer, real uncompilable sources.  After a
    # translator failure the legs still run (against the last generated tables) so that the direct oracles can
    # produce a concrete failing input.
    info = dict(info or {}, compile=cinfo)
    batch = c15_compile.Batch()
    c15_compile.correspondence_init(res, common.rng(res.seed, "c15-ceinit"), 4000 if thorough else 300, info["compile"], batch)
    c15_compile.correspondence_pipeline(res, common.rng(res.seed, "c15-pipeline"), info["compile"], batch)
    c15_compile.correspondence_syntax_str(res, common.rng(res.seed, "c15-syntaxstr"), 1500 if thorough else 150, batch)
    c15_compile.correspondence_real_sources(res, common.rng(res.seed, "c15-realsrc"), 1500 if thorough else 150,
                                            300 if thorough else 24, info["compile"], batch)
    # (b) the line a logged error carries
    c15_errline.correspondence(res, common.rng(res.seed, "c15-errline"), 1500 if thorough else 200, batch)
    batch.run(res)
  timing["compile-path"] = round(time.time() - t, 1); t = time.time()
  search(res, r, thorough)
  timing["search+minimise"] = round(time.time() - t, 1)
  res.extra["timing_s"] = timing
  common.log(f"[C15] timing {timing}")
  if thorough:
    pr = subprocess.run(["timeout", "1500", "coqchk", "-silent", "-o", "-Q", common.COQ, "PV", "PV.Props.C15"],
                        capture_output=True, text=True, cwd=common.COQ)
    res.obligation("coqchk", pr.returncode == 0, (pr.stdout + pr.stderr)[-1500:])
  return "proof"


def replay(res, path):
  d = json.load(open(path))
  rp = d["replay"]
  if str(rp.get("kind", "")).startswith("compile-"):
    return c15_compile.replay(rp)
  if rp.get("kind") == "errline":
    return c15_errline.replay(rp)
  if rp.get("kind") == "opcode-lines":
    print("monitored hypothesis failed (not by itself a violation of the property):", d.get("what"))
  src = rp["src"]
  rr = c15_pool.run_jobs([{"id": "replay", "src": src, "check": rp.get("check", False), "entry": "cogp"}], 1, 120, tag="replay")["replay"]
  cat, viol = judge(src, rr)
  print("source:\n" + src)
  print("cpython:", cpython_verdict(seen_text(src)))
  print("pytype :", {k: v for k, v in rr.items() if k in ("status", "exc", "msg", "errors", "pytype_frame", "frames")})
  print("oracle :", cat, viol)
  return 1 if viol else 0


def generate():
  """Called by harness/setup.py before the Coq build (coq/Generated is not committed)."""
  common.bootstrap_pytype()
  text, _ = generate_v()
  common.write_if_changed(GEN_V, text)
