"""C10 extension: generators, CPython oracle and model queries for
  (a) super() lookups (methods, class attributes read through super(), two-argument form, classmethods),
  (b) instance attributes stored by cooperative __init__ chains vs class attributes, __getattr__/__getattribute__ hooks,
  (c) Generic[...] / parameterised bases in compute_mro.

A hierarchy H is a class table as in c10_gen (class 0 = object); in the attr mode class 1 is the root of every user class,
so that every cooperative chain ends in C1.  Marker classes: T<i> (class body / plain method of C<i>), V<i> (stored by
C<i>.__init__), G<i> (C<i>.__getattr__), Q<i> (C<i>.__getattribute__).
"""
import re

import c10_gen as g

# name ids used in the model queries
N = {"a": 1, "b": 2, "m": 3, "x": 4, "zz": 5, "ga": 6, "cm": 7}


# ----------------------------------------------------------------------------------------------
# (a)+(b): hierarchies with super(), __init__ chains, hooks

def gen_hier(r, n_user):
  """Legal hierarchy: C1 root; every later class has 1-3 distinct earlier user classes as bases; diamonds likely."""
  for _ in range(50):
    H = [[], [0]]
    for i in range(2, n_user + 1):
      k = min(i - 1, r.choice([1, 2, 2, 2, 3]))
      pool = list(range(1, i))
      w = [(j + 1) ** 2 for j in range(len(pool))]
      bs = []
      while len(bs) < k and pool:
        j = r.choices(range(len(pool)), weights=w)[0]
        bs.append(pool.pop(j)); w.pop(j)
      if r.random() < 0.8:
        bs.sort(reverse=True)
      # a base that is an ancestor of another listed base before it is always inconsistent: drop such bases
      H2 = H + [bs]
      if g.cpython_table(H2)[1] is not None:
        mros = g.cpython_table(H)[0]
        bs = [b for b in bs if not any(b in mros[o] for o in bs if o != b)] or [bs[0]]
        H2 = H + [bs]
        if g.cpython_table(H2)[1] is not None:
          bs = [bs[0]]
          H2 = H + [bs]
      H = H2
    if g.cpython_table(H)[1] is None:
      return H
  return [[], [0], [1], [1], [3, 2]]


def gen_spec(r, H):
  """Per class: what its body contains."""
  spec = [None, {"a": True, "b": True, "m": "plain", "ga": None, "cm": "plain",
                 "init": [r.choice([2, 2, 3, 1]), r.choice([["x"], ["x", "a"], ["x"]])], "hooks": []}]
  for i in range(2, len(H)):
    s = {"a": r.random() < 0.45, "b": r.random() < 0.3,
         "m": r.choice([None, "plain", "plain", "coop", "coop", "coop", "coop2"]),
         "ga": r.choice([None, None, "super", "super2"]),
         "cm": r.choice([None, None, "plain", "coop", "coop"]),
         "init": [0, []], "hooks": []}
    if r.random() < 0.65:
      s["init"] = [r.choice([1, 2, 2, 2, 3] if r.random() < 0.5 else [2, 2, 1]), r.choice([["x"], ["x"], ["a"], ["x", "a"], []])]
    k = r.random()
    if k < 0.10:
      s["hooks"] = ["getattr"]
    elif k < 0.13:
      s["hooks"] = ["getattribute"]
    spec.append(s)
  return spec


def class_text(H, spec):
  n = len(H)
  lines = []
  for i in range(1, n):
    lines += ["class T%d: pass" % i, "class V%d: pass" % i, "class G%d: pass" % i, "class Q%d: pass" % i]
  for i in range(1, n):
    s = spec[i]
    lines.append("class C1:" if i == 1 else "class C%d(%s):" % (i, ", ".join("C%d" % b for b in H[i])))
    body = []
    if s["a"]:
      body.append("  a = T%d()" % i)
    if s["b"]:
      body.append("  b = T%d()" % i)
    kind, names = s["init"]
    if kind:
      body.append("  def __init__(self):")
      stores = ["    self.%s = V%d()" % (nm, i) for nm in names]
      if kind == 1:
        body += stores + ["    super().__init__()"]
      elif kind == 2:
        body += ["    super().__init__()"] + stores
      else:
        body += stores or ["    pass"]
    if s["m"] == "plain":
      body += ["  def m(self):", "    return T%d()" % i]
    elif s["m"] == "coop":
      body += ["  def m(self):", "    return super().m()"]
    elif s["m"] == "coop2":
      body += ["  def m(self):", "    return super(C%d, self).m()" % i]
    if s["ga"] == "super":
      body += ["  def ga(self):", "    return super().a"]
    elif s["ga"] == "super2":
      body += ["  def ga(self):", "    return super(C%d, self).a" % i]
    if s["cm"] == "plain":
      body += ["  @classmethod", "  def cm(cls):", "    return T%d()" % i]
    elif s["cm"] == "coop":
      body += ["  @classmethod", "  def cm(cls):", "    return super().cm()"]
    if "getattr" in s["hooks"]:
      body += ["  def __getattr__(self, name):", "    return G%d()" % i]
    if "getattribute" in s["hooks"]:
      body += ["  def __getattribute__(self, name):", "    return Q%d()" % i]
    lines += body or ["  pass"]
  return lines


def candidate_probes(r, H, spec, mros, max_probes):
  """[(var, statement, info)]; info = (kind, i, j) with j the explicit class of a two-argument super()."""
  n = len(H)
  out = []
  order = list(range(2, n))
  r.shuffle(order)
  order.sort(key=lambda i: -len(mros[i]))          # deep MROs first
  order = order[:4] + ([1] if r.random() < 0.3 else [])
  for i in order:
    out.append(("pm_%d" % i, "pm_%d = C%d().m()" % (i, i), ("m", i, None)))
    if any(spec[c]["ga"] for c in mros[i] if c):
      out.append(("pg_%d" % i, "pg_%d = C%d().ga()" % (i, i), ("ga", i, None)))
    out.append(("pc_%d" % i, "pc_%d = C%d.cm()" % (i, i), ("cm", i, None)))
    out.append(("px_%d" % i, "px_%d = C%d().x" % (i, i), ("x", i, None)))
    out.append(("pa_%d" % i, "pa_%d = C%d().a" % (i, i), ("a", i, None)))
    if any(spec[c]["hooks"] for c in mros[i] if c):
      out.append(("pz_%d" % i, "pz_%d = C%d().zz" % (i, i), ("zz", i, None)))
    chain = [c for c in mros[i] if c][:-1]
    for j in r.sample(chain, min(2, len(chain))):
      out.append(("ps_%d_%d" % (i, j), "ps_%d_%d = super(C%d, C%d()).a" % (i, j, j, i), ("sa", i, j)))
  r.shuffle(out)
  keep = out[:max_probes]
  keep.sort()
  return keep


def build_attr_program(r, H, spec, max_probes=12):
  """Returns (text, probes {var: info}, cpy {var: type name}).  Probes that raise in CPython are left out."""
  mros = g.cpython_table(H)[0]
  cls_lines = class_text(H, spec)
  ns = {}
  exec(compile("\n".join(cls_lines) + "\n", "<c10attr>", "exec"), ns)   # generated by this module only
  lines = list(cls_lines)
  probes, cpy = {}, {}
  for var, stmt, info in candidate_probes(r, H, spec, mros, max_probes):
    try:
      exec(compile(stmt, "<c10attr>", "exec"), ns)
    except Exception:  # the read fails at run time (no such attribute, uncallable hook result): not a probe
      continue
    lines.append(stmt)
    probes[var] = list(info)
    cpy[var] = type(ns[var]).__name__
  return "\n".join(lines) + "\n", probes, cpy


def model_tables(H, spec):
  n = len(H)
  attrs = [[]]
  hooks = [[]]
  inits = [(3, [])]
  for i in range(1, n):
    s = spec[i]
    attrs.append([N[k] for k in ("a", "b") if s[k]] + ([N["m"]] if s["m"] else []) + ([N["ga"]] if s["ga"] else []) +
                 ([N["cm"]] if s["cm"] else []))
    hooks.append(([0] if "getattribute" in s["hooks"] else []) + ([1] if "getattr" in s["hooks"] else []))
    inits.append((s["init"][0], [N[x] for x in s["init"][1]]))
  return attrs, hooks, inits


def line_l(l):
  return " ".join([str(len(l))] + [str(x) for x in l])


def line_ll(ll):
  return " ".join([str(len(ll))] + [line_l(l) for l in ll])


class ModelOracle:
  """Batches model queries (extracted runner) with memoisation per job."""

  def __init__(self, run_model, exe):
    self.run_model, self.exe = run_model, exe

  def ask(self, lines):
    uniq = sorted(set(lines))
    out = self.run_model(self.exe, uniq) if uniq else []
    return dict(zip(uniq, out))


def expected_for_job(job, answers, side):
  """side: 0 = CPython model, 2 = pytype model with dupcheck (1 = without).  Returns {var: marker or None}.
  `answers` maps query line -> model output line."""
  H, spec = job["H"], job["spec"]
  attrs, hooks, inits = model_tables(H, spec)
  pre = "%s %s" % (line_ll(H), line_ll(attrs))
  def pick(line):
    v = answers[line].split("|")[side].strip()
    return None if v == "-" else v
  def lookup(i, name):
    v = pick("L %s %d %d" % (pre, i, N[name]))
    return None if v is None else int(v)
  def sup(kind, i, cur, name):
    v = pick("S %s %d %d %d %d" % (pre, kind, i, cur, N[name]))
    return None if v is None else int(v)
  out = {}
  for var, (kind, i, j) in job["probes"].items():
    if kind in ("m", "cm"):
      okind = 0 if kind == "m" else 1
      c = lookup(i, kind)
      steps = 0
      while c is not None and spec[c][kind] in ("coop", "coop2") and steps < 20:
        c = sup(okind, i, c, kind); steps += 1
      out[var] = None if c is None else "T%d" % c
    elif kind == "ga":
      c = lookup(i, "ga")
      d = None if c is None else sup(0, i, c, "a")
      out[var] = None if d is None else "T%d" % d
    elif kind == "sa":
      d = sup(0, i, j, "a")
      out[var] = None if d is None else "T%d" % d
    else:
      line = "I %s %s %d %s %d %d" % (pre, line_ll(hooks), len(inits),
                                      " ".join("%d %s" % (k, line_l(l)) for k, l in inits), i, N[kind])
      v = pick(line)
      if v is None:
        out[var] = None
      else:
        t = v.split()
        out[var] = {"I": "V", "C": "T"}[t[0]] + t[1] if t[0] != "H" else ("Q" if t[1] == "0" else "G") + t[2]
  return out


def queries_for_job(job):
  H, spec = job["H"], job["spec"]
  attrs, hooks, inits = model_tables(H, spec)
  pre = "%s %s" % (line_ll(H), line_ll(attrs))
  mros = g.cpython_table(H)[0]
  qs = []
  for var, (kind, i, j) in job["probes"].items():
    if kind in ("m", "cm"):
      qs.append("L %s %d %d" % (pre, i, N[kind]))
      for c in range(1, len(H)):         # every class that could be a calling class (superset of what is needed)
        if spec[c][kind] in ("coop", "coop2"):
          qs.append("S %s %d %d %d %d" % (pre, 0 if kind == "m" else 1, i, c, N[kind]))
    elif kind == "ga":
      qs.append("L %s %d %d" % (pre, i, N["ga"]))
      for c in range(1, len(H)):
        if spec[c]["ga"]:
          qs.append("S %s 0 %d %d %d" % (pre, i, c, N["a"]))
    elif kind == "sa":
      qs.append("S %s 0 %d %d %d" % (pre, i, j, N["a"]))
    else:
      qs.append("I %s %s %d %s %d %d" % (pre, line_ll(hooks), len(inits),
                                         " ".join("%d %s" % (k, line_l(l)) for k, l in inits), i, N[kind]))
  return qs


FP_BY_KIND = {"m": "super-lookup-order", "ga": "super-lookup-order:class-attribute", "sa": "super-lookup-order:two-argument",
              "cm": "super-in-classmethod", "x": "instance-attribute-order", "a": "instance-vs-class-attribute-order",
              "zz": "getattr-hook-order"}


def make_attr_job(jid, r, H, spec=None, max_probes=12):
  spec = spec or gen_spec(r, H)
  text, probes, cpy = build_attr_program(r, H, spec, max_probes)
  return {"id": jid, "mode": "attr", "H": H, "spec": spec, "text": text, "probes": probes, "cpy": cpy}


def rebuild_attr_job(job):
  """Same program from stored H/spec/probe list (replay, shrinking): probes are re-executed in CPython."""
  H, spec = job["H"], job["spec"]
  cls_lines = class_text(H, spec)
  ns = {}
  exec(compile("\n".join(cls_lines) + "\n", "<c10attr>", "exec"), ns)
  lines = list(cls_lines)
  probes, cpy = {}, {}
  for var, info in sorted(job["probes"].items()):
    kind, i, j = info
    if i >= len(H) or (j is not None and j >= len(H)):
      continue
    stmt = {"m": "%s = C%d().m()", "ga": "%s = C%d().ga()", "cm": "%s = C%d.cm()", "x": "%s = C%d().x",
            "a": "%s = C%d().a", "zz": "%s = C%d().zz"}.get(kind)
    stmt = (stmt % (var, i)) if stmt else "%s = super(C%d, C%d()).a" % (var, j, i)
    try:
      exec(compile(stmt, "<c10attr>", "exec"), ns)
    except Exception:
      continue
    lines.append(stmt); probes[var] = list(info); cpy[var] = type(ns[var]).__name__
  return dict(job, text="\n".join(lines) + "\n", probes=probes, cpy=cpy)


def judge_attr(job, out):
  """Direct oracle: pytype's inferred type of every probe vs the type CPython computed.  [(fingerprint, what, var)]."""
  if out.get("exc"):
    return [("not-explorable" if "UsageError" in out["exc"] else "pytype-crash", out["exc"], None)]
  issues = []
  if out["errors"]:
    e = out["errors"][0]
    issues.append(("unexpected-error:" + e[0], "pytype reports %s on a program CPython runs without error" % e, None))
  stub_types = dict(re.findall(r"^(\w+): (.+)$", out["pyi"], re.M))
  for var, tname in sorted(job["cpy"].items()):
    got = stub_types.get(var, "<absent>")
    if got == "Any" and not out["errors"]:
      continue          # call-depth limit of the analysis (maximum_depth): a widening without any error, not a wrong lookup
    if got != tname:
      kind, i, j = job["probes"][var]
      issues.append((FP_BY_KIND[kind], "%s: CPython computes %s, pytype infers %s (%s on C%d%s)"
                     % (var, tname, got, kind, i, "" if j is None else ", super(C%d, ...)" % j), var))
  return issues


# ----------------------------------------------------------------------------------------------
# (c) Generic tables.  Entry = [class, tag]; tag 0 plain, 1 = [T], 2 = [int].  Class 0 object, 1 typing.Generic.

def has_params(G, c):
  return c >= 2 and any(t == 1 for _, t in G[c])


def gen_gtable(r, n_user):
  G = [[], [[0, 0]]]
  for i in range(2, n_user + 2):
    generic_classes = [c for c in range(2, i) if has_params(G, c)]
    plain_ok = list(range(2, i))
    k = r.choice([1, 1, 2, 2, 3])
    bs = []
    used = set()
    for _ in range(k):
      x = r.random()
      if generic_classes and x < 0.5:
        c = r.choice(generic_classes)
        e = [c, r.choice([1, 1, 2])]
      elif plain_ok and x < 0.85:
        c = r.choice(plain_ok)
        e = [c, 0]
      else:
        continue
      if c in used and not (e[1] and r.random() < 0.08):     # rarely: the same class twice as alias (A[int], A[int])
        continue
      if c in used:
        e = [c, next(t for cc, t in bs if cc == c) or e[1]]
        if e[1] == 0:
          continue
      used.add(c)
      bs.append(e)
    if r.random() < 0.75:
      bs.sort(key=lambda e: -e[0])
    want_generic = (not bs) or r.random() < 0.45
    if want_generic and (not bs or any(t == 1 for _, t in bs) or r.random() < 0.5):
      pos = r.choice([0, len(bs), len(bs), r.randint(0, len(bs))])
      bs.insert(pos, [1, 1])
    if not bs:
      bs = [[0, 0]]
    G.append(bs)
  return G


def gref_text(e):
  c, t = e
  base = "object" if c == 0 else ("Generic" if c == 1 else "C%d" % c)
  return base + ("" if t == 0 else ("[T]" if t == 1 else "[int]"))


def gtable_program(G, attrs, upto=None):
  """Source text.  attrs[i] subset of ['a','b'] for user classes."""
  n = len(G) if upto is None else upto
  lines = ["from typing import Generic, TypeVar", "T = TypeVar('T')"]
  for i in range(2, n):
    lines.append("class T%d: pass" % i)
  cls_line = {}
  for i in range(2, n):
    cls_line[i] = len(lines) + 1
    lines.append("class C%d(%s):" % (i, ", ".join(gref_text(e) for e in G[i])))
    body = ["  %s = T%d()" % (a, i) for a in attrs[i]]
    lines += body or ["  pass"]
  return lines, cls_line


def cpython_gtable(G):
  """Executes the class statements with the real typing module.  Returns (mros, fail, msg, kind) where kind is
  'mro' (inconsistent / duplicate base: the errors C10 is about), 'other' (typing's own checks) or None."""
  import typing
  ns = {"Generic": typing.Generic, "T": typing.TypeVar("T")}
  classes = {0: object, 1: typing.Generic}
  mros = [[0], [1, 0]]
  for i in range(2, len(G)):
    hdr = "class C%d(%s): pass" % (i, ", ".join(gref_text(e) for e in G[i]))
    try:
      exec(compile(hdr, "<c10gen>", "exec"), ns)
    except TypeError as e:
      msg = str(e)
      kind = "mro" if (msg.startswith("Cannot create a consistent method resolution") or msg.startswith("duplicate base class")) else "other"
      return mros, i, msg, kind
    classes[i] = ns["C%d" % i]
    idx = {id(k): j for j, k in classes.items()}
    mros.append([idx[id(k)] for k in classes[i].__mro__])
  return mros, None, "", None


def make_generic_job(jid, r, G):
  """Truncates G at CPython's first refusal; None if typing itself refuses a statement for a non-MRO reason."""
  mros, fail, msg, kind = cpython_gtable(G)
  if kind == "other":
    return None
  if fail is not None:
    G = G[:fail + 1]
  attrs = [[], []] + [[a for a in ("a", "b") if r.random() < (0.8 if i == 2 else 0.4)] for i in range(2, len(G))]
  return build_generic_job(jid, G, attrs)


def build_generic_job(jid, G, attrs):
  mros, fail, msg, kind = cpython_gtable(G)
  lines, cls_line = gtable_program(G, attrs)
  probes, cpy = {}, {}
  for i in range(2, len(mros)):
    for a in ("a", "b"):
      d = next((c for c in mros[i] if c >= 2 and a in attrs[c]), None)
      if d is not None:
        v = "r_%d_%s" % (i, a)
        probes[v] = [i, a]
        cpy[v] = "T%d" % d
  # the reads come before the refused class statement (CPython stops there)
  read_lines = ["%s = C%d.%s" % (v, i, a) for v, (i, a) in sorted(probes.items())]
  if fail is not None:
    k = cls_line[fail] - 1
    lines = lines[:k] + read_lines + lines[k:]
    err_line = cls_line[fail] + len(read_lines)
  else:
    lines = lines + read_lines
    err_line = None
  return {"id": jid, "mode": "generic", "G": G, "attrs": attrs, "text": "\n".join(lines) + "\n", "probes": probes,
          "cpy": cpy, "fail": fail, "cpy_msg": msg, "err_line": err_line, "cpy_mros": mros}


def g_line(G):
  return "G %d %s" % (len(G), " ".join("%d %s" % (len(bs), " ".join("%d %d" % (c, t) for c, t in bs)) for bs in G))


def gname_to_ref(n):
  """'C3' -> (3, False); 'C3[p]' -> (3, True); 'typing.Generic' -> (1, .); 'builtins.object' -> (0, False)."""
  par = n.endswith("[p]")
  if par:
    n = n[:-3]
  n = n.split(".")[-1]
  if n == "object":
    return (0, par)
  if n == "Generic":
    return (1, par)
  m = re.match(r"^C(\d+)$", n)
  return (int(m.group(1)) if m else -1, par)


def observed_gtable(job, out):
  """[[0]|[1,i]] + per created class the observed compute_mro result as (class, is-parameterised) pairs."""
  first = {}
  for name, _, mro_names in out["mro_calls"]:
    c, par = gname_to_ref(name)
    if c >= 2 and not par and c not in first:
      first[c] = None if mro_names is None else [gname_to_ref(x) for x in mro_names]
  rows = []
  for i in range(2, len(job["G"])):
    if i not in first:
      return None
    if first[i] is None:
      return ([1, i], rows)
    rows.append(first[i])
  return ([0], rows)


def judge_generic(job, out):
  if out.get("exc"):
    return [("not-explorable" if "UsageError" in out["exc"] else "pytype-crash", out["exc"])]
  issues = []
  mro_errs = [e for e in out["errors"] if e[0] == "mro-error"]
  others = [e for e in out["errors"] if e[0] != "mro-error"]
  if others:
    issues.append(("unexpected-error:" + others[0][0], "pytype reports %s" % others[0]))
  fail = job["fail"]
  if fail is None:
    if mro_errs:
      issues.append(("spurious-mro-error:generic", "CPython creates every class; pytype: %s" % mro_errs[0]))
  else:
    good = [e for e in mro_errs if e[1] == job["err_line"]]
    if not good:
      bs = job["G"][fail]
      if job["cpy_msg"].startswith("duplicate base class"):
        fp = "duplicate-parameterized-base" if any(t for _, t in bs) else "duplicate-base"
      elif any(c == 1 for c, _ in bs) and any(t and c != 1 for c, t in bs):
        fp = "generic-base-dropped-where-cpython-keeps-it"
      else:
        fp = "missing-mro-error:inconsistent-order:generic"
      issues.append((fp, "CPython: TypeError: %s at `class C%d(%s)`; pytype reports no mro-error there (errors: %s)"
                     % (job["cpy_msg"].replace("\n", " "), fail, ", ".join(gref_text(e) for e in bs), out["errors"][:2])))
    if len(mro_errs) > len(good):
      issues.append(("spurious-mro-error:generic", "extra mro-error(s): %s" % [e for e in mro_errs if e not in good][:2]))
  stub_types = dict(re.findall(r"^(\w+): (.+)$", out["pyi"], re.M))
  for v, tname in sorted(job["cpy"].items()):
    got = stub_types.get(v, "<absent>")
    if got != tname:
      issues.append(("lookup-order:generic", "%s: CPython finds %s, pytype infers %s" % (v, tname, got)))
      break
  obs = observed_gtable(job, out) if out.get("mro_calls") else None
  if obs is not None and not any(f.startswith(("duplicate", "generic-base", "missing-mro")) for f, _ in issues):
    cpy = job["cpy_mros"]
    for k, row in enumerate(obs[1]):
      if [c for c, _ in row] != cpy[k + 2]:
        issues.append(("compute_mro-order-differs-from-cpython:generic",
                       "class C%d: compute_mro returned %s, CPython's __mro__ is %s" % (k + 2, row, cpy[k + 2])))
        break
  return issues
