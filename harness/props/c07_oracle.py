"""C07 oracle: the property statement decided directly, independently of the Coq model and of the
solver's algorithm (no memo of provisional answers, no path cache, no articulation points, no
short-circuit; node-by-node backward walks instead of BFS jumps).

Expl (clause i): a set S of bindings is explained at node n iff there is a backward walk
n = x0, x1, ... (x_{i+1} in incoming(x_i)) along which a pending goal set G (initially S) evolves:
at each node every pending goal that has an origin there is replaced by one of that origin's source
sets, transitively within the node, each goal resolved once; the goals resolved at one node must not
contain two bindings of one variable; the walk may leave a node only if the node binds no variable
of a still-pending goal ("not re-bound in between"); it succeeds when G becomes empty.
Expl_c (clause ii, strict reading): additionally the condition binding of EVERY node on the walk
joins the pending goals when the walk is at that node.
Reach1 (clause iii): every goal has an origin at a node backward-reachable from n (n included).
"""
import itertools


class Oracle:
  def __init__(self, d):
    self.d = d
    self.nn = len(d["nodes"])
    self.nb = len(d["bindings"])
    self.inc = [n["inc"] for n in d["nodes"]]
    self.cond = [n["cond"] for n in d["nodes"]]
    self.var = [b["var"] for b in d["bindings"]]
    self.orig = [{w: ss for w, ss in b["origins"]} for b in d["bindings"]]
    self.at = [frozenset(i for i in range(self.nb) if x in self.orig[i]) for x in range(self.nn)]
    self.vnodes = {}
    for i, b in enumerate(d["bindings"]):
      self.vnodes.setdefault(b["var"], set()).update(w for w, _ in b["origins"])
    self._reach = {}
    self._walk = {}
    self._out = {}

  def reach(self, n):
    r = self._reach.get(n)
    if r is None:
      r = {n}
      todo = [n]
      while todo:
        x = todo.pop()
        for y in self.inc[x]:
          if y not in r:
            r.add(y); todo.append(y)
      self._reach[n] = r
    return r

  def reach1(self, n, goals):
    r = self.reach(n)
    return all(any(w in r for w in self.orig[b]) for b in goals)

  def unreachable_goals(self, n, goals):
    r = self.reach(n)
    return [b for b in goals if not any(w in r for w in self.orig[b])]

  def outcomes(self, x, goals):
    """All (resolved set R, remaining goal set) pairs of resolving `goals` at node x."""
    key = (x, goals)
    res = self._out.get(key)
    if res is not None:
      return res
    at = self.at[x]
    res = set()
    def go(todo, done, added):
      if not todo:
        res.add((frozenset(done), frozenset((goals | added) - at)))
        return
      b = todo[0]
      rest = todo[1:]
      for ss in self.orig[b][x]:
        more = [c for c in ss if c in at and c not in done and c != b and c not in rest]
        go(rest + tuple(dict.fromkeys(more)), done | {b}, added | set(ss))
    go(tuple(sorted(goals & at)), frozenset(), frozenset())
    self._out[key] = res
    return res

  def conflict(self, bs):
    vs = [self.var[b] for b in bs]
    return len(vs) != len(set(vs))

  def expl(self, n, goals, with_cond):
    """Only call on acyclic graphs (the walk recursion is on the graph)."""
    return self._expl(n, frozenset(goals), with_cond)

  def _expl(self, x, goals, with_cond):
    key = (x, goals, with_cond)
    r = self._walk.get(key)
    if r is not None:
      return r
    g = goals
    if with_cond and self.cond[x] is not None:
      g = g | {self.cond[x]}
    ans = False
    for done, rem in self.outcomes(x, g):
      if self.conflict(done):
        continue
      if not rem:
        ans = True
        break
      if any(x in self.vnodes.get(self.var[b], ()) for b in rem):
        continue                      # x re-binds a variable that is still pending
      if any(self._expl(m, rem, with_cond) for m in self.inc[x]):
        ans = True
        break
    self._walk[key] = ans
    return ans
