"""C02 extension leg (a): structural protocol matching of unparameterised protocols (coq/Match/Proto.v).

World = builtin part (regenerated on every run from pytype's loaded stubs: MRO, own members with their kind,
has_protocol_base, protocol_attributes of the typing.pytd protocols) + a randomly generated user part (value classes
with inherited / overridden members incl. dunders, `m = None` overrides, data members; user Protocol classes with
protocol inheritance, empty bodies, data members; explicit non-protocol subclasses of protocols).
Three-way comparison per (value, annotation) pair at the three sites:
  pytype  vs  Proto.inst_match evaluated in Coq (correspondence; Proto.pattrs is the model of
              Class._init_protocol_attributes, so protocol inheritance is covered)
          vs  a run-time oracle: the classes are really built (typing.Protocol), membership = every protocol member
              (typing's own _get_protocol_attrs) is present on the value, callable members are not None, data
              members are instances of the declared class; builtin protocols through collections.abc / typing
              runtime protocols."""
import collections.abc as cabc
import typing

import c02_gen as G
import c02_table

B_VALUE_CLASSES = ["builtins.int", "builtins.float", "builtins.str", "builtins.bytes", "builtins.bool",
                   "builtins.NoneType", "builtins.list", "builtins.tuple", "builtins.dict", "builtins.set"]
B_PROTOS = ["typing.Sized", "typing.Hashable", "typing.Iterable", "typing.Container", "typing.Collection",
            "typing.Reversible", "typing.SupportsInt", "typing.SupportsFloat", "typing.SupportsIndex",
            "typing.SupportsAbs"]
B_EXTRA = ["builtins.object", "typing.Sequence", "typing.Mapping"]
B_EXPR = {"builtins.int": "1", "builtins.float": "1.5", "builtins.str": '"s"', "builtins.bytes": 'b"b"',
          "builtins.bool": "True", "builtins.NoneType": "None", "builtins.list": "[1]", "builtins.tuple": "(1,)",
          "builtins.dict": "{1: 2}", "builtins.set": "{1}"}
RT_PROTO = {"typing.Sized": cabc.Sized, "typing.Hashable": cabc.Hashable, "typing.Iterable": cabc.Iterable,
            "typing.Container": cabc.Container, "typing.Collection": cabc.Collection,
            "typing.Reversible": cabc.Reversible, "typing.SupportsInt": typing.SupportsInt,
            "typing.SupportsFloat": typing.SupportsFloat, "typing.SupportsIndex": typing.SupportsIndex,
            "typing.SupportsAbs": typing.SupportsAbs}
SKIP_MRO = ("typing.Protocol", "typing.Generic")
USER_MEMBERS = ["__len__", "__iter__", "__getitem__", "__contains__", "__hash__", "__int__", "__index__",
                "__float__", "__reversed__", "__abs__", "m0", "m1", "x"]
DATA_CLASSES = {"int": "builtins.int", "str": "builtins.str", "float": "builtins.float", "bool": "builtins.bool"}


class ProtoTranslateError(Exception):
  pass


def build_builtin_world(ctx=None):
  """Returns dict(classes=[(full, mro_names, own[(name, kind)], pbase, fixed|None)], names=[attr names], compat)."""
  from pytype.abstract import abstract   # pylint: disable=import-outside-toplevel
  from pytype.pytd import pytd           # pylint: disable=import-outside-toplevel
  ctx = ctx or c02_table.make_ctx()
  todo = list(B_EXTRA + B_VALUE_CLASSES + B_PROTOS)
  objs = {}
  while todo:
    full = todo.pop(0)
    if full in objs or full in SKIP_MRO:
      continue
    mod, nm = full.split(".", 1)
    cls = ctx.convert.lookup_value(mod, nm)
    if not isinstance(cls, abstract.PyTDClass):
      raise ProtoTranslateError("%s is %s" % (full, type(cls).__name__))
    objs[full] = cls
    for b in cls.mro:
      bc = b.base_cls if isinstance(b, abstract.ParameterizedClass) else b
      if not isinstance(bc, abstract.Class):
        raise ProtoTranslateError("MRO of %s contains %r" % (full, b))
      todo.append(bc.full_name)
  relevant = set(USER_MEMBERS)
  for full, cls in objs.items():
    if cls.has_protocol_base():
      relevant.update(cls.protocol_attributes)
  names = sorted(relevant)
  classes = []
  def mro_of(cls):
    out = []
    for b in cls.mro:
      bc = b.base_cls if isinstance(b, abstract.ParameterizedClass) else b
      if bc.full_name not in SKIP_MRO:
        out.append(bc.full_name)
    return out
  for full in sorted(objs, key=lambda f: (len(mro_of(objs[f])), f)):
    cls = objs[full]
    own = []
    for a in sorted(cls.get_own_attributes()):
      if a not in relevant:
        continue
      m = cls.pytd_cls.Lookup(a)
      if isinstance(m, pytd.Function):
        own.append((a, "method"))
      elif isinstance(m, pytd.Constant) and getattr(m.type, "name", None) == "builtins.NoneType":
        own.append((a, "none"))
      elif isinstance(m, pytd.Constant) and getattr(m.type, "name", None) in DATA_CLASSES.values():
        own.append((a, "data:" + m.type.name))
      else:
        raise ProtoTranslateError("member %s.%s has unsupported shape %r" % (full, a, m))
    pbase = bool(cls.has_protocol_base())
    fixed = sorted(cls.protocol_attributes) if pbase else None
    classes.append((full, mro_of(cls), own, pbase, fixed))
  m = ctx.matcher(ctx.root_node)
  compat = [(a, b) for a, b in m._compatible_builtins if a in objs and b in objs]   # pylint: disable=protected-access
  return {"classes": classes, "names": names, "compat": compat}


# ------------------------------------------------------------------------------------------------
# user part

class UserWorld:
  """value classes K*, protocols P*, explicit subclasses Q*: list of dict(name, bases, members{name: kind}, proto)"""

  def __init__(self, classes):
    self.classes = classes
    self.ns = {}
    exec(self.source(runtime=True), self.ns)   # pylint: disable=exec-used
    for c in classes:
      if not c["proto"]:
        self.ns[c["name"]]()          # TypeError when an inherited ABC leaves it abstract: draw again

  @classmethod
  def random(cls, r):
    while True:
      classes = []
      nk = 5
      for i in range(nk):
        bases = sorted(r.sample(range(i), min(r.choice([0, 0, 1, 1, 2]), i)), reverse=True)
        members = {}
        for n in r.sample(USER_MEMBERS, r.choice([0, 1, 1, 2, 3])):
          if n == "x":
            members[n] = r.choice(["data:int", "data:str", "data:float", "annot:int", "method", "none"])
          elif n == "__hash__":
            members[n] = r.choice(["method", "none"])
          else:
            members[n] = r.choice(["method", "method", "method", "none", "data:int"])
        classes.append({"name": "K%d" % i, "bases": ["K%d" % b for b in bases], "members": members, "proto": False})
      protos = []
      for i in range(4):
        pb = [p["name"] for p in r.sample(protos, min(r.choice([0, 0, 1, 1, 2]), len(protos)))]
        if not pb and r.random() < 0.2:
          pb = [r.choice(["Sized", "Iterable", "Hashable"])]
        members = {}
        for n in r.sample(["m0", "m1", "x", "__len__", "__iter__", "__getitem__", "__hash__", "__int__"],
                          r.choice([0, 1, 1, 2])):
          members[n] = r.choice(["annot:int", "annot:str", "annot:float"]) if n == "x" else "method"
        protos.append({"name": "P%d" % i, "bases": pb, "members": members, "proto": True})
      classes += protos
      # an explicit (nominal) subclass of a protocol: a normal class
      pb = r.choice(protos)
      classes.append({"name": "Q0", "bases": [pb["name"]],
                      "members": {n: "method" for n in r.sample(["m0", "m1", "__len__"], r.choice([0, 1]))},
                      "proto": False})
      try:
        return cls(classes)
      except TypeError:
        continue

  def source(self, runtime):
    out = []
    if runtime:
      out.append("from typing import Protocol, Sized, Iterable, Hashable")
    for c in self.classes:
      bases = list(c["bases"]) + (["Protocol"] if c["proto"] else [])
      out.append("class %s(%s):" % (c["name"], ", ".join(bases)) if bases else "class %s:" % c["name"])
      if not c["members"]:
        out.append("  pass")
      for n, k in sorted(c["members"].items()):
        if k == "method":
          if c["proto"]:
            out.append("  def %s(self) -> int: ..." % n)
          else:
            out.append("  def %s(self): return 0" % n)
        elif k == "none":
          out.append("  %s = None" % n)
        elif k.startswith("data:"):
          out.append("  %s = %s" % (n, {"int": "1", "str": '"s"', "float": "1.5", "bool": "True"}[k[5:]]))
        elif k.startswith("annot:"):
          out.append("  %s: %s" % (n, k[6:]))
    return "\n".join(out) + "\n"

  def names(self):
    return [c["name"] for c in self.classes]

  def to_json(self):
    return self.classes

  def mro(self, name):
    return [k.__name__ for k in self.ns[name].__mro__]


RT_NAME = {"Sized": "typing.Sized", "Iterable": "typing.Iterable", "Hashable": "typing.Hashable",
           "object": "builtins.object", "Protocol": None, "Generic": None}


def oracle(uw, val, ann):
  """val: ('b', full) builtin value | ('u', K) instance of a user class;  ann: ('b', full) | ('u', name).
  Run-time structural / nominal membership."""
  v = eval(B_EXPR[val[1]]) if val[0] == "b" else uw.ns[val[1]]()   # pylint: disable=eval-used
  if ann[0] == "b":
    if val[0] == "b":
      return isinstance(v, RT_PROTO[ann[1]])
    # a user class: every member the run-time protocol requires must be a real method (isinstance() alone also
    # accepts `__index__ = 1`, which is not a compatible member under PEP 544)
    return all(callable(getattr(type(v), a, None)) for a in rt_members(ann[1]))
  cls = uw.ns[ann[1]]
  if not getattr(cls, "_is_protocol", False):
    return isinstance(v, cls)
  if cls in type(v).__mro__:
    return True
  for a in sorted(typing._get_protocol_attrs(cls)):   # pylint: disable=protected-access
    # how the protocol declares the member: a method, or a data member with an annotation
    decl = None
    for k in cls.__mro__:
      if a in k.__dict__:
        decl = ("method", None)
        break
      if a in getattr(k, "__annotations__", {}):
        decl = ("data", k.__annotations__[a])
        break
    if decl is None:
      return False
    if not hasattr(v, a):
      # declared by annotation only (`x: int` in the class body, also inherited from an explicitly subclassed
      # protocol): the member exists for a type checker, with the declared class
      have = [k.__annotations__[a] for k in type(v).__mro__ if a in getattr(k, "__annotations__", {})]
      if not have or decl[0] == "method":
        return False
      t = decl[1]
      if not issubclass(have[0], (float, int) if t is float else t):
        return False
      continue
    got = getattr(v, a)
    if decl[0] == "method":
      if got is None or not callable(got):
        return False
    else:
      t = decl[1]
      if callable(got) and not isinstance(got, type):
        return False
      if not isinstance(got, (float, int) if t is float else t):
        return False
  return True


def rt_members(full):
  """Members the RUN-TIME protocol / ABC requires."""
  p = RT_PROTO[full]
  if getattr(p, "_is_protocol", False) and p.__module__ == "typing":
    return sorted(typing._get_protocol_attrs(p))   # pylint: disable=protected-access
  return sorted(p.__abstractmethods__)


def stub_runtime_diff(bw, uw, v, a):
  """Protocol members which the stub of builtin class v has / lacks contrary to the run-time class."""
  rows = {c[0]: c for c in bw["classes"]}
  if a[0] == "b":
    members = set(rows[a[1]][4]) | set(rt_members(a[1]))
  else:
    members = set(typing._get_protocol_attrs(uw.ns[a[1]]))   # pylint: disable=protected-access
  val = eval(B_EXPR[v[1]])   # pylint: disable=eval-used
  out = []
  for m in sorted(members):
    stub = None
    for k in rows[v[1]][1]:
      hit = [kd for n, kd in rows[k][2] if n == m]
      if hit:
        stub = hit[0]
        break
    rt = getattr(type(val), m, None)
    if (stub == "method") != (rt is not None and callable(rt)):
      out.append(m)
  return out


def _names_missing(uw, v, a):
  """How many member NAMES of user protocol a are absent on value v (None for a protocol without members)."""
  attrs = typing._get_protocol_attrs(uw.ns[a[1]])   # pylint: disable=protected-access
  if not attrs:
    return None
  val = eval(B_EXPR[v[1]]) if v[0] == "b" else uw.ns[v[1]]()   # pylint: disable=eval-used
  return sum(1 for m in attrs
             if not (hasattr(val, m) or any(m in getattr(k, "__annotations__", {}) for k in type(val).__mro__)))


def gen_pairs(r, uw, n):
  """35% NEAR pairs (the value has every member name of the user protocol: `m = None` overrides, data-vs-method
  kinds, inherited definitions decide), 25% NEAR-MISS pairs (exactly one member name is absent, e.g. the one a
  protocol inherits from its base protocol), the rest uniform over values x annotations."""
  bvals = [("b", f) for f in B_VALUE_CLASSES]
  uvals = [("u", c["name"]) for c in uw.classes if not c["proto"]]
  uprotos = [("u", c["name"]) for c in uw.classes if c["proto"]]
  vals = bvals + uvals * 3
  anns = [("b", f) for f in B_PROTOS] + uprotos * 3 + [("u", "Q0")]
  miss = {(v, a): _names_missing(uw, v, a) for v in bvals + uvals for a in uprotos}
  near = sorted(k for k, m in miss.items() if m == 0)
  almost = sorted(k for k, m in miss.items() if m == 1)
  out = []
  while len(out) < n:
    x = r.random()
    if near and x < 0.35:
      out.append(r.choice(near))
    elif almost and x < 0.6:
      out.append(r.choice(almost))
    else:
      out.append((r.choice(vals), r.choice(anns)))
  return out


def render_val(v):
  return B_EXPR[v[1]] if v[0] == "b" else v[1] + "()"


def render_ann(a):
  return a[1].split(".")[1] if a[0] == "b" else a[1]


IMPORTS = ("from typing import Protocol, Sized, Hashable, Iterable, Container, Collection, Reversible, SupportsInt, "
           "SupportsFloat, SupportsIndex, SupportsAbs")


def build_program(uw, pairs):
  lines = [IMPORTS] + uw.source(runtime=False).rstrip("\n").split("\n")
  where = {}
  for i, (v, a) in enumerate(pairs):
    vs, ts = render_val(v), render_ann(a)
    lines.append("def f%d(x: %s): ..." % (i, ts))
    lines.append("f%d(%s)" % (i, vs))
    where[len(lines)] = (i, "arg")
    lines.append("def g%d() -> %s: return %s" % (i, ts, vs))
    where[len(lines)] = (i, "ret")
    lines.append("x%d: %s = %s" % (i, ts, vs))
    where[len(lines)] = (i, "assign")
  return "\n".join(lines) + "\n", where


def single_source(uw, v, a, site):
  src, where = build_program(uw, [(v, a)])
  line = [l for l, (_, s) in where.items() if s == site][0]
  return src, line


def work(job):
  tag, src = job
  try:
    return (tag, "ok", G.run_pytype(src))
  except Exception as e:   # pylint: disable=broad-except
    return (tag, "exc", "%s: %s" % (type(e).__name__, str(e)[:300]))


# ------------------------------------------------------------------------------------------------
# Coq

def coq_world(bw, uw):
  """Returns (text of a `world` term, {class name: id}, none_cls id, {attr name: id})."""
  names = list(bw["names"])
  aid = {n: i for i, n in enumerate(names)}
  cid = {}
  rows = []
  def kind(k):
    if k == "method":
      return "AMethod"
    if k == "none":
      return "ANone"
    full = k.split(":", 1)[1]
    full = DATA_CLASSES.get(full, full)
    return "AData %d" % cid[full]
  for full, _, _, _, _ in bw["classes"]:
    cid[full] = len(cid)
  for c in uw.classes:
    cid[c["name"]] = len(cid)
  for full, mro, own, pbase, fixed in bw["classes"]:
    rows.append("{| pc_mro := [%s]; pc_own := [%s]; pc_pbase := %s; pc_fixed := %s |}" % (
        "; ".join(str(cid[m]) for m in mro), "; ".join("(%d, %s)" % (aid[a], kind(k)) for a, k in own),
        "true" if pbase else "false",
        "Some [%s]" % "; ".join(str(aid[a]) for a in fixed) if fixed is not None else "None"))
  for c in uw.classes:
    mro = []
    for k in uw.mro(c["name"]):
      full = RT_NAME.get(k, k)
      if full is None:
        continue
      mro.append(cid[full])
    rows.append("{| pc_mro := [%s]; pc_own := [%s]; pc_pbase := %s; pc_fixed := None |}" % (
        "; ".join(str(m) for m in mro),
        "; ".join("(%d, %s)" % (aid[n], kind(k)) for n, k in sorted(c["members"].items())),
        "true" if c["proto"] else "false"))
  w = ("{| w_cls := [%s];\n w_iter := %d; w_getitem := %d; w_seq := %d; w_map := %d; w_compat := [%s] |}" % (
      ";\n  ".join(rows), aid["__iter__"], aid["__getitem__"], cid["typing.Sequence"], cid["typing.Mapping"],
      "; ".join("(%d, %d)" % (cid[a], cid[b]) for a, b in bw["compat"])))
  return w, cid, cid["builtins.NoneType"], aid


PRELUDE = """
Definition pcode (w : world) (nc : nat) (cp : nat * nat) : nat :=
  let c := fst cp in let p := snd cp in
  (if inst_match w nc c p then 1 else 0) + (if pattrs_defined w p then 2 else 0) +
  (if implicit_iter_hit w c p && negb (nominal w c p) && is_protocol w p then 4 else 0) +
  (if seq_map_hit w c p then 8 else 0) +
  (if nominal w c p || (if is_protocol w p then pep544 w nc c p else pc_pbase (cls_of w p)) then 16 else 0).
"""


def coq_body(bw, batches):
  out = ["From Coq Require Import List Arith Bool.", "From PV Require Import Match.Proto.", "Import ListNotations.",
         PRELUDE]
  for i, (uw, pairs) in enumerate(batches):
    w, cid, nc, _ = coq_world(bw, uw)
    out.append("Definition pw%d : world := %s." % (i, w))
    out.append("Eval vm_compute in (map (pcode pw%d %d) [%s])." % (i, nc, "; ".join(
        "(%d, %d)" % (cid[v[1]], cid[a[1]]) for v, a in pairs)))
  return "\n".join(out) + "\n"


SITES = ("arg", "ret", "assign")
SITE_ERROR = {"arg": "wrong-arg-types", "ret": "bad-return-type", "assign": "annotation-type-mismatch"}
UNHASHABLE_STUB = ("builtins.dict", "builtins.set")


def evaluate(res, bw, batches, progs, impl, coq_terms):
  n_corr = n_corr_bad = n_unexpl = n_undef = 0
  hist = {"pairs": 0, "builtin_value": 0, "user_value": 0, "builtin_protocol": 0, "user_protocol": 0,
          "nominal_user_class": 0, "member": 0, "pytype_error_sites": 0, "implicit_iter_hits": 0}
  seen = set()
  reported = [0]
  unexpected = []
  by_tag = {t: (st, p) for t, st, p in impl}
  for bi, ((uw, pairs), (tag, src, where)) in enumerate(zip(batches, progs)):
    st, payload = by_tag.get(tag, ("exc", "no result"))
    if st != "ok":
      if "typeshed" not in payload:
        res.obligation("impl-run:proto:" + tag, False, payload)
      continue
    errs = {k: False for k in where.values()}
    for name, line, msg in payload:
      if line in where and name == SITE_ERROR[where[line][1]]:
        errs[where[line]] = True
      else:
        unexpected.append((tag, name, line, msg.split("\n")[0][:100]))
    codes = None
    if bi < len(coq_terms):
      codes = [int(x) for x in coq_terms[bi].strip("[] ").split(";") if x.strip()]
      if len(codes) != len(pairs):
        codes = None
    if codes is None:
      res.obligation("model-run:proto:" + tag, False, "no Coq output for the batch")
    for i, (v, a) in enumerate(pairs):
      hist["pairs"] += 1
      hist["builtin_value" if v[0] == "b" else "user_value"] += 1
      if a[0] == "b":
        hist["builtin_protocol"] += 1
      elif a[1].startswith("P"):
        hist["user_protocol"] += 1
      else:
        hist["nominal_user_class"] += 1
      orc = oracle(uw, v, a)
      hist["member"] += int(orc)
      res.count((render_val(v), render_ann(a), uw.source(False)))
      for s in SITES:
        e = errs[(i, s)]
        hist["pytype_error_sites"] += int(e)
        # x: T = None is never reported at the assignment site (existing finding assign-none)
        none_assign = s == "assign" and v == ("b", "builtins.NoneType")
        if codes is not None:
          code = codes[i]
          n_corr += 1
          if not code & 2:
            n_undef += 1
          model_err = not code & 1 and not none_assign
          if model_err != e:
            n_corr_bad += 1
            if n_corr_bad <= 3:
              res.obligation("correspondence:proto:%s:%d:%s" % (tag, i, s), False,
                             "model err=%s pytype err=%s for %s against %s in\n%s" % (
                                 model_err, e, render_val(v), render_ann(a), uw.source(False)))
        if e != (not orc):
          if none_assign and not e:
            continue
          fp = None
          code = codes[i] if codes is not None else 0
          if not e and code & 4 and not code & 16:
            fp = "proto:implicit-iter-from-getitem"
            hist["implicit_iter_hits"] += 1
          elif (a[0] == "b" and v[0] == "u" and codes is not None and bool(code & 1) != e and
                rt_members(a[1]) != [c for c in bw["classes"] if c[0] == a[1]][0][4]):
            # the stub's protocol requires other members than the run-time protocol, and the model (built on the
            # stub's member set) reproduces pytype
            fp = "proto:stub-protocol-members:" + a[1].split(".")[1]
          elif v[0] == "b" and codes is not None and bool(code & 1) != e:
            # builtin value, the model (whose builtin part is the regenerated stub table) reproduces pytype: name the
            # members of the protocol on which the stub class and the run-time class differ
            diff = stub_runtime_diff(bw, uw, v, a)
            if diff:
              fp = "proto:stub-vs-runtime:%s.%s" % (v[1].split(".")[1], diff[0])
          src1, line1 = single_source(uw, v, a, s)
          what = "%s at the %s site: %s against %s" % ("error on a conforming value" if e else "missed violation",
                                                       s, render_val(v), render_ann(a))
          replay = {"leg": "proto", "source": src1, "line": line1, "error": SITE_ERROR[s], "expect_error": not orc}
          if fp is None:
            n_unexpl += 1
            fp = "unexplained:proto:%s:%s" % (s, "false-error" if e else "missed")
            while fp in res.known:
              fp += ":unlisted"
            if fp in seen or reported[0] >= 3:
              continue
            reported[0] += 1
          elif fp in seen:
            continue
          seen.add(fp)
          res.violation(fp, what, replay)
  res.obligation("proto:generated-programs-clean", not unexpected, repr(unexpected[:4]))
  res.obligation("correspondence:proto model(inst_match)-vs-pytype(3 sites)", n_corr_bad == 0 and n_corr > 0,
                 "%d of %d site verdicts disagree" % (n_corr_bad, n_corr))
  res.obligation("proto:pattrs_defined holds on every generated protocol (hypothesis of proto_match_is_pep544)",
                 n_undef == 0, "%d" % n_undef)
  res.obligation("oracle:proto unexplained disagreements", n_unexpl == 0, "%d" % n_unexpl)
  res.extra["ext_proto"] = dict(hist, site_verdicts_compared=n_corr)
