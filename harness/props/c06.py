"""C06 — a module seen through its emitted stub has the types that were inferred for it (PARTIAL).

Proof: coq/Props/C06.v over coq/Conv/Model.v (conv_out_id: out (conv t) = t on the emitted dialect, unbounded depth;
alias form; the two transports; the full statement with bare `type` is refuted).
Tie (a) correspondence: generated stub types T (`x: T` in an upstream stub, `from A import x as y` downstream,
real pytype): the downstream definition of y *before* Optimize must equal the model's out_top (conv_var T)
exactly (member order included); after Optimize + CanonicalOrdering it must be the same type as T for every
dialect T (direct property oracle, independent of the conversion model).
Search (b): generated upstream programs -> stub; a downstream module derived from the stub that re-exports every
public name, calls every function / method and reads every attribute; analysed through three transports
(.pyi on the pythonpath, imports-map entry, pickled stub through write_pickle + PickledPyiLoader)."""
import json
import os
import subprocess
import sys
import time

import common
import c06_lib as L

WORK = os.path.join(common.BUILD, "c06")
KNOWN_BARE_TYPE = "bare-type-read-as-Any"
HEADER = ("From Coq Require Import List NArith.\nFrom PV Require Import Conv.Model.\n"
          "Import ListNotations.\nOpen Scope N_scope.\n"
          "Definition teq (x y : ty) := match ty_cmp x y with Eq => true | _ => false end.\n"
          "Definition deq (a b : tydef) := match a, b with DConst x, DConst y | DAlias x, DAlias y => teq x y "
          "| _, _ => false end.\n"
          "Definition A := builtin_arity.\n")


_REPORTED = set()


def report(res, fingerprint, what, replay_obj):
  """at most one VIOLATION per fingerprint and three in total (known findings are de-duplicated by Result)."""
  if fingerprint in res.known:
    return res.violation(fingerprint, what, replay_obj)
  if fingerprint in _REPORTED or len(_REPORTED) >= 3:
    return False
  _REPORTED.add(fingerprint)
  return res.violation(fingerprint, what, replay_obj)


def coq_bools(term_text):
  return [b.strip() == "true" for b in term_text.strip().strip("[]").split(";") if b.strip()]


def in_corr_domain(t):
  """types on which the Optimize passes that the model does not cover are the identity on B's side:
  no builtins.object (AdjustReturnAndConstantGenericType), no bool next to int (SimplifyUnionsWithSuperclasses),
  unions of at most 7 members (CollapseLongUnions)."""
  k = t[0]
  if k == "cls":
    return t[1] != L.OBJECT_ID
  if k in ("any", "nothing"):
    return True
  if k == "gen":
    return all(in_corr_domain(p) for p in t[2])
  if k == "tup":
    return all(in_corr_domain(p) for p in t[1])
  if k == "call":
    return all(in_corr_domain(p) for p in t[1]) and in_corr_domain(t[2])
  if k == "union":
    if len(t[1]) > 7:
      return False
    ids = {m[1] for m in t[1] if m[0] == "cls"}
    if 13 in ids and 10 in ids:
      return False
    return all(in_corr_domain(p) for p in t[1])
  return False


def type_not_preserved(t, want_post=False):
  """runs the real round trip for one stub type; True if the downstream type differs (Python-side comparison, used
  by the shrinker only)."""
  try:
    loaded, _, post, errs = L.round_trip(["x0: " + L.to_text(t)], os.path.join(WORK, "shrink_t"))
  except Exception:  # pylint: disable=broad-except
    return False
  l, q = loaded[0], post[0]
  if not l or not q or l[0] != "const" or q[0] not in ("const", "alias"):
    return False
  got = q[1] if q[0] == "const" else ("gen", L.TYPE_ID, (q[1],))
  bad = L.py_canon(got) != L.py_canon(l[1]) and in_corr_domain(l[1]) and not contains_bare_type(l[1])
  return (q if bad else None) if want_post else bad


def contains_bare_type(t):
  k = t[0]
  if k == "cls":
    return t[1] == L.TYPE_ID
  if k == "gen":
    if t[1] == L.TYPE_ID and t[2] == (L.ANY,):
      return True
    return any(contains_bare_type(p) for p in t[2])
  if k in ("tup", "union"):
    return any(contains_bare_type(p) for p in t[1])
  if k == "call":
    return any(contains_bare_type(p) for p in t[1]) or contains_bare_type(t[2])
  return False


# ---------------------------------------------------------------------------------------------

def class_table_obligation(res):
  """the class table of the model = the templates of the loaded builtins."""
  from pytype import config, load_pytd
  loader = load_pytd.create_loader(config.Options.create(python_version=(3, 12)))
  bad = []
  for name, cid in sorted(L.BUILTIN.items(), key=lambda kv: kv[1]):
    mod, short = name.split(".")
    cls = loader.import_name(mod).Lookup(name)
    n = len(cls.template)
    if n != L.arity(cid):
      bad.append((name, n, L.arity(cid)))
  body = HEADER + "Eval vm_compute in map builtin_arity [%s].\n" % "; ".join(str(i) for i in range(1, 16)) + \
      "Eval vm_compute in (type_id, none_id, tuple_id, callable_id).\n"
  ok, out = common.run_cases_v("c06_table", body)
  terms = common.parse_coq_eval(out) if ok else []
  want = "[" + "; ".join(str(L.arity(i)) for i in range(1, 16)) + "]"
  coq_ok = ok and len(terms) == 2 and terms[0].replace("%nat", "") == want and \
      terms[1].replace(" ", "") == "(1,2,3,4)"
  res.obligation("correspondence:class-table", not bad and coq_ok,
                 "template lengths differ: %r; coq table %r (want %s)" % (bad, terms, want))


def correspondence(res, r, n_wild, n_dialect, corpus_types):
  """(a): model vs the real convert -> output path, and the direct oracle on dialect types."""
  items = []        # (origin, stub line kind, generated type)
  for i, t in enumerate(corpus_types):
    items.append(("corpus%d" % i, t, True))
  for i in range(n_wild):
    items.append(("wild%d" % i, L.gen_type(r, r.choice([1, 2, 3, 3, 4]), False), False))
  for i in range(n_dialect):
    items.append(("dialect%d" % i, L.gen_type(r, r.choice([1, 2, 3, 4, 4, 5]), True), True))
  # a handful of full-dialect types with bare `type`, to keep the known finding reproduced at this level too
  for i, t in enumerate([("cls", L.TYPE_ID), ("gen", 6, (("cls", L.TYPE_ID),)),
                         ("tup", (("cls", 10), ("cls", L.TYPE_ID)))]):
    items.append(("baretype%d" % i, t, True))
  cases = []
  B = 40
  t0 = time.time()
  n_err = 0
  for b in range(0, len(items), B):
    chunk = items[b:b + B]
    lines = ["x%d: %s" % (i, L.to_text(t)) for i, (_, t, _) in enumerate(chunk)]
    try:
      loaded, pre, post, errs = L.round_trip(lines, os.path.join(WORK, "corr"))
    except Exception as e:  # pylint: disable=broad-except
      # one bad type must not hide the others: fall back to single-type batches
      loaded, pre, post, errs = [], [], [], []
      for i, (_, t, _) in enumerate(chunk):
        try:
          l1, p1, q1, e1 = L.round_trip(["x0: %s" % L.to_text(t)], os.path.join(WORK, "corr"))
          loaded.append(l1[0]); pre.append(p1[0]); post.append(q1[0]); errs.extend(e1)
        except Exception as e2:  # pylint: disable=broad-except
          loaded.append(None); pre.append(("crash", "%s: %s" % (type(e2).__name__, str(e2)[:200]))); post.append(None)
    fatal = [e for e in errs if e[0] in ("import-error", "pyi-error")]
    if fatal:
      n_err += 1
      report(res, "downstream-error:" + fatal[0][0], "downstream module reports %r for a generated stub" % (fatal[0],),
             {"kind": "types", "stub": lines})
    for (origin, t, dialect), l, p, q in zip(chunk, loaded, pre, post):
      cases.append({"origin": origin, "gen": t, "dialect": dialect, "loaded": l, "pre": p, "post": q})
  impl_s = time.time() - t0
  usable = [c for c in cases if c["loaded"] and c["loaded"][0] == "const" and c["pre"] and
            c["pre"][0] in ("const", "alias") and c["post"] and c["post"][0] in ("const", "alias")]
  skipped = [c for c in cases if c not in usable]
  crashes = [c for c in cases if c["pre"] and c["pre"][0] == "crash"]
  for c in crashes[:3]:
    report(res, "downstream-crash:" + c["pre"][1][:60], "analysing `from A import x` raised: " + c["pre"][1],
           {"kind": "types", "stub": ["x0: " + L.to_text(c["gen"])]})
  # model run
  bodies = []
  CH = 180
  for k in range(0, len(usable), CH):
    chunk = usable[k:k + CH]
    body = HEADER
    body += "Definition cases := [\n" + ";\n".join(
        "(%s, %s, %s)" % (L.to_coq(c["loaded"][1]), L.def_to_coq(c["pre"]), L.def_to_coq(c["post"]))
        for c in chunk) + "].\n"
    body += "Eval vm_compute in map (fun c => deq (downstream A (fst (fst c))) (snd (fst c))) cases.\n"
    body += "Eval vm_compute in map (fun c => wf_top A (fst (fst c))) cases.\n"
    body += "Eval vm_compute in map (fun c => teq (canon (def_ty (snd c))) (canon (fst (fst c)))) cases.\n"
    body += "Eval vm_compute in map (fun c => teq (canon (def_ty (downstream A (fst (fst c))))) (canon (fst (fst c)))) cases.\n"
    bodies.append(("c06_corr_%d" % (k // CH), body))
  t1 = time.time()
  outs = common.run_cases_parallel(bodies)
  model_s = time.time() - t1
  n_mism = 0
  n_oracle_bad = 0
  n_wf = 0
  n_known = 0
  n_outside = 0
  mismatches = []
  hist = {}
  for k, (name, _) in enumerate(bodies):
    ok, out = outs[name]
    terms = common.parse_coq_eval(out) if ok else []
    chunk = usable[k * CH:(k + 1) * CH]
    if not ok or len(terms) != 4:
      res.obligation("model-run:" + name, False, out[-1500:])
      continue
    eq_pre, wf, same_post, model_same = (coq_bools(t) for t in terms)
    if not all(len(x) == len(chunk) for x in (eq_pre, wf, same_post, model_same)):
      res.obligation("model-run:" + name, False, "result length mismatch")
      continue
    for c, e, w, sp, ms in zip(chunk, eq_pre, wf, same_post, model_same):
      T = c["loaded"][1]
      key = L.shape(T)
      res.count(key if L.size(T) > 1 else None)
      hk = T[0] + ("/wf" if w else "/notwf")
      hist[hk] = hist.get(hk, 0) + 1
      n_wf += w
      if len(res.samples) < 4 and L.size(T) >= 5 and c["pre"][1] != T:
        res.sample({"T": L.to_text(T), "model=impl (before Optimize)": c["pre"][0] + " " + L.to_text(c["pre"][1]),
                    "downstream stub": c["post"][0] + " " + L.to_text(c["post"][1])})
      if not e:
        mismatches.append(c)
      # direct oracle on the implementation: a dialect type must come back as the same type
      if c["dialect"] and not w and not contains_bare_type(T):
        n_outside += 1
      if c["dialect"] and in_corr_domain(T) and (w or contains_bare_type(T)) and not sp:
        what = "upstream `x: %s` is seen downstream as `%s %s`" % (L.to_text(T), c["post"][0], L.to_text(c["post"][1]))
        replay = {"kind": "types", "stub": ["x0: " + L.to_text(T)]}
        if contains_bare_type(T):
          n_known += 1
          report(res, KNOWN_BARE_TYPE, what, replay)
        else:
          n_oracle_bad += 1
          fp = "type-not-preserved:" + L.shape(T, 1)
          if fp not in _REPORTED and len(_REPORTED) < 3:
            small = L.shrink_type(T, type_not_preserved, 20.0 if not _REPORTED else 8.0)
            q2 = type_not_preserved(small, want_post=True)
            if q2:
              what = "upstream `x: %s` is seen downstream as `%s %s`" % (L.to_text(small), q2[0], L.to_text(q2[1]))
              replay = {"kind": "types", "stub": ["x0: " + L.to_text(small)], "original": "x0: " + L.to_text(T)}
          report(res, fp, what, replay)
      # the theorem's hypothesis is monitored: whenever wf_top holds the model itself must round-trip
      if w and not ms:
        res.obligation("theorem-instance:" + c["origin"], False, "wf_top T but canon(out(conv T)) <> canon T: " + L.to_text(T))
  # Within one analysis convert.py memoises conversions on pytd nodes, and two unions with the same members in a
  # different order are equal as nodes: a type converted after such a twin can inherit the twin's member order.
  # The model describes one conversion in a fresh context, so a batch mismatch is re-run alone before it counts.
  n_reordered = 0
  for c in mismatches[:12]:
    T = c["loaded"][1]
    try:
      l1, p1, _, _ = L.round_trip(["x0: " + L.to_text(c["gen"])], os.path.join(WORK, "corr1"))
      body = HEADER + "Eval vm_compute in deq (downstream A %s) %s.\n" % (L.to_coq(l1[0][1]), L.def_to_coq(p1[0]))
      ok1, out1 = common.run_cases_v("c06_corr_single", body)
      same = ok1 and common.parse_coq_eval(out1)[0].strip() == "true"
    except Exception:  # pylint: disable=broad-except
      same, p1 = False, [c["pre"]]
    if same:
      n_reordered += 1
      continue
    n_mism += 1
    if n_mism <= 3:
      res.obligation("correspondence:" + c["origin"], False,
                     "T=%s: real convert->output gives %s %s, the model differs" %
                     (L.to_text(T), p1[0][0], L.to_text(p1[0][1])))
  n_mism += max(0, len(mismatches) - 12)
  res.extra["corr_batch_order_effects_resolved_alone"] = n_reordered
  res.obligation("correspondence:model-vs-convert/output", n_mism == 0 and not crashes,
                 "%d of %d types disagree; %d crashes" % (n_mism, len(usable), len(crashes)))
  res.obligation("correspondence:translatable", len(skipped) - len(crashes) <= max(2, len(cases) // 50),
                 "%d of %d generated types could not be read back: %r" %
                 (len(skipped), len(cases), [(L.to_text(c["gen"]), c["loaded"], c["pre"]) for c in skipped[:3]]))
  res.extra["corr_types"] = len(cases)
  res.extra["corr_compared"] = len(usable)
  res.extra["corr_in_dialect_wf"] = n_wf
  res.extra["corr_hist"] = hist
  res.extra["corr_known_bare_type"] = n_known
  res.extra["corr_dialect_stream_outside_wf"] = n_outside
  res.extra["corr_impl_s"] = round(impl_s, 1)
  res.extra["corr_model_s"] = round(model_s, 1)


# ---------------------------------------------------------------------------------------------

def run_workers(jobs, n_workers, deadline, floor=0, hard_cap_s=900):
  """jobs: list of dict(id, src). Returns {id: result}.  The budget is wall time; on a loaded machine jobs keep being
  fed past the deadline until `floor` results are in (bounded by hard_cap_s), so that the floor obligation does not
  depend on how busy the machine is."""
  hard_cap = deadline + hard_cap_s
  env = common.impl_env()
  procs = []
  worker = os.path.join(os.path.dirname(os.path.abspath(__file__)), "c06_worker.py")
  for w in range(n_workers):
    wd = os.path.join(WORK, "w%d" % w)
    p = subprocess.Popen([common.PY, "-u", worker, wd], stdin=subprocess.PIPE, stdout=subprocess.PIPE,
                         stderr=subprocess.DEVNULL, text=True, env=env)
    procs.append(p)
  # dynamic dispatch: one job in flight per worker (keeps the pipes small and balances the load)
  import selectors
  pending = list(jobs)
  results = {}
  sel = selectors.DefaultSelector()
  def feed(p):
    if pending and (time.time() < deadline or (len(results) < floor and time.time() < hard_cap)):
      p.stdin.write(json.dumps(pending.pop(0)) + "\n")
      p.stdin.flush()
      return True
    try:
      p.stdin.close()
    except OSError:
      pass
    return False
  open_n = 0
  for p in procs:
    sel.register(p.stdout, selectors.EVENT_READ, p)
    open_n += 1
    feed(p)
  while open_n and time.time() < (hard_cap if len(results) < floor else deadline + 30):
    for key, _ in sel.select(timeout=1.0):
      line = key.fileobj.readline()
      if not line:
        sel.unregister(key.fileobj)
        open_n -= 1
        continue
      try:
        r = json.loads(line)
        results[r["id"]] = r
      except ValueError:
        pass
      feed(key.data)
  for p in procs:
    if p.poll() is None:
      p.kill()
  return results


def shrink_program(src, kind, transports, budget_s):
  """greedy removal of top-level blocks / class members while the same kind of issue persists."""
  import c06_e2e as E
  deadline = time.time() + budget_s
  wd = os.path.join(WORK, "shrink")
  def bad(s):
    try:
      r = E.check_pair(s, wd, transports)
    except Exception:  # pylint: disable=broad-except
      return False
    kinds = {i["kind"] for i in r.get("issues", [])}
    if r.get("status") == "violation":
      kinds.add(r.get("kind"))
    return kind in kinds
  def blocks(s):
    out = []
    for line in s.split("\n"):
      if line and not line.startswith((" ", "else", "elif")) or not out:
        out.append([line])
      else:
        out[-1].append(line)
    return out
  bl = blocks(src)
  changed = True
  while changed and time.time() < deadline:
    changed = False
    for i in range(len(bl) - 1, 1, -1):          # keep the import line and _cond
      if time.time() > deadline:
        break
      cand = bl[:i] + bl[i + 1:]
      s = "\n".join("\n".join(b) for b in cand)
      if bad(s):
        bl = cand
        changed = True
  # then members inside the remaining blocks
  for bi in range(len(bl)):
    j = len(bl[bi]) - 1
    while j >= 1 and time.time() < deadline:
      cand = [list(b) for b in bl]
      del cand[bi][j]
      s = "\n".join("\n".join(b) for b in cand)
      if bad(s):
        bl = cand
      j -= 1
  return "\n".join("\n".join(b) for b in bl)


def e2e(res, r, n_programs, n_workers, budget_s, corpus_programs, corpus_chains=(), n_chains=0, n_bounded=0):
  import c06_e2e as E
  jobs = [{"id": "corpus%d" % i, "src": s} for i, s in enumerate(corpus_programs)]
  # module chains (u <- a <- b with alias imports, nested classes, decoys, packages) run before the random programs:
  # they are part of the floor, so every run analyses all of them whatever the load of the machine is
  rc = common.rng(res.seed, "c06-chain")
  for i, ch in enumerate(corpus_chains):
    jobs.append({"id": "cchain%d" % i, "kind": "chain", "chain": ch, "src": ch["modules"][-2][2]})
  for i in range(n_chains):
    ch = E.gen_chain(rc)
    jobs.append({"id": "chain%d" % i, "kind": "chain", "chain": ch, "src": ch["modules"][-2][2]})
  # programs with bounded / constrained TypeVars whose generic classes are used bare in annotations (own stream; part of
  # the floor like the chains)
  rb = common.rng(res.seed, "c06-bound-e2e")
  for i in range(n_bounded):
    jobs.append({"id": "bnd%d" % i, "kind": "bounded", "src": E.gen_bounded_program(rb)})
  n_first = len(jobs)
  for i in range(n_programs):
    jobs.append({"id": "p%d" % i, "src": E.gen_program(r)})
  t0 = time.time()
  floor = min(len(jobs), max(12, n_first + 3))
  results = run_workers(jobs, n_workers, t0 + budget_s, floor=floor)
  wall = time.time() - t0
  by_id = {j["id"]: j for j in jobs}
  stats = {}
  kinds = {}
  n_expect = 0
  reported = 0
  n_inside = n_infdecl = n_tainted = n_undecided = 0
  known_hits = {}
  for jid, rr in sorted(results.items()):
    st = rr.get("status")
    stats[st] = stats.get(st, 0) + 1
    for k, v in rr.get("kinds", {}).items():
      kinds[k] = kinds.get(k, 0) + v
    n_expect += rr.get("n_expect", 0)
    res.count(("prog", jid) if rr.get("n_expect", 0) >= 3 else None)
    if st == "harness-error":
      res.obligation("e2e-harness:" + jid, False, rr.get("what", "") + "\n" + rr.get("trace", ""))
      continue
    src = by_id[jid]["src"]
    n_inside += rr.get("n_probes_inside", 0)
    n_infdecl += rr.get("inferred_differs_from_declared", 0)
    n_tainted += rr.get("tainted", 0)
    n_undecided += rr.get("undecided_constructed", 0)
    seen_known = set()
    for iss in rr.get("issues", []):
      if iss["kind"] in E.KNOWN_KINDS and iss["kind"] not in seen_known:
        seen_known.add(iss["kind"])
        known_hits[iss["kind"]] = known_hits.get(iss["kind"], 0) + 1
        report(res, iss["kind"], iss["what"],
               {"kind": "program", "src": src, "A_source": rr.get("src_a"), "B_source": rr.get("src_b"),
                "transport": iss["transport"]})
    if st == "violation" and by_id[jid].get("kind") == "chain":
      reported += 1
      fp = "chain-%s:%s" % (rr.get("kind"), rr.get("transport"))
      ch = by_id[jid]["chain"]
      # smaller replay: the same chain restricted to the probes that fail (or to the first error)
      bad = [i["name"] for i in rr.get("issues", [])] or None
      report(res, fp, "[%s] %s" % (rr.get("transport"), rr.get("what")),
             {"kind": "chain", "chain": ch, "transport": rr.get("transport"), "failing_probes": bad,
              "detail": {k: rr.get(k) for k in ("what", "name", "source", "stub_a", "stub_0", "stub_1", "trace") if k in rr}})
      continue
    if st == "violation":
      reported += 1
      kind = rr.get("kind")
      fp = "%s:%s" % (kind, rr.get("transport"))
      if fp in _REPORTED or len(_REPORTED) >= 3:
        continue
      small, small_res = src, rr
      try:
        small = shrink_program(src, kind, (rr.get("transport"),) if kind != "transports-differ" else E.TRANSPORTS, 20)
        if small != src:
          r2 = E.check_pair(small, os.path.join(WORK, "shrink"))
          if r2.get("status") == "violation" or r2.get("issues"):
            small_res = r2
          else:
            small = src
      except Exception:  # pylint: disable=broad-except
        small, small_res = src, rr
      report(res, fp, "[%s] %s" % (small_res.get("transport"), small_res.get("what") or rr.get("what")),
             {"kind": "program", "src": small, "A_source": small_res.get("src_a"), "B_source": small_res.get("src_b"),
              "transport": small_res.get("transport") or rr.get("transport"), "original_src": src,
              "detail": {k: small_res.get(k) for k in ("what", "name", "source", "stub_0", "stub_1", "trace") if k in small_res}})
  if len(res.samples) < 6:
    for jid, rr in sorted(results.items()):
      if rr.get("status") == "ok" and rr.get("n_expect", 0) >= 8:
        res.sample({"upstream source with probes (excerpt)": rr.get("src_a", "")[-500:],
                    "upstream stub (excerpt)": rr.get("stub_a", "")[:500], "downstream (excerpt)": rr.get("src_b", "")[-400:],
                    "names compared": rr.get("n_expect")})
        break
  done = len(results)
  # the budget is wall time (the machine is shared): require a floor, record the number reached
  chains_done = [j for j in results if by_id[j].get("kind") == "chain"]
  bounded_done = [j for j in results if by_id[j].get("kind") == "bounded" and results[j].get("status") != "skip"]
  res.obligation("e2e:bounded-typevar-programs-analysed", len(bounded_done) == n_bounded,
                 "%d of %d programs with bare references to bounded generic classes finished" % (len(bounded_done), n_bounded))
  res.extra["e2e_bounded_typevar_programs"] = len(bounded_done)
  n_chain_jobs = n_first - len(corpus_programs) - n_bounded
  res.obligation("e2e:module-chains-analysed", len(chains_done) == n_chain_jobs and
                 all(results[j].get("status") != "skip" for j in chains_done),
                 "%d of %d module chains finished (skips count as unfinished)" % (len(chains_done), n_chain_jobs))
  res.extra["e2e_module_chains"] = len(chains_done)
  res.extra["e2e_module_chain_layouts"] = {}
  for j in chains_done:
    k = by_id[j]["chain"].get("layout")
    res.extra["e2e_module_chain_layouts"][k] = res.extra["e2e_module_chain_layouts"].get(k, 0) + 1
  res.obligation("e2e:programs-analysed", done >= floor and stats.get("skip", 0) <= done // 4,
                 "%d of %d programs finished within the %ds budget; %r" % (done, len(jobs), budget_s, stats))
  res.extra["e2e_programs"] = done
  res.extra["e2e_status"] = stats
  res.extra["e2e_names_compared_per_transport"] = n_expect
  res.extra["e2e_expectation_kinds"] = kinds
  res.extra["e2e_transports"] = list(E.TRANSPORTS)
  res.extra["e2e_options"] = ("Options.create(python_version=(3, 12), typeshed=False, ...) for A and B: with the default "
                              "typeshed=True a reference to a nested class (A.Node.Inner) makes the loader initialise typeshed, "
                              "which this sandbox lacks (UsageError 'Couldn't initialize typeshed' = not explorable, never a "
                              "violation); each B is analysed twice per transport: probes in order, and the read-only "
                              "inside-value probes in reverse order")
  res.extra["e2e_probes_inside_values"] = n_inside
  res.extra["e2e_names_not_compared_oracle_built_a_bad_call"] = n_tainted
  res.extra["e2e_B_equals_declared_but_A_inferred_other"] = n_infdecl
  res.extra["e2e_constructed_probes_without_declared_type_not_decided"] = n_undecided
  res.extra["e2e_known_finding_programs"] = known_hits
  res.extra["e2e_wall_s"] = round(wall, 1)


def load_corpus_chains():
  out = []
  cdir = os.path.join(common.CORPUS, "C06")
  for f in sorted(os.listdir(cdir)) if os.path.isdir(cdir) else []:
    d = json.load(open(os.path.join(cdir, f)))
    if d.get("kind") == "chain":
      out.append(d["chain"])
  return out


def load_corpus():
  types, programs = [], []
  cdir = os.path.join(common.CORPUS, "C06")
  for f in sorted(os.listdir(cdir)) if os.path.isdir(cdir) else []:
    d = json.load(open(os.path.join(cdir, f)))
    if d.get("kind") == "program":
      programs.append(d["src"])
    elif d.get("kind") == "type":
      types.append(tuple_ify(d["type"]))
  return types, programs


def tuple_ify(x):
  return tuple(tuple_ify(y) for y in x) if isinstance(x, list) else x


def run(res):
  thorough = res.tier == "thorough"
  res.rule = ("(a) stub types from a grammar over Any/nothing/builtin+user classes/bare generics/list,dict,set,frozenset/"
              "tuple[..]/tuple[x,...]/Callable[[..],r]/Callable[...,r]/type[..]/Union, depth<=5: a 'wild' stream (anything the pyi "
              "parser accepts: duplicates, Any in unions, bare type, object, same-base members) and a 'dialect' stream "
              "(what pytype emits); non-trivial = size>1, distinct by shape to depth 2.  (b) generated upstream programs "
              "(module variables of container/union/optional/tuple/callable/class-valued types, annotated and inferred "
              "functions, classes with class/instance attributes, methods, inheritance; typing imports only), a downstream "
              "module derived from the emitted stub, three transports; a program counts when >=3 names are compared.  Generic classes "
              "with 1-3 type parameters whose TypeVar names are drawn in random (mostly non-alphabetical) order, bounded and "
              "constrained TypeVars, a subclass fixing a parameter, generic functions returning instances.  B probes INSIDE every "
              "value that is an instance of one of A's classes (attributes incl. inherited, properties, methods with <=1 argument); "
              "the same probe expressions are appended to A, and B's type for each probe must be the type A's own analysis infers "
              "for it (or the type declared in A's stub with the type parameters substituted).  (c) declaration stubs: 8 argument/"
              "formal types (plain classes with a subclass pair, Any, generated containers/unions/callables), 3 functions with 1-3 "
              "signatures (positional-only, defaults, *args, **kwargs, keyword-only) each called with its own types and with "
              "varied calls (omitted defaults, keywords, extra positional/keyword, wrong counts), 2-3 classes (chain of generic "
              "bases, colliding TypeVar names, constants T / list[T] / dict[str,T] / tuple / Optional[T], methods incl. "
              "overloads, properties, static/class methods), instances C[ps], every visible member read or called, class "
              "reads, class and function re-exports; a probe is distinct by (kind, shape of the emitted type, accepted).")
  res.assumptions = [
      "the type-expression model covers constants and aliases; signatures, classes, type parameters, module resolution and "
      "LateType resolution are exercised only by the end-to-end oracle (b) (partial)",
      "Optimize passes other than SimplifyContainers / the builtins.type case of CombineContainers are not modelled: on the "
      "dialect they are the identity (C11); the correspondence compares the model with the AST handed to Optimize",
      "a cfg.Variable is modelled as the list of its bindings, all visible at the exit node",
      "hand-off theorems take C05 (print/parse), C12 (decode.encode = id), C04 (ordering is a permutation) and "
      "resolution-invariance as explicit premises; the e2e oracle checks the composed statement on real runs",
      "generator, translator pytd<->model and oracle in harness/props/c06*.py; pytype's own pyi parser reads both stubs",
      "declaration level (Conv/Decl.v): the matcher is a parameter of the model; its answers for every (argument type, formal "
      "type) pair used are measured on the real code in the same downstream module and acc t t = true is monitored; "
      "overloaded functions' return types have pairwise different base classes (Optimize inside _combine_multiple_returns "
      "is not modelled); one user base class per class, base arguments a type parameter or a ground type; type parameters "
      "below type[..] / Callable[..] are outside the model (two fixed probes keep the findings reproduced); "
      "attribute._filter_var has two model variants (Decl.attr_read fixed=false: type parameter resolved by short name, "
      "fixed=true: by full name, fixes/C06-filter-var-full-name): the collision witness of Props/C06.v is run on the tree, "
      "the variant it shows is the one all cases are held to (both are evaluated; neither matching fails the check)",
  ]
  common.coq_obligations(res, "C06")
  common.bootstrap_pytype()
  os.makedirs(WORK, exist_ok=True)
  res.trusted_base += ["out-of-tree g++ build of /repo/pytype/typegraph/*.cc (harness/common.py build_cfg)",
                       "cases.v + vm_compute runs of coq/Conv/Model.v (no extraction)"]
  r = common.rng(res.seed, "c06")
  corpus_types, corpus_programs = load_corpus()
  class_table_obligation(res)
  n_wild, n_dialect = (2500, 2500) if thorough else (300, 300)
  correspondence(res, r, n_wild, n_dialect, corpus_types)
  import c06_bound
  c06_bound.leg(res, common.rng(res.seed, "c06-bound"), 30 if thorough else 3, 36, report)
  import c06_decl
  n_batches = 40 if thorough else 3
  c06_decl.leg(res, common.rng(res.seed, "c06-decl"), n_batches, 3, report)
  n_prog, budget = (4000, 720) if thorough else (400, 50)
  e2e(res, common.rng(res.seed, "c06-e2e"), n_prog, 4, budget, corpus_programs, load_corpus_chains(),
      n_chains=200 if thorough else 6, n_bounded=40 if thorough else 3)
  if thorough:
    ok, out = common_coqchk("C06")
    res.obligation("coqchk", ok, out[-1500:])
  return "proof"


def common_coqchk(pid):
  r = subprocess.run(["timeout", "1500", "coqchk", "-silent", "-o", "-Q", common.COQ, "PV", f"PV.Props.{pid}"],
                     capture_output=True, text=True, cwd=common.COQ)
  return r.returncode == 0, r.stdout + r.stderr


def replay(res, path):
  common.bootstrap_pytype()
  import c06_e2e as E
  d = json.load(open(path))
  rep = d["replay"]
  os.makedirs(WORK, exist_ok=True)
  if rep.get("kind") == "decl":
    import c06_decl
    _, _, bad = c06_decl.replay(rep, os.path.join(WORK, "replay"))
    return 1 if bad else 0
  if rep.get("kind") == "bound":
    import c06_bound
    return 1 if c06_bound.replay(rep, os.path.join(WORK, "replay")) else 0
  if rep.get("kind") == "types":
    loaded, pre, post, errs = L.round_trip(rep["stub"], os.path.join(WORK, "replay"))
    bad = False
    for line, l, p, q in zip(rep["stub"], loaded, pre, post):
      print("upstream stub :", line)
      print("loaded as     :", l and (l[0], L.to_text(l[1]) if l[0] in ("const", "alias") else l[1]))
      print("downstream    :", q and (q[0], L.to_text(q[1]) if q[0] in ("const", "alias") else q[1]))
      if not (l and q and l[0] == "const" and q[0] in ("const", "alias")):
        bad = True
        continue
      body = HEADER + "Eval vm_compute in teq (canon (def_ty %s)) (canon %s).\n" % (L.def_to_coq(q), L.to_coq(l[1]))
      ok, out = common.run_cases_v("c06_replay", body)
      same = ok and common.parse_coq_eval(out)[0].strip() == "true"
      print("same type     :", same)
      bad = bad or not same
    print("downstream errors:", errs)
    return 1 if bad or any(e[0] in ("import-error", "pyi-error") for e in errs) else 0
  if rep.get("kind") == "chain":
    r = E.check_chain(rep["chain"], os.path.join(WORK, "replay"))
    for path, name, src in rep["chain"]["modules"]:
      print("--- module %s (%s.py)\n%s" % (name, path, src))
    print("--- a's stub (last transport analysed)\n" + str(r.get("stub_a")))
    print("--- verdict:", r.get("status"), r.get("kind"), r.get("transport"), r.get("what"))
    for i in r.get("issues", []):
      print("issue:", i["transport"], i["kind"], i["what"])
    return 1 if r.get("status") == "violation" or r.get("issues") else 0
  src = rep["src"]
  r = E.check_pair(src, os.path.join(WORK, "replay"))
  print("--- upstream source (with the probe expressions appended)\n" + str(r.get("src_a") or src))
  print("--- upstream stub\n" + str(r.get("stub_a")))
  print("--- downstream source\n" + str(r.get("src_b")))
  print("--- verdict:", r.get("status"), r.get("kind"), r.get("transport"), r.get("what"))
  for i in r.get("issues", []):
    print("issue:", i["transport"], i["kind"], i["what"])
  return 1 if r.get("status") == "violation" or r.get("issues") else 0
