"""C01 helper: the loop-free language L0 on the harness side.

 * AST (nested tuples), deterministic generator, Python source renderer
 * CPython reference execution (value encoding shared with the Coq `ceval`)
 * Coq term printer for programs and decoder for the token lists the model prints

expr: ('int',n) ('float',k) ('str',k) ('bytes',k) ('bool',b) ('none',) ('name',x)
      ('list',[e]) ('tuple',[e]) ('dict',[(k,v)]) ('set',[e]) ('not',e) ('isnone',e) ('isnotnone',e)
      ('isinst',e,C) ('and',a,b) ('or',a,b) ('ifexp',c,a,b) ('call',f,[e]) ('sub',e,i)
stmt: ('assign',x,e) ('if',c,[s],[s]) ('def',f,[params],[s]) ('pass',) ('return',e)
Names are small naturals; they are rendered v<i> (module level), p<i>/l<i> never occur: every name is `n<i>`.
Function names are rendered f<i>.  Float literal k denotes k/2 (so 0 -> 0.0, 3 -> 1.5, 2 -> 1.0);
str literal k denotes "" for 0 and "s<k>" otherwise; bytes likewise.
"""
import ast

CLASSES = ["int", "float", "str", "bytes", "bool", "list", "tuple", "dict", "set", "object"]


# ---------------------------------------------------------------------------------------
# rendering to Python source

def lit_str(k):
  return "" if k == 0 else "s%d" % k


def r_expr(e):
  t = e[0]
  if t == "int":
    return str(e[1]) if e[1] >= 0 else "(%d)" % e[1]
  if t == "float":
    return repr(e[1] / 2.0)
  if t == "str":
    return repr(lit_str(e[1]))
  if t == "bytes":
    return repr(lit_str(e[1]).encode())
  if t == "bool":
    return "True" if e[1] else "False"
  if t == "none":
    return "None"
  if t == "name":
    return "n%d" % e[1]
  if t == "list":
    return "[" + ", ".join(r_expr(x) for x in e[1]) + "]"
  if t == "tuple":
    if len(e[1]) == 1:
      return "(" + r_expr(e[1][0]) + ",)"
    return "(" + ", ".join(r_expr(x) for x in e[1]) + ")"
  if t == "dict":
    return "{" + ", ".join(r_expr(k) + ": " + r_expr(v) for k, v in e[1]) + "}"
  if t == "set":
    return "{" + ", ".join(r_expr(x) for x in e[1]) + "}"
  if t == "not":
    return "(not " + r_expr(e[1]) + ")"
  if t == "isnone":
    return "(" + r_expr(e[1]) + " is None)"
  if t == "isnotnone":
    return "(" + r_expr(e[1]) + " is not None)"
  if t == "isinst":
    return "isinstance(" + r_expr(e[1]) + ", " + CLASSES[e[2]] + ")"
  if t == "and":
    return "(" + r_expr(e[1]) + " and " + r_expr(e[2]) + ")"
  if t == "or":
    return "(" + r_expr(e[1]) + " or " + r_expr(e[2]) + ")"
  if t == "ifexp":
    return "(" + r_expr(e[2]) + " if " + r_expr(e[1]) + " else " + r_expr(e[3]) + ")"
  if t == "call":
    return "f%d(" % e[1] + ", ".join(r_expr(x) for x in e[2]) + ")"
  if t == "sub":
    return r_expr(e[1]) + "[" + r_expr(e[2]) + "]"
  raise ValueError(e)


def r_block(ss, ind, out):
  if not ss:
    out.append(ind + "pass")
  for s in ss:
    r_stmt(s, ind, out)


def r_stmt(s, ind, out):
  t = s[0]
  if t == "assign":
    out.append(ind + "n%d = %s" % (s[1], r_expr(s[2])))
  elif t == "pass":
    out.append(ind + "pass")
  elif t == "return":
    out.append(ind + "return " + r_expr(s[1]))
  elif t == "if":
    kw = "if"
    while True:
      out.append(ind + kw + " " + r_expr(s[1]) + ":")
      r_block(s[2], ind + "  ", out)
      if len(s[3]) == 1 and s[3][0][0] == "if" and s[3][0][-1] == "elif":
        s = s[3][0]
        kw = "elif"
        continue
      if s[3]:
        out.append(ind + "else:")
        r_block(s[3], ind + "  ", out)
      break
  elif t == "def":
    out.append(ind + "def f%d(%s):" % (s[1], ", ".join("n%d" % p for p in s[2])))
    r_block(s[3], ind + "  ", out)
  else:
    raise ValueError(s)


def render(prog):
  out = []
  for s in prog:
    r_stmt(s, "", out)
  return "\n".join(out) + "\n"


def norm_stmt(s):
  """drops the 'elif' rendering marker"""
  if s[0] == "if":
    return ("if", s[1], [norm_stmt(x) for x in s[2]], [norm_stmt(x) for x in s[3]])
  if s[0] == "def":
    return ("def", s[1], s[2], [norm_stmt(x) for x in s[3]])
  return s


# ---------------------------------------------------------------------------------------
# generator

INTS = [0, 1, 2, 5, 12, 13, 100, -1, -5, 7]
FLOATS = [0, 3, 2, 5]
STRS = [0, 1, 2]


MAXD = 1   # operands of builtin calls (isinstance, dict display items) hold containers nested at most this deep


class Gen:
  """Generates loop-free programs that run to completion under CPython: names are read only when assigned on
  every path, dict keys / set elements are hashable literals or names known to hold hashable values.

  Restrictions that keep the programs inside the fragment where the Coq model is exact (see Vm/Model.v):
   * no two Python-equal literal keys/elements in one dict/set display (CPython and pytype's constant folding
     keep one entry per equal literal, the model keeps all of them);
   * the operand of isinstance and the items of a dict display are containers nested at most MAXD deep
     (builtin calls fall back to Any arguments when the deep binding product of an argument exceeds 1024)."""

  def __init__(self, r, n_stmts, features=None):
    self.r = r
    self.budget = n_stmts
    self.funcs = {}          # fid -> dict(np, extra, shallow, globs)
    self.nfunc = 0
    self.features = features or {}
    self.hashable = set()    # module-level names that hold hashable values on every path
    self.cdepth = {}         # name -> upper bound of the container nesting depth of its values (monotone)
    self.in_func = None
    self.f_shallow = False
    self.call_first = {}
    # subscripts (Vm/Model.v ESub): dedicated module-level names hold a tuple (n8) / list (n9) display of known
    # length and are never re-assigned; n10 holds an index that is in range for every subscripted list.
    # sub_mode 'exact': every subscripted display has literal-only elements (one binding per element variable, the
    # model's strict run is exact); 'free': elements may be names/expressions with several bindings (the strict run
    # returns all bindings of the selected element variable: sound, but not a lower bound of pytype's answer under
    # correlated branches -> the lower-bound comparison is not demanded for such programs, see sub_flavour)
    self.seqs = {}           # name -> (kind, length)
    self.idx_name = None     # (name, max value)
    self.sub_mode = None

  # -- static bound on container nesting
  def edepth(self, e):
    t = e[0]
    if t == "name":
      return self.cdepth.get(e[1], 0)
    if t in ("list", "tuple", "set"):
      return 1 + max([self.edepth(x) for x in e[1]] + [0])
    if t == "dict":
      return 1 + max([max(self.edepth(k), self.edepth(v)) for k, v in e[1]] + [0])
    if t in ("and", "or"):
      return max(self.edepth(e[1]), self.edepth(e[2]))
    if t == "ifexp":
      return max(self.edepth(e[2]), self.edepth(e[3]))
    if t == "sub":
      return max(0, self.edepth(e[1]) - 1)
    if t == "call":
      f = self.funcs[e[1]]
      base = max([self.edepth(x) for x in e[2]] + [0])
      if f["globs"]:
        base = max([base] + [v for k, v in self.cdepth.items() if k < 20])
      return base + f["extra"]
    return 0

  def lit(self):
    r = self.r
    k = r.random()
    if k < 0.30:
      return ("int", r.choice(INTS))
    if k < 0.47:
      return ("float", r.choice(FLOATS))
    if k < 0.60:
      return ("str", r.choice(STRS))
    if k < 0.68:
      return ("bytes", r.choice(STRS))
    if k < 0.78:
      return ("bool", r.random() < 0.5)
    return ("none",)

  def shallow(self, e):
    """e if it is shallow enough to be the argument of a builtin call, else a literal"""
    return e if self.edepth(e) <= MAXD else self.lit()

  def lit_display(self, kind, n, nest=True):
    r = self.r
    elts = []
    for _ in range(n):
      if nest and r.random() < 0.25:
        elts.append(self.lit_display(r.choice(["tuple", "list"]), r.randint(0, 2), nest=False))
      else:
        elts.append(self.lit())
    return (kind, elts)

  def seq_display(self, kind, n, names):
    """a display to be subscripted: literal-only elements in 'exact' mode"""
    r = self.r
    if self.sub_mode == "exact" or not names:
      return self.lit_display(kind, n)
    elts = []
    for _ in range(n):
      k = r.random()
      if k < 0.45:
        elts.append(("name", r.choice(names)))
      elif k < 0.6:
        elts.append(self.expr(names, 1))
      else:
        elts.append(self.lit())
    return (kind, elts)

  def sub(self, names, depth):
    """a subscript of a tuple/list by an index that is in range (rarely: out of range -> IndexError)"""
    r = self.r
    cands = [n for n in sorted(self.seqs) if n in names]
    if cands and r.random() < 0.7:
      x = r.choice(cands)
      kind, n = self.seqs[x]
      recv = ("name", x)
    else:
      kind = r.choice(["tuple", "list"])
      n = r.randint(1, 3)
      recv = self.seq_display(kind, n, names)
      if kind == "tuple" and _const_tuple(recv):
        # CPython folds a subscript of a constant tuple by a constant index at compile time (ast_opt fold_subscr),
        # so pytype never sees it (and a jump on it is decided by the compiler); the model does not mirror this
        # folding: such receivers are written as list displays (never folded)
        kind = "list"
        recv = ("list", recv[1])
    k = r.random()
    if kind == "list" and self.idx_name and self.idx_name[0] in names and self.idx_name[1] < n and k < 0.35:
      idx = ("name", self.idx_name[0])
    elif k < 0.45:
      idx = ("int", r.randrange(n)) if r.random() < 0.85 else ("bool", r.randrange(min(n, 2)) == 1)
    elif k < 0.97 or n > 12:
      idx = ("int", -1 - r.randrange(n)) if n == 1 or r.random() < 0.5 else ("int", r.randrange(n))
      if idx[1] < -1:
        # only -1..12 are concrete ints for pytype; other negative indices are undecided: keep them for lists
        if kind == "tuple":
          idx = ("int", -1)
    else:
      idx = ("int", n)               # IndexError
    return ("sub", recv, idx)

  def expr(self, names, depth, hashable=False):
    r = self.r
    if self.sub_mode and not hashable and depth > 0 and r.random() < 0.16:
      return self.sub(names, depth)
    k = r.random()
    if depth <= 0 or k < 0.22:
      if names and r.random() < 0.6 and not hashable:
        return ("name", r.choice(names))
      if hashable:
        hs = [n for n in names if n in self.hashable] if self.in_func is None else []
        if hs and r.random() < 0.4:
          return ("name", r.choice(hs))
      return self.lit()
    if k < 0.30:
      return self.lit()
    if k < 0.40 and names and not hashable:
      return ("name", r.choice(names))
    if k < 0.47 and not hashable:
      return ("list", [self.expr(names, depth - 1) for _ in range(r.randint(0, 3))])
    if k < 0.55:
      return ("tuple", [self.expr(names, depth - 1, hashable) for _ in range(r.randint(0, 3))])
    if k < 0.61 and not hashable:
      items = [(self.shallow(self.expr(names, depth - 1, True)), self.shallow(self.expr(names, depth - 1)))
               for _ in range(r.randint(0, 2))]
      # pytype's constant folding keeps one entry per equal literal key (a Python dict): avoid equal literal keys
      if len(items) == 2 and lit_key(items[0][0]) is not None and lit_key(items[0][0]) == lit_key(items[1][0]):
        items = items[:1]
      if self.in_func is not None and items:
        self.f_shallow = True
      return ("dict", items)
    if k < 0.65 and not hashable:
      elts = []
      for _ in range(r.randint(1, 3)):
        x = self.expr(names, depth - 1, True)
        # CPython / pytype fold all-constant set displays and drop equal elements: avoid equal literal elements
        if lit_key(x) is None or all(lit_key(y) != lit_key(x) for y in elts):
          elts.append(x)
      return ("set", elts)
    if hashable:
      return self.lit()
    if k < 0.80:
      return self.cond(names, depth - 1, value=True)
    if k < 0.90:
      return ("ifexp", self.cond(names, depth - 1), self.expr(names, depth - 1), self.expr(names, depth - 1))
    return self.call(names, depth - 1) or self.lit()

  def call(self, names, depth):
    fs = [f for f in sorted(self.funcs) if self.in_func is None or f < self.in_func]
    if not fs:
      return None
    f = self.r.choice(fs)
    info = self.funcs[f]
    args = [self.expr(names, depth) for _ in range(info["np"])]
    # pytype caches calls by argument data (not modelled): a function is called again only with a first argument
    # that is a literal not used before for it
    used = self.call_first.setdefault(f, set())
    if used or info["np"] == 0:
      if info["np"] == 0 and "called" in used:
        return None
      if info["np"] > 0:
        for _ in range(4):
          a0 = self.lit()
          if lit_key(a0) not in used:
            break
        else:
          return None
        args[0] = a0
    used.add(lit_key(args[0]) if args and lit_key(args[0]) is not None else "called")
    if info["shallow"]:
      args = [self.shallow(a) for a in args]
      if info["globs"] and any(v > MAXD for k, v in self.cdepth.items() if k < 20):
        return None
      if self.in_func is not None:
        self.f_shallow = True
    return ("call", f, args)

  def operand(self, names, depth, shallow=False):
    """an operand in a test position: mostly a name, never a bare literal unless the feature is on"""
    r = self.r
    if shallow:
      names = [n for n in names if self.cdepth.get(n, 0) <= MAXD]
    if self.sub_mode and not shallow and r.random() < 0.12:
      return self.sub(names, depth)
    if names and r.random() < 0.75:
      return ("name", r.choice(names))
    if r.random() < self.features.get("lit_in_test", 0.0):
      return self.lit()
    c = self.call(names, depth) if r.random() < 0.5 else None
    if c and (not shallow or self.edepth(c) <= MAXD):
      return c
    if names:
      return ("name", r.choice(names))
    return ("isinst", self.lit(), r.randrange(len(CLASSES)))

  def cond(self, names, depth, value=False):
    r = self.r
    k = r.random()
    if depth <= 0 or k < 0.25:
      o = self.operand(names, depth)
      if value and o[0] == "name":
        k = 0.25 + 0.75 * r.random()   # a bare name is not an interesting value expression: wrap it
      else:
        return o
    if k < 0.40:
      return ("not", self.cond(names, depth - 1))
    if k < 0.52:
      return ("isnone", self.operand(names, depth))
    if k < 0.62:
      return ("isnotnone", self.operand(names, depth))
    if k < 0.77:
      if self.in_func is not None:
        self.f_shallow = True
      return ("isinst", self.operand(names, depth, shallow=True), r.randrange(len(CLASSES)))
    if k < 0.87:
      return ("and", self.cond(names, depth - 1), self.cond(names, depth - 1) if r.random() < 0.6
              else self.expr(names, depth - 1))
    if k < 0.96:
      return ("or", self.cond(names, depth - 1), self.cond(names, depth - 1) if r.random() < 0.6
              else self.expr(names, depth - 1))
    return ("ifexp", self.cond(names, depth - 1), self.cond(names, depth - 1), self.cond(names, depth - 1))

  def block(self, defined, pool, depth, n):
    """returns (stmts, defined_after, returned_on_all_paths)"""
    out = []
    defined = set(defined)
    r = self.r
    for _ in range(n):
      if self.budget <= 0:
        break
      self.budget -= 1
      k = r.random()
      names = sorted(defined)
      if k < 0.58 or depth >= 3:
        x = r.choice(pool)
        e = self.expr(names, r.randint(0, 3))
        out.append(("assign", x, e))
        defined.add(x)
        self.cdepth[x] = max(self.cdepth.get(x, 0), self.edepth(e))
        if self.in_func is None:
          if self.is_hashable_expr(e):
            self.hashable.add(x)
          else:
            self.hashable.discard(x)
      elif k < 0.62:
        out.append(("pass",))
      elif k < 0.70 and self.in_func is not None:
        e = self.expr(names, r.randint(0, 2))
        self.ret_depth = max(self.ret_depth, self.edepth(e))
        out.append(("return", e))
        return out, defined, True
      else:
        c = self.cond(names, r.randint(0, 2))
        hsave = set(self.hashable)
        b1, d1, r1 = self.block(defined, pool, depth + 1, r.randint(1, 3))
        h1 = self.hashable
        self.hashable = set(hsave)
        if r.random() < 0.7:
          if r.random() < 0.3:
            c2 = self.cond(names, r.randint(0, 2))
            b2a, d2a, r2a = self.block(defined, pool, depth + 2, r.randint(1, 2))
            h2a = self.hashable
            self.hashable = set(hsave)
            b2b, d2b, r2b = (self.block(defined, pool, depth + 2, r.randint(1, 2)) if r.random() < 0.7
                             else ([], set(defined), False))
            h2b = self.hashable
            inner = ("if", c2, b2a, b2b, "elif")
            b2 = [inner]
            if r2a and r2b: d2, r2 = None, True
            elif r2a: d2, r2 = d2b, False
            elif r2b: d2, r2 = d2a, False
            else: d2, r2 = d2a & d2b, False
            h2 = h2a & h2b
          else:
            b2, d2, r2 = self.block(defined, pool, depth + 1, r.randint(1, 3))
            h2 = self.hashable
        else:
          b2, d2, r2 = [], set(defined), False
          h2 = set(hsave)
        self.hashable = h1 & h2
        out.append(("if", c, b1, b2))
        if r1 and r2:
          return out, defined, True
        if r1:
          defined = d2
        elif r2:
          defined = d1
        else:
          defined = d1 & d2
    return out, defined, False

  def is_hashable_expr(self, e):
    t = e[0]
    if t in ("int", "float", "str", "bytes", "bool", "none", "not", "isnone", "isnotnone", "isinst"):
      return True
    if t == "name":
      return e[1] in self.hashable
    if t == "tuple":
      return all(self.is_hashable_expr(x) for x in e[1])
    if t in ("and", "or"):
      return self.is_hashable_expr(e[1]) and self.is_hashable_expr(e[2])
    if t == "ifexp":
      return self.is_hashable_expr(e[2]) and self.is_hashable_expr(e[3])
    return False

  def program(self):
    r = self.r
    prog = []
    defined = set()
    gpool = list(range(0, 8))
    # most programs start with values whose truthiness pytype cannot decide (floats, ints outside -1..12) and a
    # name with two bindings, so that branches split into several worlds
    if r.random() < 0.7:
      x = r.choice(gpool)
      prog.append(("assign", x, r.choice([("float", r.choice(FLOATS)), ("int", r.choice([13, 100, -5]))])))
      defined.add(x)
      self.hashable.add(x)
      self.budget -= 1
      if r.random() < 0.7:
        y = r.choice([g for g in gpool if g != x])
        a, b = self.lit(), self.lit()
        prog.append(("assign", y, ("ifexp", ("name", x), a, b)))
        defined.add(y)
        self.hashable.add(y)
        self.budget -= 1
    if r.random() < self.features.get("p_sub", 0.55):
      self.sub_mode = "exact" if r.random() < 0.6 else "free"
      names0 = sorted(defined)
      for x, kind in ((8, "tuple"), (9, "list")):
        if r.random() < 0.75:
          n = r.randint(1, 4)
          e = self.seq_display(kind, n, names0)
          prog.append(("assign", x, e))
          self.seqs[x] = (kind, n)
          self.cdepth[x] = self.edepth(e)
          defined.add(x)
          self.budget -= 1
      if r.random() < 0.6:
        cond_names = [n for n in names0]
        if cond_names and r.random() < 0.4:
          e = ("ifexp", ("name", r.choice(cond_names)), ("int", 0), ("int", 1))
        else:
          e = ("int", r.choice([0, 1]))
        prog.append(("assign", 10, e))
        self.idx_name = (10, 1 if e[0] == "ifexp" else e[1])
        self.cdepth[10] = 0
        self.hashable.add(10)
        defined.add(10)
        self.budget -= 1
    while self.budget > 0:
      if r.random() < self.features.get("p_def", 0.18) and self.nfunc < 6:
        fid = self.nfunc
        self.nfunc += 1
        np_ = r.randint(0, 3)
        params = list(range(20, 20 + np_))
        lpool = params + list(range(30, 33))
        self.budget -= 1
        save = self.budget
        self.budget = min(self.budget, r.randint(1, 8))
        inner0 = self.budget
        # globals readable in a function: those defined on every path at definition time
        globs = r.random() < self.features.get("p_glob", 0.3) and bool(defined)
        self.in_func, self.f_shallow, self.ret_depth = fid, False, 0
        gsave = dict(self.cdepth)
        for q in lpool:
          self.cdepth[q] = 0
        body, _, _ = self.block(set(params) | (defined if globs else set()), lpool, 1, 8)
        self.cdepth = gsave
        self.in_func = None
        self.budget = save - (inner0 - self.budget)
        if not body:
          body = [("pass",)]
        prog.append(("def", fid, params, body))
        self.funcs[fid] = {"np": np_, "extra": self.ret_depth, "shallow": self.f_shallow, "globs": globs}
      else:
        ss, defined, _ = self.block(defined, gpool, 0, 1)
        prog.extend(ss)
    return prog


def _const_tuple(e):
  """a tuple display CPython's compiler turns into a constant"""
  return e[0] == "tuple" and all(x[0] in ("int", "float", "str", "bytes", "bool", "none") or _const_tuple(x)
                                 for x in e[1])


def _lit_only(e):
  t = e[0]
  if t in ("int", "float", "str", "bytes", "bool", "none"):
    return True
  if t in ("list", "tuple"):
    return all(_lit_only(x) for x in e[1])
  return False


def sub_flavour(prog):
  """None: the program has no subscript; 'exact': every subscripted value is a display of literals (inline, or a
  module-level name assigned exactly once, at top level, from such a display); 'free': anything else.  In a 'free'
  program an element variable of a subscripted display can hold several bindings; the model's strict run then
  returns all of them (sound), which is not a lower bound of what pytype's solver keeps under correlated branches,
  so only the upper bound, the concrete evaluator and the property oracle are demanded there."""
  assigns = {}          # name -> list of (top_level?, rhs)
  subs = []

  def ex(e):
    t = e[0]
    if t == "sub":
      subs.append(e)
      ex(e[1]); ex(e[2])
    elif t in ("list", "tuple", "set"):
      for x in e[1]:
        ex(x)
    elif t == "dict":
      for k, v in e[1]:
        ex(k); ex(v)
    elif t in ("not", "isnone", "isnotnone", "isinst"):
      ex(e[1])
    elif t in ("and", "or"):
      ex(e[1]); ex(e[2])
    elif t == "ifexp":
      ex(e[1]); ex(e[2]); ex(e[3])
    elif t == "call":
      for x in e[2]:
        ex(x)

  def st(s, top):
    t = s[0]
    if t == "assign":
      assigns.setdefault(s[1], []).append((top, s[2]))
      ex(s[2])
    elif t == "return":
      ex(s[1])
    elif t == "if":
      ex(s[1])
      for x in s[2]:
        st(x, False)
      for x in s[3]:
        st(x, False)
    elif t == "def":
      for x in s[3]:
        st(x, False)

  for s in prog:
    st(s, True)
  if not subs:
    return None
  for e in subs:
    recv = e[1]
    if recv[0] == "name":
      a = assigns.get(recv[1], [])
      if not (len(a) == 1 and a[0][0] and a[0][1][0] in ("list", "tuple") and _lit_only(a[0][1])):
        return "free"
    elif not (recv[0] in ("list", "tuple") and _lit_only(recv)):
      return "free"
  return "exact"


def lit_key(e):
  """the Python value of a literal (tuples of literals included), None for non-literals"""
  t = e[0]
  if t == "int":
    return ("v", e[1])
  if t == "float":
    return ("v", e[1] / 2.0)
  if t == "bool":
    return ("v", e[1])
  if t == "str":
    return ("s", e[1])
  if t == "bytes":
    return ("b", e[1])
  if t == "none":
    return ("n",)
  if t == "tuple":
    ks = [lit_key(x) for x in e[1]]
    return None if any(k is None for k in ks) else ("t", tuple(ks))
  return None


def generate(r, n_stmts, features=None):
  g = Gen(r, n_stmts, features)
  return g.program()


# ---------------------------------------------------------------------------------------
# CPython reference execution; values encoded as nested tuples shared with the model's decoder

def enc_value(v):
  if v is None:
    return ("none",)
  if isinstance(v, bool):
    return ("bool", v)
  if isinstance(v, int):
    return ("int", v)
  if isinstance(v, float):
    return ("float", int(v * 2))
  if isinstance(v, str):
    return ("str", 0 if v == "" else int(v[1:]))
  if isinstance(v, bytes):
    return ("bytes", 0 if v == b"" else int(v[1:].decode()))
  if isinstance(v, list):
    return ("list", tuple(enc_value(x) for x in v))
  if isinstance(v, tuple):
    return ("tuple", tuple(enc_value(x) for x in v))
  if isinstance(v, dict):
    return ("dict", tuple((enc_value(k), enc_value(x)) for k, x in v.items()))
  if isinstance(v, (set, frozenset)):
    return ("set", frozenset(enc_value(x) for x in v))
  if callable(v):
    return ("func",)
  raise ValueError(v)


def run_cpython(src):
  """Returns ({name: encoded value} , None) or (None, exception repr)."""
  g = {}
  try:
    exec(compile(src, "<l0>", "exec"), g)  # pylint: disable=exec-used
  except Exception as e:  # pylint: disable=broad-except
    return None, type(e).__name__ + ": " + str(e)
  return {k: g[k] for k in g if k.startswith("n")}, None


# ---------------------------------------------------------------------------------------
# Coq term printer

def c_z(n):
  return "(%d)%%Z" % n


def c_list(xs):
  return "[" + "; ".join(xs) + "]"


def c_expr(e):
  t = e[0]
  if t == "int":
    return "(EInt %s)" % c_z(e[1])
  if t == "float":
    return "(EFloat %s)" % c_z(e[1])
  if t == "str":
    return "(EStr %d)" % e[1]
  if t == "bytes":
    return "(EBytes %d)" % e[1]
  if t == "bool":
    return "(EBool %s)" % ("true" if e[1] else "false")
  if t == "none":
    return "ENone"
  if t == "name":
    return "(EName %d)" % e[1]
  if t in ("list", "tuple", "set"):
    return "(%s %s)" % ({"list": "EList", "tuple": "ETuple", "set": "ESet"}[t], c_list(c_expr(x) for x in e[1]))
  if t == "dict":
    return "(EDict %s %s)" % (c_list(c_expr(k) for k, _ in e[1]), c_list(c_expr(v) for _, v in e[1]))
  if t == "not":
    return "(ENot %s)" % c_expr(e[1])
  if t == "isnone":
    return "(EIsNone %s)" % c_expr(e[1])
  if t == "isnotnone":
    return "(EIsNotNone %s)" % c_expr(e[1])
  if t == "isinst":
    return "(EIsInst %s C%s)" % (c_expr(e[1]), CLASSES[e[2]])
  if t == "and":
    return "(EAnd %s %s)" % (c_expr(e[1]), c_expr(e[2]))
  if t == "or":
    return "(EOr %s %s)" % (c_expr(e[1]), c_expr(e[2]))
  if t == "ifexp":
    return "(EIf %s %s %s)" % (c_expr(e[1]), c_expr(e[2]), c_expr(e[3]))
  if t == "call":
    return "(ECall %d %s)" % (e[1], c_list(c_expr(x) for x in e[2]))
  if t == "sub":
    return "(ESub %s %s)" % (c_expr(e[1]), c_expr(e[2]))
  raise ValueError(e)


def c_stmt(s):
  t = s[0]
  if t == "assign":
    return "(SAssign %d %s)" % (s[1], c_expr(s[2]))
  if t == "pass":
    return "SPass"
  if t == "return":
    return "(SReturn %s)" % c_expr(s[1])
  if t == "if":
    return "(SIf %s %s %s)" % (c_expr(s[1]), c_list(c_stmt(x) for x in s[2]), c_list(c_stmt(x) for x in s[3]))
  if t == "def":
    return "(SDef %d %s %s)" % (s[1], c_list(str(p) for p in s[2]), c_list(c_stmt(x) for x in s[3]))
  raise ValueError(s)


def c_prog(prog):
  return c_list(c_stmt(s) for s in prog)


# ---------------------------------------------------------------------------------------
# canonical type strings (both sides are brought to this form before comparing)
#   ty := ('base', name) | ('any',) | ('nothing',) | ('gen', name, (ty..)) | ('tuple', (ty..)) | ('homtuple', ty)
#       | ('union', frozenset(ty))

def parse_type_expr(node):
  """ast of a printed pytd type -> ty"""
  if isinstance(node, ast.Constant):
    if node.value is None:
      return ("base", "None")
    if node.value is Ellipsis:
      return ("ellipsis",)
    if isinstance(node.value, str):
      return parse_type_expr(ast.parse(node.value, mode="eval").body)
    raise ValueError(ast.dump(node))
  if isinstance(node, ast.Name):
    if node.id == "Any":
      return ("any",)
    if node.id == "nothing":
      return ("nothing",)
    if node.id == "NoneType":
      return ("base", "None")
    return ("base", node.id)
  if isinstance(node, ast.Attribute):
    return ("base", ast.unparse(node))
  if isinstance(node, ast.BinOp) and isinstance(node.op, ast.BitOr):
    return mk_union([parse_type_expr(node.left), parse_type_expr(node.right)])
  if isinstance(node, ast.Subscript):
    head = ast.unparse(node.value)
    sl = node.slice
    args = list(sl.elts) if isinstance(sl, ast.Tuple) else [sl]
    if head in ("Optional", "typing.Optional"):
      return mk_union([parse_type_expr(args[0]), ("base", "None")])
    if head in ("Union", "typing.Union"):
      return mk_union([parse_type_expr(a) for a in args])
    if head in ("tuple", "Tuple", "typing.Tuple"):
      if isinstance(sl, ast.Tuple) and not sl.elts:
        return ("tuple", ())
      ps = [parse_type_expr(a) for a in args]
      if len(ps) == 2 and ps[1] == ("ellipsis",):
        return ("homtuple", ps[0])
      return ("tuple", tuple(ps))
    if head in ("Callable", "typing.Callable"):
      a0 = args[0]
      if isinstance(a0, ast.List):
        ps = ("params", tuple(parse_type_expr(x) for x in a0.elts))
      else:
        ps = parse_type_expr(a0)
      return ("callable", ps, parse_type_expr(args[1]))
    return ("gen", head, tuple(parse_type_expr(a) for a in args))
  if isinstance(node, ast.List):
    return ("params", tuple(parse_type_expr(x) for x in node.elts))
  raise ValueError(ast.dump(node))


def mk_union(ts):
  out = set()
  for t in ts:
    if t[0] == "union":
      out |= set(t[1])
    elif t[0] != "nothing":
      out.add(t)
  if ("any",) in out:
    return ("any",)
  if not out:
    return ("nothing",)
  if len(out) == 1:
    return next(iter(out))
  return ("union", frozenset(out))


def show_ty(t):
  k = t[0]
  if k == "base":
    return t[1]
  if k == "any":
    return "Any"
  if k == "nothing":
    return "nothing"
  if k == "gen":
    return t[1] + "[" + ", ".join(show_ty(x) for x in t[2]) + "]"
  if k == "tuple":
    return "tuple[" + (", ".join(show_ty(x) for x in t[1]) if t[1] else "()") + "]"
  if k == "homtuple":
    return "tuple[" + show_ty(t[1]) + ", ...]"
  if k == "union":
    return "Union[" + ", ".join(sorted(show_ty(x) for x in t[1])) + "]"
  if k == "callable":
    return "Callable[" + show_ty(t[1]) + ", " + show_ty(t[2]) + "]"
  if k == "params":
    return "[" + ", ".join(show_ty(x) for x in t[1]) + "]"
  if k == "ellipsis":
    return "..."
  raise ValueError(t)


def parse_pyi_constants(pyi):
  """{name: ty} for the `name: type` lines of a stub; (functions are returned separately as name -> return ty)."""
  consts, funcs = {}, {}
  tree = ast.parse(pyi)
  for node in tree.body:
    if isinstance(node, ast.AnnAssign) and isinstance(node.target, ast.Name):
      consts[node.target.id] = parse_type_expr(node.annotation)
    elif isinstance(node, ast.FunctionDef):
      funcs[node.name] = parse_type_expr(node.returns) if node.returns is not None else ("any",)
  return consts, funcs


def ty_subset(a, b):
  """A syntactic sufficient condition for gamma(a) <= gamma(b) on canonical types (value-set reading: containers
  are covariant, bool <= int, tuple[a,b] <= tuple[x, ...] when a,b <= x)."""
  if b == ("any",) or a == ("nothing",) or a == b:
    return True
  if a[0] == "union":
    return all(ty_subset(x, b) for x in a[1])
  if b[0] == "union":
    return any(ty_subset(a, y) for y in b[1])
  if a == ("any",):
    return False
  if a == ("base", "bool") and b == ("base", "int"):
    return True
  if b == ("base", "object"):
    return True
  if a[0] == "gen" and b[0] == "gen" and a[1] == b[1] and len(a[2]) == len(b[2]):
    return all(ty_subset(x, y) for x, y in zip(a[2], b[2]))
  if a[0] == "tuple" and b[0] == "tuple" and len(a[1]) == len(b[1]):
    return all(ty_subset(x, y) for x, y in zip(a[1], b[1]))
  if a[0] == "tuple" and b[0] == "homtuple":
    return all(ty_subset(x, b[1]) for x in a[1])
  if a[0] == "homtuple" and b[0] == "homtuple":
    return ty_subset(a[1], b[1])
  return False


def parse_type_str(s):
  return parse_type_expr(ast.parse(s, mode="eval").body)


# ---------------------------------------------------------------------------------------
# running the Coq model: cases files and decoding of the printed terms

def cases_file(progs, fuel=12):
  """progs: list of (prog, names).  One `Eval vm_compute` per program."""
  out = ["From Coq Require Import List ZArith.", "From PV Require Import Vm.Model.", "Import ListNotations.",
         "Open Scope nat_scope."]
  for prog, names in progs:
    p = [norm_stmt(s) for s in prog]
    tops = []
    for s in p:
      if s[0] == "def":
        tops.append("TDef %d %s %s" % (s[1], c_list(str(x) for x in s[2]), c_list(c_stmt(x) for x in s[3])))
      else:
        tops.append("TStmt %s" % c_stmt(s))
    out.append("Eval vm_compute in (report %s %s %d)." % (c_list(tops), c_list(str(n) for n in names), fuel))
  return "\n".join(out) + "\n"


class _P:
  """parser for the subset of Coq term syntax that `Eval` prints for nested lists/pairs/options/bools/numbers"""

  def __init__(self, s):
    import re
    self.toks = re.findall(r"-?\d+|[()\[\];,]|true|false|Some|None", s.replace("%Z", "").replace("%nat", ""))
    self.i = 0

  def peek(self):
    return self.toks[self.i] if self.i < len(self.toks) else None

  def eat(self, t=None):
    x = self.toks[self.i]
    assert t is None or x == t, (x, t, self.toks[max(0, self.i - 5):self.i + 5])
    self.i += 1
    return x

  def term(self):
    t = self.peek()
    if t == "[":
      self.eat()
      xs = []
      while self.peek() != "]":
        xs.append(self.term())
        if self.peek() == ";":
          self.eat()
      self.eat("]")
      return xs
    if t == "(":
      self.eat()
      xs = [self.term()]
      while self.peek() == ",":
        self.eat()
        xs.append(self.term())
      self.eat(")")
      return xs[0] if len(xs) == 1 else tuple(xs)
    if t == "Some":
      self.eat()
      return ("Some", self.term())
    if t == "None":
      self.eat()
      return None
    if t in ("true", "false"):
      self.eat()
      return t == "true"
    return int(self.eat())


def parse_term(s):
  return _P(s).term()


def dec_ty(toks, i=0):
  """decodes enc_ty; returns (canonical ty, next index)"""
  k = toks[i]
  base = {0: ("any",), 1: ("nothing",), 2: ("base", "None"), 3: ("base", "int"), 4: ("base", "float"),
          5: ("base", "str"), 6: ("base", "bytes"), 7: ("base", "bool")}
  if k in base:
    return base[k], i + 1
  if k == 8 or k == 9:
    t, j = dec_ty(toks, i + 1)
    return ("gen", "list" if k == 8 else "set", (t,)), j
  if k == 10:
    a, j = dec_ty(toks, i + 1)
    b, j = dec_ty(toks, j)
    return ("gen", "dict", (a, b)), j
  if k == 12:
    t, j = dec_ty(toks, i + 1)
    return ("homtuple", t), j
  n = toks[i + 1]
  j = i + 2
  ts = []
  for _ in range(n):
    t, j = dec_ty(toks, j)
    ts.append(t)
  if k == 11:
    return ("tuple", tuple(ts)), j
  return mk_union(ts), j


def dec_value(toks, i=0):
  k = toks[i]
  if k == 0:
    return ("int", toks[i + 1]), i + 2
  if k == 1:
    return ("float", toks[i + 1]), i + 2
  if k == 2:
    return ("str", toks[i + 1]), i + 2
  if k == 3:
    return ("bytes", toks[i + 1]), i + 2
  if k == 4:
    return ("bool", toks[i + 1] == 1), i + 2
  if k == 5:
    return ("none",), i + 1
  n = toks[i + 1]
  j = i + 2
  xs = []
  for _ in range(n if k != 9 else 2 * n):
    v, j = dec_value(toks, j)
    xs.append(v)
  if k == 6:
    return ("list", tuple(xs)), j
  if k == 7:
    return ("tuple", tuple(xs)), j
  if k == 8:
    return ("set", frozenset(xs)), j
  return ("dict", tuple(zip(xs[:n], xs[n:]))), j
