"""C01 helper: end-to-end differential over the property's full fragment (SEARCH, not proof).

 * generator of loop-free programs with classes (single / multiple inheritance), methods, instance attributes
   set in __init__ and elsewhere, lambdas, closures, comprehensions over literals, subscripts, builtin calls,
   try/except, isinstance / None tests, conditional and boolean expressions (no imports: typeshed is absent)
 * gadgets woven into a fraction of the programs: truthiness of user classes, permuted call arguments, cooperative
   super() diamonds (methods and __init__), instance attributes re-assigned from outside the class
 * CPython execution recording every module-level name, the instance attributes of those values, and the result
   of every module-level call statement `r = f(...)`
 * a parser of the emitted .pyi and a run-time membership oracle over the PRINTED types that only reports
   definite exclusions (True / False / None = cannot decide)
 * a statement-deleting minimiser
"""
import ast
import re
import time

import c01_l0 as L0


# ---------------------------------------------------------------------------------------
# generator

INT_LITS = ["0", "1", "2", "7", "12", "100", "-1", "-5"]
STR_LITS = ["''", "'a'", "'b'", "'12'", "'xyz'"]
FLOAT_LITS = ["0.0", "1.5", "2.0"]
KINDS = ["int", "float", "str", "bool", "none", "list", "tuple", "dict", "set"]
BUILTIN_T = ["int", "str", "float", "bool", "list", "tuple", "dict", "set", "bytes"]


class Gen:
  def __init__(self, r):
    self.r = r
    self.names = {}       # module-level name -> kind
    self.funcs = []       # (name, nparams)
    self.lams = []        # (name, nparams)
    self.classes = []     # dict(name, bases, init_params, attrs {name: kind}, methods [(name, nparams)])
    self.objs = {}        # name -> class dict
    self.calls = []       # (result name, 'func', fname) | (result name, 'method', obj name, method name)
    self.n = 0
    self.lines = []

  def fresh(self, p="v"):
    self.n += 1
    return "%s%d" % (p, self.n)

  # -- expressions ----------------------------------------------------------------------
  def names_of(self, env, kinds):
    return [n for n, k in env.items() if k in kinds]

  def lit(self, kind):
    r = self.r
    if kind == "int":
      return r.choice(INT_LITS)
    if kind == "float":
      return r.choice(FLOAT_LITS)
    if kind == "str":
      return r.choice(STR_LITS)
    if kind == "bool":
      return r.choice(["True", "False"])
    if kind == "none":
      return "None"
    if kind == "list":
      return r.choice(["[]", "[1, 2]", "['a']", "[1, 'a']", "[None]", "[1.5, 2]", "[[1], []]"])
    if kind == "tuple":
      return r.choice(["()", "(1,)", "(1, 'a')", "('a', 'b', 2.0)", "((1, 2), 'c')"])
    if kind == "dict":
      return r.choice(["{}", "{'a': 1}", "{'a': 1, 'b': 'x'}", "{1: 'a'}", "{'k': [1]}"])
    if kind == "set":
      return r.choice(["{1}", "{1, 2}", "{'a'}", "{1, 'a'}"])
    return "None"

  def expr(self, env, kind, depth=2):
    """an expression that (very likely) evaluates to a value of `kind`; env: name -> kind"""
    r = self.r
    ns = self.names_of(env, [kind])
    k = r.random()
    if depth <= 0 or k < 0.25:
      if ns and r.random() < 0.6:
        return r.choice(ns)
      return self.lit(kind)
    d = depth - 1
    if k < 0.35:
      return "(%s if %s else %s)" % (self.expr(env, kind, d), self.cond(env, d), self.expr(env, kind, d))
    if kind == "int":
      c = r.randrange(9)
      if c == 0:
        return "len(%s)" % self.expr(env, r.choice(["list", "str", "tuple", "dict"]), d)
      if c == 1:
        return "int(%s)" % r.choice(["'12'", "'7'", "3.5", "True", self.expr(env, "int", d)])
      if c == 2:
        return "abs(%s)" % self.expr(env, "int", d)
      if c == 3:
        return "%s(%s, %s)" % (r.choice(["max", "min"]), self.expr(env, "int", d), self.expr(env, "int", d))
      if c == 4:
        return "sum(%s)" % (r.choice(["[1, 2, 3]", "(1, 2)", "[x for x in (1, 2)]", "[1.5, 2]"])
                            if r.random() < 0.95 else "[]")
      if c == 5:
        return "(%s %s %s)" % (self.expr(env, "int", d), r.choice(["+", "-", "*"]), self.expr(env, "int", d))
      if c == 6:
        return "%s[%s]" % (r.choice(["[1, 2, 3]", "(4, 5)", "[7]"]), r.choice(["0", "-1"]))
      if c == 7:
        return "{'a': 1, 'b': 2}[%s]" % r.choice(["'a'", "'b'"])
      return self.lit("int")
    if kind == "float":
      c = r.randrange(4)
      if c == 0:
        return "float(%s)" % r.choice([self.expr(env, "int", d), "'2.5'", "True"])
      if c == 1:
        return "(%s + %s)" % (self.expr(env, "float", d), self.expr(env, r.choice(["int", "float"]), d))
      if c == 2:
        return "(%s / 2)" % self.expr(env, "int", d)
      return "abs(%s)" % self.expr(env, "float", d)
    if kind == "str":
      c = r.randrange(7)
      if c == 0:
        return "str(%s)" % self.anyexpr(env, d)
      if c == 1:
        return "(%s + %s)" % (self.expr(env, "str", d), self.expr(env, "str", d))
      if c == 2:
        return "%s.%s()" % (self.expr(env, "str", d), r.choice(["upper", "lower", "strip"]))
      if c == 3:
        return "', '.join(%s)" % r.choice(["['a', 'b']", "[]", "('x',)", "[s for s in ('p', 'q')]"])
      if c == 4:
        return "repr(%s)" % self.anyexpr(env, d)
      if c == 5:
        return "%s[%s]" % (r.choice(["'abc'", "['a', 'b']", "('x', 'y')"]), r.choice(["0", "1", "-1"]))
      return "{'k': 'v'}['k']"
    if kind == "bool":
      return self.cond(env, d, value=True)
    if kind == "list":
      c = r.randrange(8)
      if c == 0:
        return "[%s]" % ", ".join(self.anyexpr(env, d) for _ in range(r.randint(0, 3)))
      if c == 1:
        return "list(%s)" % self.expr(env, r.choice(["tuple", "list", "str", "set"]), d)
      if c == 2:
        return "sorted(%s)" % r.choice(["[3, 1, 2]", "(2, 1)", "['b', 'a']", "{3, 1}", "[]"])
      if c == 3:
        return "[%s for x in %s]" % (r.choice(["x", "(x, 1)", "str(x)", "[x]", "x + 1", "None"]),
                                      r.choice(["(1, 2)", "[3]", "[1, 2, 3]"]))
      if c == 4:
        return "[x for x in %s if %s]" % (r.choice(["(1, 0, 2)", "[0]", "(1, 2)"]), r.choice(["x", "x > 0", "not x"]))
      if c == 5:
        return "(%s + %s)" % (self.expr(env, "list", d), self.expr(env, "list", d))
      if c == 6:
        return "[%s, %s][%s:]" % (self.anyexpr(env, d), self.anyexpr(env, d), r.choice(["0", "1"]))
      return self.lit("list")
    if kind == "tuple":
      c = r.randrange(4)
      if c == 0:
        xs = [self.anyexpr(env, d) for _ in range(r.randint(0, 3))]
        return "(%s,)" % xs[0] if len(xs) == 1 else "(%s)" % ", ".join(xs)
      if c == 1:
        return "tuple(%s)" % self.expr(env, r.choice(["list", "tuple"]), d)
      if c == 2:
        return "(%s + %s)" % (self.expr(env, "tuple", d), self.expr(env, "tuple", d))
      return self.lit("tuple")
    if kind == "dict":
      c = r.randrange(5)
      if c == 0:
        return "{%s}" % ", ".join("%s: %s" % (self.expr(env, r.choice(["str", "int"]), 0), self.anyexpr(env, d))
                                  for _ in range(r.randint(0, 2)))
      if c == 1:
        return "{k: %s for k in %s}" % (r.choice(["1", "k", "str(k)", "[k]", "None"]),
                                         r.choice(["('a', 'b')", "(1, 2)", "['x']"]))
      if c == 2:
        return "dict(%s)" % r.choice(["a=1", "a=1, b='x'", "", "[('k', 1)]"])
      return self.lit("dict")
    if kind == "set":
      c = r.randrange(4)
      if c == 0:
        return "{%s}" % ", ".join(self.expr(env, r.choice(["int", "str"]), 0) for _ in range(r.randint(1, 3)))
      if c == 1:
        return "{%s for x in %s}" % (r.choice(["x", "str(x)", "x * 2"]), r.choice(["(1, 2)", "[1, 1]"]))
      if c == 2:
        return "set(%s)" % self.expr(env, r.choice(["list", "tuple"]), 0)
      return self.lit("set")
    return "None"

  def anyexpr(self, env, depth=2):
    r = self.r
    k = r.random()
    if k < 0.12 and env:
      return r.choice(sorted(env))
    if k < 0.2 and depth > 0:
      return "(%s %s %s)" % (self.anyexpr(env, depth - 1), r.choice(["or", "and"]), self.anyexpr(env, depth - 1))
    if k < 0.28 and depth > 0:
      return "(%s if %s else %s)" % (self.anyexpr(env, depth - 1), self.cond(env, depth - 1),
                                     self.anyexpr(env, depth - 1))
    if k < 0.36 and depth > 0:
      c = self.callexpr(env, depth - 1)
      if c:
        return c[0]
    if k < 0.42 and self.objs and env is self.names:
      o = r.choice(sorted(self.objs))
      attrs = sorted(self.objs[o]["attrs"])
      if attrs:
        return "%s.%s" % (o, r.choice(attrs))
    return self.expr(env, r.choice(KINDS), depth)

  def cond(self, env, depth=1, value=False):
    r = self.r
    k = r.random()
    ns = sorted(env)
    if (depth <= 0 or k < 0.3) and ns and not value:
      return r.choice(ns)
    if k < 0.45 and ns:
      return "(%s is %sNone)" % (r.choice(ns), r.choice(["", "not "]))
    if k < 0.62 and ns:
      return "isinstance(%s, %s)" % (r.choice(ns), r.choice(BUILTIN_T + [c["name"] for c in self.classes]))
    if k < 0.7:
      return "(not %s)" % (self.cond(env, depth - 1) if depth > 0 else self.anyexpr(env, 0))
    if k < 0.8:
      return "(%s %s %s)" % (self.expr(env, "int", 1), r.choice(["==", "<", ">=", "!="]), self.expr(env, "int", 1))
    if k < 0.86:
      return "(%s in %s)" % (self.expr(env, r.choice(["int", "str"]), 0), self.expr(env, r.choice(["list", "tuple", "dict", "set"]), 1))
    if k < 0.92:
      return "bool(%s)" % self.anyexpr(env, depth - 1)
    if depth > 0:
      return "(%s %s %s)" % (self.cond(env, depth - 1), r.choice(["and", "or"]), self.cond(env, depth - 1))
    return r.choice(["True", "False"])

  def callexpr(self, env, depth):
    """(source, record) of a call of a user function / lambda / constructor / method, or None"""
    r = self.r
    cands = []
    if self.funcs:
      cands.append("func")
    if self.lams:
      cands.append("lam")
    if self.objs and env is self.names:
      cands.append("method")
    if not cands:
      return None
    c = r.choice(cands)
    if c == "func":
      f, n = r.choice(self.funcs)
      return "%s(%s)" % (f, ", ".join(self.anyexpr(env, depth) for _ in range(n))), ("func", f)
    if c == "lam":
      f, n = r.choice(self.lams)
      return "%s(%s)" % (f, ", ".join(self.anyexpr(env, depth) for _ in range(n))), ("func", f)
    o = r.choice(sorted(self.objs))
    ms = self.objs[o]["all_methods"]
    if not ms:
      return None
    m, n = r.choice(ms)
    return "%s.%s(%s)" % (o, m, ", ".join(self.anyexpr(env, depth) for _ in range(n))), ("method", o, m)

  # -- statements -----------------------------------------------------------------------
  def body(self, env, ind, n, ret=False, selfcls=None, depth=0):
    """statements of a function / method body (env: local names -> kind, copied)"""
    r = self.r
    out = []
    env = dict(env)
    for _ in range(n):
      k = r.random()
      if k < 0.45:
        x = self.fresh("t")
        kind = r.choice(KINDS + ["mixed"])
        e = self.anyexpr(env, 2) if kind == "mixed" else self.expr(env, kind, 2)
        out.append("%s%s = %s" % (ind, x, e))
        env[x] = kind
      elif k < 0.6 and selfcls is not None:
        a = r.choice(["x", "y", "z", "w"])
        out.append("%sself.%s = %s" % (ind, a, self.anyexpr(env, 1)))
        selfcls["attrs"].setdefault(a, "mixed")
      elif k < 0.8 and depth < 2:
        out.append("%sif %s:" % (ind, self.cond(env, 1)))
        out.extend(self.body(env, ind + "  ", r.randint(1, 2), ret, selfcls, depth + 1))
        if r.random() < 0.5:
          out.append("%selse:" % ind)
          out.extend(self.body(env, ind + "  ", r.randint(1, 2), ret, selfcls, depth + 1))
      elif k < 0.9 and ret:
        out.append("%sreturn %s" % (ind, self.anyexpr(env, 2)))
        return out
      else:
        out.extend(self.tryblock(env, ind, lambda e2, i2: ["%s%s = %s" % (i2, "q%d" % self.n, self.anyexpr(e2, 1))]))
    if ret and r.random() < 0.85:
      out.append("%sreturn %s" % (ind, self.anyexpr(env, 2)))
    if not out:
      out.append(ind + "pass")
    return out

  RISKY = ["int('x')", "[][0]", "{}['k']", "(1 / 0)", "(1, 2)[5]", "int('3')", "[1][0]", "{'k': 1}['k']",
           "None.foo", "'a' + 1", "len(5)"]
  EXC = ["ValueError", "IndexError", "KeyError", "ZeroDivisionError", "Exception", "(TypeError, AttributeError)",
         "LookupError"]

  def tryblock(self, env, ind, _unused):
    r = self.r
    x = self.fresh("e")
    out = ["%stry:" % ind, "%s  %s = %s" % (ind, x, r.choice(self.RISKY))]
    if r.random() < 0.4:
      out.append("%s  %s = %s" % (ind, x, self.anyexpr(env, 1)))
    out.append("%sexcept %s:" % (ind, "Exception" if r.random() < 0.5 else r.choice(self.EXC)))
    out.append("%s  %s = %s" % (ind, x, self.anyexpr(env, 1)))
    if r.random() < 0.3:
      out.append("%sexcept Exception:" % ind)
      out.append("%s  %s = %s" % (ind, x, self.lit(r.choice(KINDS))))
    if r.random() < 0.2:
      out.append("%sfinally:" % ind)
      out.append("%s  %s = %s" % (ind, self.fresh("f"), self.lit(r.choice(KINDS))))
    env[x] = "mixed"
    return out

  def gen_func(self):
    r = self.r
    f = self.fresh("f")
    n = r.randint(0, 3)
    ps = ["p%d" % i for i in range(n)]
    defaults = ""
    if n and r.random() < 0.25:
      ps[-1] = ps[-1] + "=" + self.lit(r.choice(KINDS))
    self.lines.append("def %s(%s):" % (f, ", ".join(ps)))
    env = {("p%d" % i): "mixed" for i in range(n)}
    self.lines.extend(self.body(env, "  ", r.randint(1, 4), ret=True))
    self.funcs.append((f, n))

  def gen_closure(self):
    r = self.r
    f = self.fresh("mk")
    self.lines.append("def %s(p0):" % f)
    self.lines.append("  c0 = %s" % self.anyexpr({"p0": "mixed"}, 1))
    self.lines.append("  def inner(q0):")
    self.lines.extend(self.body({"p0": "mixed", "c0": "mixed", "q0": "mixed"}, "    ", r.randint(1, 2), ret=True))
    self.lines.append("  return inner")
    g = self.fresh("g")
    self.lines.append("%s = %s(%s)" % (g, f, self.anyexpr(self.names, 1)))
    self.lams.append((g, 1))

  def gen_lambda(self):
    r = self.r
    g = self.fresh("lam")
    n = r.randint(0, 2)
    ps = ["a%d" % i for i in range(n)]
    env = {p: "mixed" for p in ps}
    self.lines.append("%s = lambda %s: %s" % (g, ", ".join(ps), self.anyexpr(env, 2)))
    self.lams.append((g, n))

  def gen_class(self):
    r = self.r
    name = "C%d" % len(self.classes)
    bases = []
    if self.classes and r.random() < 0.65:
      k = 1 if r.random() < 0.6 else min(2, len(self.classes))
      bases = sorted(r.sample(self.classes, k), key=lambda c: -int(c["name"][1:]))
    cls = {"name": name, "bases": [b["name"] for b in bases], "attrs": {}, "methods": [], "init_n": None}
    for b in bases:
      cls["attrs"].update(b["attrs"])
    self.lines.append("class %s%s:" % (name, "(%s)" % ", ".join(cls["bases"]) if bases else ""))
    wrote = False
    for _ in range(r.randint(0, 2)):
      a = r.choice(["ca", "cb", "cc"])
      kind = r.choice(KINDS)
      self.lines.append("  %s = %s" % (a, self.expr({}, kind, 1)))
      cls["attrs"][a] = kind
      wrote = True
    if r.random() < 0.75 or not bases:
      n = r.randint(0, 2)
      ps = ["p%d" % i for i in range(n)]
      self.lines.append("  def __init__(self%s):" % "".join(", " + p for p in ps))
      env = {p: "mixed" for p in ps}
      if bases and bases[0]["init_n"] is not None and r.random() < 0.6:
        self.lines.append("    super().__init__(%s)" % ", ".join(self.anyexpr(env, 1) for _ in range(bases[0]["init_n"])))
      for a in r.sample(["x", "y", "z"], r.randint(1, 3)):
        if r.random() < 0.3:
          self.lines.append("    if %s:" % self.cond(env, 1))
          self.lines.append("      self.%s = %s" % (a, self.anyexpr(env, 1)))
          if r.random() < 0.7:
            self.lines.append("    else:")
            self.lines.append("      self.%s = %s" % (a, self.anyexpr(env, 1)))
        else:
          self.lines.append("    self.%s = %s" % (a, self.anyexpr(env, 1)))
        cls["attrs"][a] = "mixed"
      cls["init_n"] = n
      wrote = True
    else:
      cls["init_n"] = bases[0]["init_n"]
    for _ in range(r.randint(0, 2)):
      m = r.choice(["m0", "m1", "m2"])
      n = r.randint(0, 2)
      ps = ["p%d" % i for i in range(n)]
      self.lines.append("  def %s(self%s):" % (m, "".join(", " + p for p in ps)))
      env = {p: "mixed" for p in ps}
      for a in sorted(cls["attrs"]):
        if r.random() < 0.5:
          env["self." + a] = cls["attrs"][a]
      self.lines.extend(self.body(env, "    ", r.randint(1, 3), ret=True, selfcls=cls))
      cls["methods"] = [x for x in cls["methods"] if x[0] != m] + [(m, n)]
      wrote = True
    if not wrote:
      self.lines.append("  pass")
    allm = {}
    for b in reversed(bases):
      for mm in b["all_methods"]:
        allm[mm[0]] = mm
    for mm in cls["methods"]:
      allm[mm[0]] = mm
    cls["all_methods"] = sorted(allm.values())
    self.classes.append(cls)

  def program(self, n_stmts):
    r = self.r
    depth_budget = n_stmts
    while depth_budget > 0:
      depth_budget -= 1
      k = r.random()
      if k < 0.10:
        self.gen_func()
      elif k < 0.16:
        self.gen_class()
      elif k < 0.20:
        self.gen_lambda()
      elif k < 0.23:
        self.gen_closure()
      elif k < 0.31 and self.classes:
        c = r.choice(self.classes)
        if c["init_n"] is None:
          continue
        o = self.fresh("o")
        self.lines.append("%s = %s(%s)" % (o, c["name"], ", ".join(self.anyexpr(self.names, 1) for _ in range(c["init_n"]))))
        self.objs[o] = c
      elif k < 0.45:
        c = self.callexpr(self.names, 2)
        if c:
          x = self.fresh("r")
          self.lines.append("%s = %s" % (x, c[0]))
          self.names[x] = "mixed"
          self.calls.append((x,) + c[1])
      elif k < 0.50 and self.objs:
        o = r.choice(sorted(self.objs))
        a = r.choice(["x", "y", "z", "w"])
        self.lines.append("%s.%s = %s" % (o, a, self.anyexpr(self.names, 1)))
        self.objs[o]["attrs"].setdefault(a, "mixed")
      elif k < 0.60:
        vs = [n for n in sorted(self.names) if n.startswith("v")]     # call results r<N> are never reassigned
        x = self.fresh("v") if r.random() < 0.7 or not vs else r.choice(vs)
        self.lines.append("if %s:" % self.cond(self.names, 1))
        self.lines.append("  %s = %s" % (x, self.anyexpr(self.names, 2)))
        if r.random() < 0.3:
          self.lines.append("elif %s:" % self.cond(self.names, 1))
          self.lines.append("  %s = %s" % (x, self.anyexpr(self.names, 2)))
        self.lines.append("else:")
        self.lines.append("  %s = %s" % (x, self.anyexpr(self.names, 2)))
        self.names[x] = "mixed"
        self.objs.pop(x, None)
      elif k < 0.66:
        env = self.names
        self.lines.extend(self.tryblock(env, "", None))
      else:
        vs = [n for n in sorted(self.names) if n.startswith("v")]
        x = self.fresh("v") if r.random() < 0.8 or not vs else r.choice(vs)
        kind = r.choice(KINDS + ["mixed", "mixed"])
        e = self.anyexpr(self.names, 2) if kind == "mixed" else self.expr(self.names, kind, 2)
        self.lines.append("%s = %s" % (x, e))
        self.names[x] = kind
        self.objs.pop(x, None)
    return "\n".join(self.lines) + "\n"


# -- gadgets: constructs with a dedicated oracle-relevant bug class, woven into the generated program --------------
# They draw from their own random stream (derived from the generator state without consuming it) and only add
# self-contained top-level statements, so the base program of a given seed stays what it was.

GADGET_LITS = ["1", "'x'", "2.5", "None", "b'z'", "True", "(3,)", "[4]", "{'k': 5}", "{6}"]


class Gadgets:
  def __init__(self, r2):
    self.r = r2
    self.n = 0
    self.head = []         # definitions, placed at the top of the module
    self.stmts = []        # statements, inserted at random top-level positions (order preserved)
    self.calls = []

  def fresh(self, p):
    self.n += 1
    return "%s%d" % (p, self.n)

  def two_lits(self):
    a = self.r.choice(GADGET_LITS)
    b = self.r.choice([x for x in GADGET_LITS if x != a])
    return a, b

  # (a) truthiness of user classes: __bool__/__len__ on the class, the first base, the SECOND base, through a
  #     diamond, absent (always truthy), and subclasses of builtins (empty vs non-empty)
  def truthiness(self):
    r = self.r
    t = self.fresh("T")
    falsy = r.random() < 0.6
    dunder = r.choice(["__len__", "__bool__"])
    ret = ("0" if falsy else "1") if dunder == "__len__" else ("False" if falsy else "True")
    carrier = ["class %sS:" % t, "  def %s(self):" % dunder, "    return %s" % ret]
    plain = ["class %sN:" % t, "  def name(self):", "    return 'n'"]
    shape = r.choice(["own", "first", "second", "second", "diamond", "diamond", "none", "list", "dict"])
    ctor = "%s()" % t
    if shape == "own":
      self.head += ["class %s:" % t, "  def %s(self):" % dunder, "    return %s" % ret]
    elif shape == "first":
      self.head += carrier + plain + ["class %s(%sS, %sN):" % (t, t, t), "  pass"]
    elif shape == "second":
      self.head += carrier + plain + ["class %s(%sN, %sS):" % (t, t, t), "  pass"]
    elif shape == "diamond":
      self.head += ["class %sB:" % t, "  pass", "class %sL(%sB):" % (t, t), "  pass",
                    "class %sR(%sB):" % (t, t), "  def %s(self):" % dunder, "    return %s" % ret,
                    "class %s(%sL, %sR):" % (t, t, t), "  pass"]
    elif shape == "none":
      self.head += ["class %s:" % t, "  pass"]
    elif shape == "list":
      self.head += ["class %s(list):" % t, "  pass"]
      ctor = r.choice(["%s()" % t, "%s([1])" % t])
    else:
      self.head += ["class %s(dict):" % t, "  pass"]
      ctor = r.choice(["%s()" % t, "%s(a=1)" % t])
    for _ in range(r.randint(2, 4)):
      x = self.fresh("tv")
      a, b = self.two_lits()
      obj = ctor
      if r.random() < 0.4:
        o = self.fresh("to")
        self.stmts.append("%s = %s" % (o, ctor))
        obj = o
      c = r.randrange(7)
      if c == 0:
        self.stmts.append("%s = %s or %s" % (x, obj, a))
      elif c == 1:
        self.stmts.append("%s = %s and %s" % (x, obj, a))
      elif c == 2:
        self.stmts.append("if %s:\n  %s = %s\nelse:\n  %s = %s" % (obj, x, a, x, b))
      elif c == 3:
        self.stmts.append("%s = %s if %s else %s" % (x, a, obj, b))
      elif c == 4:
        self.stmts.append("%s = %s if not %s else %s" % (x, a, obj, b))
      elif c == 5:
        f = self.fresh("tf")
        self.head += ["def %s(x, y):" % f, "  return x %s y" % r.choice(["or", "and"])]
        self.stmts.append("%s = %s(%s, %s)" % (x, f, obj, a))
        self.calls.append((x, "func", f))
      else:
        self.stmts.append("if not %s:\n  %s = %s\nelif %s:\n  %s = %s\nelse:\n  %s = None" % (obj, x, a, obj, x, b, x))

  # (b) repeated calls of one function / method on a straight-line path with arguments that are equal as
  #     multisets but differ in order or nesting; the result depends on the position
  def permuted_calls(self):
    r = self.r
    f = self.fresh("sel")
    kind = r.choice(["tuple", "tuple", "list", "dict", "kw", "default", "method", "nested", "unpack"])
    k = r.choice([2, 2, 3])
    lits = r.sample(GADGET_LITS[:6], k)
    perms = [list(lits), list(reversed(lits))]
    if k == 3:
      perms.append([lits[1], lits[0], lits[2]])
    pick = r.choice(["[0]", "[-1]", "[1]"])
    def emit(callsrc, rec):
      x = self.fresh("tr")
      self.stmts.append("%s = %s" % (x, callsrc))
      self.calls.append((x,) + rec)
    if kind in ("tuple", "list"):
      self.head += ["def %s(t):" % f, "  return t%s" % pick]
      for q in perms:
        lit = "(%s)" % ", ".join(q) if kind == "tuple" else "[%s]" % ", ".join(q)
        emit("%s(%s)" % (f, lit), ("func", f))
    elif kind == "unpack":
      names = ["a%d" % i for i in range(k)]
      self.head += ["def %s(t):" % f, "  %s = t" % ", ".join(names), "  return %s" % r.choice(names)]
      for q in perms:
        emit("%s((%s))" % (f, ", ".join(q)), ("func", f))
    elif kind == "nested":
      self.head += ["def %s(t):" % f, "  return t[0]"]
      a, b = lits[0], lits[1]
      for lit in ("((%s,), %s)" % (a, b), "(%s, (%s,))" % (b, a), "((%s,), %s)" % (b, a)):
        emit("%s(%s)" % (f, lit), ("func", f))
    elif kind == "dict":
      self.head += ["def %s(d):" % f, "  return d['p']"]
      a, b = lits[0], lits[1]
      for lit in ("{'p': %s, 'q': %s}" % (a, b), "{'q': %s, 'p': %s}" % (a, b), "{'p': %s, 'q': %s}" % (b, a)):
        emit("%s(%s)" % (f, lit), ("func", f))
    elif kind == "kw":
      self.head += ["def %s(a, b):" % f, "  return a"]
      a, b = lits[0], lits[1]
      for args in ("a=%s, b=%s" % (a, b), "b=%s, a=%s" % (a, b), "%s, %s" % (b, a)):
        emit("%s(%s)" % (f, args), ("func", f))
    elif kind == "default":
      a, b = lits[0], lits[1]
      self.head += ["def %s(t=(%s, %s)):" % (f, a, b), "  return t%s" % r.choice(["[0]", "[-1]"])]
      for args in ("", "(%s, %s)" % (b, a), "(%s, %s)" % (a, b)):
        emit("%s(%s)" % (f, args), ("func", f))
    else:
      c = self.fresh("P")
      o = self.fresh("tp")
      self.head += ["class %s:" % c, "  def pick(self, pair):", "    return pair%s" % pick]
      self.stmts.append("%s = %s()" % (o, c))
      for q in perms:
        emit("%s.pick((%s))" % (o, ", ".join(q)), ("method", o, "pick"))


  def disjoint_lits(self):
    """two literals neither of whose printed types admits the other's value (int/bool/float promote)"""
    num = ("1", "True", "2.5")
    while True:
      a, b = self.two_lits()
      if not (a in num and b in num):
        return a, b

  # (c) cooperative super() in a diamond: B(A) delegates to super(), which for an instance of D(B, C) is the SIBLING
  #     C (next in type(self).__mro__), not B's own base A; A and C disagree on the type.  Ordinary methods and
  #     __init__ (instance attribute).  Only module-level names and instance attributes are checked here: the
  #     printed return type of B.m is inferred for self: B and is not recorded as a call (see corpus/C01/proposed).
  def super_diamond(self, init=None):
    r = self.r
    s = self.fresh("S")
    ca, cb, cc, cd = (s + x for x in "ABCD")
    a, b = self.disjoint_lits()
    init = (r.random() < 0.5) if init is None else init
    n = r.randint(0, 2)
    ps = ["p%d" % i for i in range(n)]
    sig = "".join(", " + p for p in ps)
    fwd = ", ".join(ps)
    sup = r.choice(["super()", "super()", "super()", "super(%s, self)" % cb])
    bases = "%s, %s" % ((cb, cc) if r.random() < 0.85 else (cc, cb))
    def args():
      return ", ".join(r.choice(GADGET_LITS) for _ in range(n))
    h = self.head
    leaf = cd
    if init:
      x = r.choice(["x", "v", "val"])
      h += ["class %s:" % ca, "  def __init__(self%s):" % sig, "    self.%s = %s" % (x, a)]
      getter = r.random() < 0.4
      if getter:
        h += ["  def get(self):", "    return self.%s" % x]
      h += ["class %s(%s):" % (cb, ca), "  def __init__(self%s):" % sig, "    %s.__init__(%s)" % (sup, fwd)]
      if r.random() < 0.5:
        h += ["    self.y = %s" % (r.choice(ps) if ps and r.random() < 0.5 else r.choice(GADGET_LITS))]
      h += ["class %s(%s):" % (cc, ca), "  def __init__(self%s):" % sig]
      if r.random() < 0.4:
        h += ["    super().__init__(%s)" % fwd]
      h += ["    self.%s = %s" % (x, b)]
      h += ["class %s(%s):" % (cd, bases)]
      if r.random() < 0.3:
        h += ["  def __init__(self%s):" % sig, "    super().__init__(%s)" % fwd, "    self.z = %s" % r.choice(GADGET_LITS)]
      else:
        h += ["  pass"]
      if r.random() < 0.25:
        leaf = s + "E"
        h += ["class %s(%s):" % (leaf, cd), "  pass"]
      o = self.fresh("so")
      self.stmts.append("%s = %s(%s)" % (o, leaf, args()))
      self.stmts.append("%s = %s.%s" % (self.fresh("sn"), o, x))
      if getter:
        self.stmts.append("%s = %s.get()" % (self.fresh("sr"), o))
      if r.random() < 0.4:
        o2 = self.fresh("so")
        self.stmts.append("%s = %s(%s)" % (o2, cb, args()))
        self.stmts.append("%s = %s.%s" % (self.fresh("sn"), o2, x))
    else:
      m = r.choice(["m", "get", "val"])
      h += ["class %s:" % ca, "  def %s(self%s):" % (m, sig), "    return %s" % a]
      h += ["class %s(%s):" % (cb, ca), "  def %s(self%s):" % (m, sig)]
      call = "%s.%s(%s)" % (sup, m, fwd)
      shape = r.randrange(4)
      if shape == 0:
        h += ["    t = %s" % call, "    return t"]
      elif shape == 1:
        h += ["    return (%s, %s)" % (call, r.choice(GADGET_LITS))]
      else:
        h += ["    return %s" % call]
      h += ["class %s(%s):" % (cc, ca), "  def %s(self%s):" % (m, sig), "    return %s" % b]
      h += ["class %s(%s):" % (cd, bases)]
      if r.random() < 0.3:
        h += ["  def %s(self%s):" % (m, sig), "    return super().%s(%s)" % (m, fwd)]
      else:
        h += ["  pass"]
      if r.random() < 0.25:
        leaf = s + "E"
        h += ["class %s(%s):" % (leaf, cd), "  pass"]
      if r.random() < 0.5:
        o = self.fresh("so")
        self.stmts.append("%s = %s()" % (o, leaf))
        self.stmts.append("%s = %s.%s(%s)" % (self.fresh("sr"), o, m, args()))
      else:
        self.stmts.append("%s = %s().%s(%s)" % (self.fresh("sr"), leaf, m, args()))
      if r.random() < 0.4:
        self.stmts.append("%s = %s().%s(%s)" % (self.fresh("sr"), cb, m, args()))

  # (d) instance attributes re-assigned from OUTSIDE the class on module-level instances (unconditionally, in one
  #     branch, in both branches of an `if` on a module-level name), then read (`n = o.a`) and returned by a method
  #     (`r = o.m()`).  The attribute is always set by __init__ and has no class-level default (a store in one
  #     branch shadowing a class-level default on every path is an unlisted pytype defect, corpus/C01/proposed).
  OPAQUE_CONDS = ["int('1')", "int('0')", "len([1])", "len('')", "'a'.upper()", "''.strip()", "abs(-1)"]

  def outside_store(self):
    r = self.r
    k = self.fresh("K")
    a, b = self.disjoint_lits()
    x = r.choice(["a", "b", "t"])
    n = r.randint(0, 2)
    ps = ["p%d" % i for i in range(n)]
    sig = "".join(", " + p for p in ps)
    h = self.head
    from_param = n > 0 and r.random() < 0.3
    h += ["class %s:" % k, "  def __init__(self%s):" % sig, "    self.%s = %s" % (x, "p0" if from_param else a)]
    if r.random() < 0.3:
      h += ["    self.u = %s" % r.choice(GADGET_LITS)]
    setter = r.random() < 0.3
    if setter:
      h += ["  def fill(self):", "    self.%s = %s" % (x, r.choice(GADGET_LITS))]
    h += ["  def m(self):", "    return self.%s" % x]
    cls = k
    if r.random() < 0.3:
      cls = k + "Q"
      h += ["class %s(%s):" % (cls, k), "  pass"]
    def args():
      xs = [r.choice(GADGET_LITS) for _ in range(n)]
      if from_param:
        xs[0] = a
      return ", ".join(xs)
    o = self.fresh("ko")
    self.stmts.append("%s = %s(%s)" % (o, cls, args()))
    o2 = None
    if r.random() < 0.4:
      o2 = self.fresh("ko")
      self.stmts.append("%s = %s(%s)" % (o2, cls, args()))
    if setter and r.random() < 0.5:
      self.stmts.append("%s.fill()" % o)
    shape = r.randrange(4)
    if shape == 0:
      self.stmts.append("%s.%s = %s" % (o, x, b))
    else:
      c = self.fresh("kc")
      self.stmts.append("%s = %s" % (c, r.choice(self.OPAQUE_CONDS)))
      test = c if r.random() < 0.7 else "not %s" % c
      if shape == 1:
        b2 = r.choice([y for y in GADGET_LITS if y != b])
        self.stmts.append("if %s:\n  %s.%s = %s\nelse:\n  %s.%s = %s" % (test, o, x, b, o, x, b2))
      else:
        self.stmts.append("if %s:\n  %s.%s = %s" % (test, o, x, b))
    self.stmts.append("%s = %s.%s" % (self.fresh("kn"), o, x))
    rr = self.fresh("kr")
    self.stmts.append("%s = %s.m()" % (rr, o))
    if r.random() < 0.05:
      # the printed return type of m is the known finding method-return:attribute-redefined-outside-defining-class
      self.calls.append((rr, "method", o, "m"))
    if o2 is not None:
      self.stmts.append("%s = %s.%s" % (self.fresh("kn"), o2, x))
      self.stmts.append("%s = %s.m()" % (self.fresh("kr"), o2))


  # (e) closure factories: one def/lambda that returns a closure over its parameter, called several times with
  #     captured values of DIFFERENT types; the closures are then called with IDENTICAL arguments (so that anything
  #     shared between them - the function object, its call cache - would answer for the wrong capture) and the
  #     results are bound to module-level names.  Nested def, lambda in lambda, closure stored first or called at once,
  #     the capture returned bare or inside a display (then read back by a constant subscript).
  def closure_factory(self):
    r = self.r
    f = self.fresh("mk")
    n = r.randint(2, 3)
    lits = []
    while len(lits) < n:
      x = r.choice(GADGET_LITS)
      if all(not (x in ("1", "True", "2.5") and y in ("1", "True", "2.5")) and x != y for y in lits):
        lits.append(x)
    wrap = r.choice(["%s", "%s", "[%s]", "(%s,)", "{'k': %s}"])
    arg = r.choice(["", "", "q"])
    shape = r.randrange(3)
    h = self.head
    if shape == 0:
      h += ["def %s(v):" % f, "  def inner(%s):" % arg, "    return %s" % (wrap % "v"), "  return inner"]
    elif shape == 1:
      h += ["%s = lambda v: (lambda %s: %s)" % (f, arg, wrap % "v")]
    else:
      h += ["def %s(v, w):" % f, "  def inner(%s):" % arg, "    t = v", "    return %s" % (wrap % "t"), "  return inner"]
    a = r.choice(GADGET_LITS) if arg else ""
    stored = []
    for x in lits:
      mkargs = x if shape != 2 else "%s, 0" % x
      if r.random() < 0.5:
        c = self.fresh("cl")
        self.stmts.append("%s = %s(%s)" % (c, f, mkargs))
        stored.append(c)
      else:
        self.stmts.append("%s = %s(%s)(%s)" % (self.fresh("cr"), f, mkargs, a))
    for c in stored:
      rr = self.fresh("cr")
      self.stmts.append("%s = %s(%s)" % (rr, c, a))
      if wrap in ("[%s]", "(%s,)"):
        self.stmts.append("%s = %s[0]" % (self.fresh("ce"), rr))
      elif wrap == "{'k': %s}":
        self.stmts.append("%s = %s['k']" % (self.fresh("ce"), rr))

  # (f) a dict display with constant str keys, one key overwritten with a value of a different type inside a branch
  #     pytype cannot decide (taken or not taken at run time), then read back by a constant-key subscript: the entry
  #     must keep BOTH types (Dict.setitem joins into the per-key variable).  Module level, or inside a method on a
  #     dict-valued instance attribute with the result returned to a module-level name.
  def dict_branch_store(self):
    r = self.r
    a, b = self.disjoint_lits()
    k1, k2 = r.sample(["a", "b", "p", "k"], 2)
    other = r.choice(GADGET_LITS)
    disp = "{'%s': %s, '%s': %s}" % (k1, a, k2, other) if r.random() < 0.7 else "{'%s': %s}" % (k1, a)
    cond = r.choice(self.OPAQUE_CONDS)
    if r.random() < 0.6:
      d = self.fresh("dd")
      c = self.fresh("dc")
      self.stmts.append("%s = %s" % (d, disp))
      self.stmts.append("%s = %s" % (c, cond))
      test = c if r.random() < 0.7 else "not %s" % c
      if r.random() < 0.3:
        self.stmts.append("if %s:\n  %s['%s'] = %s\nelse:\n  %s['%s'] = %s" % (test, d, k1, b, d, k2, b))
      else:
        self.stmts.append("if %s:\n  %s['%s'] = %s" % (test, d, k1, b))
      self.stmts.append("%s = %s['%s']" % (self.fresh("dv"), d, k1))
      if r.random() < 0.4:
        self.stmts.append("%s['%s'] = %s" % (d, k1, r.choice(GADGET_LITS)))     # unconditional overwrite afterwards
        self.stmts.append("%s = %s['%s']" % (self.fresh("dv"), d, k1))
    else:
      k = self.fresh("DK")
      self.head += ["class %s:" % k, "  def __init__(self):", "    self.m = %s" % disp,
                    "  def put(self, flag):", "    if flag:", "      self.m['%s'] = %s" % (k1, b),
                    "    return self.m['%s']" % k1]
      o = self.fresh("do")
      self.stmts.append("%s = %s()" % (o, k))
      self.stmts.append("%s = %s.put(%s)" % (self.fresh("dv"), o, cond))
      self.stmts.append("%s = %s.m['%s']" % (self.fresh("dv"), o, k1))


def weave(src, gad, r2):
  """definitions first, statements at random top-level statement boundaries (relative order kept)"""
  lines = src.rstrip("\n").split("\n")
  cuts = [i for i, l in enumerate(lines) if l and not l[0].isspace()
          and not l.startswith(("else", "elif", "except", "finally"))] + [len(lines)]
  where = sorted(r2.choice(cuts) for _ in gad.stmts)
  out = list(gad.head)
  k = 0
  for i, l in enumerate(lines + [None]):
    while k < len(where) and where[k] == i:
      out.extend(gad.stmts[k].split("\n"))
      k += 1
    if l is not None:
      out.append(l)
  return "\n".join(out) + "\n"


def generate(r, n_stmts):
  import random  # pylint: disable=import-outside-toplevel
  r2 = random.Random("gadgets:%r" % (r.getstate()[1][:6],))     # derived stream; does not consume from r
  g = Gen(r)
  src = g.program(n_stmts)
  gad = Gadgets(r2)
  if r2.random() < 0.45:
    for _ in range(r2.randint(1, 2)):
      gad.truthiness()
  if r2.random() < 0.35:
    for _ in range(r2.randint(1, 2)):
      gad.permuted_calls()
  if r2.random() < 0.33:
    gad.super_diamond()
    if r2.random() < 0.25:
      gad.super_diamond()
  if r2.random() < 0.30:
    gad.outside_store()
    if r2.random() < 0.25:
      gad.outside_store()
  # drawn from a third stream so that the gadgets above stay what they were for a given seed
  r3 = random.Random("gadgets3:%r" % (r2.getstate()[1][:6],))
  gad.r = r3
  if r3.random() < 0.30:
    gad.closure_factory()
    if r3.random() < 0.3:
      gad.closure_factory()
  if r3.random() < 0.30:
    gad.dict_branch_store()
    if r3.random() < 0.3:
      gad.dict_branch_store()
  if gad.head or gad.stmts:
    src = weave(src, gad, r2)
  return src, g.calls + gad.calls


# ---------------------------------------------------------------------------------------
# CPython execution

def run_cpython(src):
  g = {"__name__": "m"}
  try:
    exec(compile(src, "<e2e>", "exec"), g)  # pylint: disable=exec-used
  except BaseException as e:  # pylint: disable=broad-except
    return None, type(e).__name__
  return g, None


# ---------------------------------------------------------------------------------------
# stub parsing

class Stub:
  def __init__(self, pyi):
    self.consts = {}        # name -> ty
    self.funcs = {}         # name -> [return ty]
    self.classes = {}       # name -> dict(bases=[names], attrs={name: ty}, methods={name: [ret ty]})
    self.typevars = set()
    self.aliases = {}
    # pytype can print lines that are not Python (e.g. the hidden comprehension variable `.0: Any`): drop them
    pyi = "\n".join(l for l in pyi.split("\n") if not re.match(r"\s*\.\d+\s*:", l))
    tree = ast.parse(pyi)
    for node in tree.body:
      self._top(node)

  def _top(self, node):
    if isinstance(node, ast.AnnAssign) and isinstance(node.target, ast.Name):
      self.consts[node.target.id] = self._ty(node.annotation)
    elif isinstance(node, ast.Assign) and len(node.targets) == 1 and isinstance(node.targets[0], ast.Name):
      v = node.value
      if isinstance(v, ast.Call) and getattr(v.func, "id", "") == "TypeVar":
        self.typevars.add(node.targets[0].id)
      else:
        self.aliases[node.targets[0].id] = v
    elif isinstance(node, ast.FunctionDef):
      self.funcs.setdefault(node.name, []).append(self._ty(node.returns) if node.returns is not None else ("any",))
    elif isinstance(node, ast.ClassDef):
      c = {"bases": [], "attrs": {}, "methods": {}}
      for b in node.bases:
        c["bases"].append(ast.unparse(b))
      for s in node.body:
        if isinstance(s, ast.AnnAssign) and isinstance(s.target, ast.Name):
          c["attrs"][s.target.id] = self._ty(s.annotation)
        elif isinstance(s, ast.FunctionDef):
          c["methods"].setdefault(s.name, []).append(self._ty(s.returns) if s.returns is not None else ("any",))
      self.classes[node.name] = c

  def _ty(self, node):
    try:
      return L0.parse_type_expr(node)
    except Exception:  # pylint: disable=broad-except
      return ("unknown", ast.unparse(node))

  def mro_names(self, cname, seen=None):
    seen = seen or []
    if cname in seen:
      return seen
    seen.append(cname)
    for b in self.classes.get(cname, {}).get("bases", []):
      self.mro_names(b, seen)
    return seen

  def attr_type(self, cname, attr):
    for c in self.mro_names(cname):
      t = self.classes.get(c, {}).get("attrs", {}).get(attr)
      if t is not None:
        return t
    return None

  def method_rets(self, cname, m):
    for c in self.mro_names(cname):
      t = self.classes.get(c, {}).get("methods", {}).get(m)
      if t is not None:
        return t
    return None


# ---------------------------------------------------------------------------------------
# membership oracle: True / False / None (cannot decide).  Only definite exclusions are violations.

def _all(results):
  results = list(results)
  if any(x is False for x in results):
    return False
  if any(x is None for x in results):
    return None
  return True


BASES = {
    "int": lambda v: isinstance(v, int),
    "float": lambda v: isinstance(v, (int, float)),                 # int -> float promotion
    "complex": lambda v: isinstance(v, (int, float, complex)),     # -> complex promotion
    "str": lambda v: isinstance(v, str),
    "bytes": lambda v: isinstance(v, (bytes, bytearray, memoryview)),
    "bool": lambda v: isinstance(v, bool),
    "None": lambda v: v is None,
    "object": lambda v: True,
    "list": lambda v: isinstance(v, list),
    "tuple": lambda v: isinstance(v, tuple),
    "dict": lambda v: isinstance(v, dict),
    "set": lambda v: isinstance(v, set),
    "frozenset": lambda v: isinstance(v, frozenset),
    "type": lambda v: isinstance(v, type),
    "BaseException": lambda v: isinstance(v, BaseException),
    "Exception": lambda v: isinstance(v, Exception),
}


def admits(t, v, stub, depth=0):
  if depth > 12:
    return None
  k = t[0]
  if k == "any":
    return True
  if k == "nothing":
    return False
  if k == "unknown" or k == "ellipsis" or k == "params":
    return None
  if k == "union":
    rs = [admits(x, v, stub, depth + 1) for x in t[1]]
    if any(x is True for x in rs):
      return True
    if all(x is False for x in rs):
      return False
    return None
  if k == "callable":
    return True if callable(v) else False
  if k == "base":
    n = t[1]
    if n.startswith("typing."):
      n = n[7:]
    if n.startswith("builtins."):
      n = n[9:]
    if n in stub.typevars:
      return None
    if n in BASES:
      return bool(BASES[n](v))
    if n in stub.classes:
      cls = type(v)
      names = [c.__name__ for c in cls.__mro__]
      if getattr(cls, "__module__", "") != "m":
        # a builtin value can never be an instance of a class defined in the module
        return False
      return n in names
    if n in ("Callable",):
      return True if callable(v) else False
    if n in ("Hashable", "Sized", "Iterable", "Iterator", "Sequence", "Mapping", "Collection", "Container"):
      return None
    return None
  if k == "tuple":
    if not isinstance(v, tuple):
      return False
    if len(v) != len(t[1]):
      return False
    return _all(admits(x, y, stub, depth + 1) for x, y in zip(t[1], v))
  if k == "homtuple":
    if not isinstance(v, tuple):
      return False
    return _all(admits(t[1], y, stub, depth + 1) for y in v)
  if k == "gen":
    n = t[1]
    if n.startswith("typing."):
      n = n[7:]
    ps = t[2]
    if n in ("list", "List", "set", "Set", "frozenset", "FrozenSet"):
      py = {"list": list, "List": list, "set": set, "Set": set, "frozenset": frozenset, "FrozenSet": frozenset}[n]
      if not isinstance(v, py):
        return False
      return _all(admits(ps[0], y, stub, depth + 1) for y in v)
    if n in ("dict", "Dict"):
      if not isinstance(v, dict):
        return False
      if len(ps) != 2:
        return None
      return _all([admits(ps[0], y, stub, depth + 1) for y in v.keys()]
                  + [admits(ps[1], y, stub, depth + 1) for y in v.values()])
    if n in ("type", "Type"):
      if not isinstance(v, type):
        return False
      p = ps[0]
      if p[0] == "base" and p[1] in stub.classes:
        return p[1] in [c.__name__ for c in v.__mro__]
      if p[0] == "base" and p[1] in BASES and isinstance(BASES.get(p[1]), type(lambda: 0)):
        return None
      return None
    if n in ("tuple", "Tuple"):
      if not isinstance(v, tuple):
        return False
      return None
    return None
  return None


def render_value(v, depth=0):
  try:
    s = repr(v)
  except Exception:  # pylint: disable=broad-except
    s = "<%s>" % type(v).__name__
  return s[:200]


def check_program(src, calls, pyi):
  """Returns (n_checks, n_trivial, n_undecided, violations) ; violation = dict(kind, where, type, value)"""
  g, err = run_cpython(src)
  if g is None:
    return None
  stub = Stub(pyi)
  viol = []
  stats = {"checks": 0, "trivial": 0, "undecided": 0, "skipped": 0}

  def chk(kind, where, t, v):
    stats["checks"] += 1
    if t == ("any",):
      stats["trivial"] += 1
      return
    r = admits(t, v, stub)
    if r is None:
      stats["undecided"] += 1
    elif r is False:
      viol.append({"kind": kind, "where": where, "type": L0.show_ty(t) if t[0] != "unknown" else t[1],
                   "value": render_value(v), "vtype": type(v).__name__})

  for name, v in sorted(g.items()):
    if name.startswith("__"):
      continue
    t = stub.consts.get(name)
    if t is None:
      stats["skipped"] += 1
    else:
      chk("name", name, t, v)
    # instance attributes
    cls = type(v)
    if getattr(cls, "__module__", "") == "m" and cls.__name__ in stub.classes and hasattr(v, "__dict__"):
      for a, av in sorted(vars(v).items()):
        at = stub.attr_type(cls.__name__, a)
        if at is None:
          stats["skipped"] += 1
        else:
          chk("attr", "%s.%s" % (cls.__name__, a), at, av)
  call_stmts = {}
  for node in ast.parse(src).body:
    if isinstance(node, ast.Assign) and len(node.targets) == 1 and isinstance(node.targets[0], ast.Name) \
        and isinstance(node.value, ast.Call):
      f = node.value.func
      if isinstance(f, ast.Name):
        call_stmts.setdefault(node.targets[0].id, []).append(("func", f.id))
      elif isinstance(f, ast.Attribute) and isinstance(f.value, ast.Name):
        call_stmts.setdefault(node.targets[0].id, []).append(("method", f.value.id, f.attr))
  for c in calls:
    r = c[0]
    if r not in g or call_stmts.get(r) != [tuple(c[1:])]:
      continue
    if c[1] == "func":
      rets = stub.funcs.get(c[2])
      if rets is None:
        continue
      where = "%s()" % c[2]
    else:
      o = g.get(c[2])
      if o is None or type(o).__name__ not in stub.classes:
        continue
      rets = stub.method_rets(type(o).__name__, c[3])
      if rets is None:
        continue
      where = "%s.%s()" % (type(o).__name__, c[3])
    # overloads: the value must be admitted by the union of the return types
    t = L0.mk_union(rets) if len(rets) > 1 else rets[0]
    chk("return", where, t, g[r])
  return stats, viol


# ---------------------------------------------------------------------------------------
# minimiser: delete statements (any nesting level) while the predicate stays true

def _stmt_lists(tree):
  for node in ast.walk(tree):
    for f in ("body", "orelse", "finalbody"):
      b = getattr(node, f, None)
      if isinstance(b, list) and b and isinstance(b[0], ast.stmt):
        yield node, f
    if isinstance(node, ast.Try):
      for h in node.handlers:
        yield h, "body"


class Budget:
  """a budget of predicate evaluations (deterministic, unlike a wall-clock bound) with a generous time cap"""

  def __init__(self, evals, seconds=120.0):
    self.left = evals
    self.deadline = time.time() + seconds

  def spend(self):
    self.left -= 1
    return self.left >= 0 and time.time() < self.deadline

  def ok(self):
    return self.left > 0 and time.time() < self.deadline


def _remove_chunk(src, li, lo, hi):
  """source with statements lo..hi-1 of the li-th statement list removed (None if it cannot be built)"""
  t2 = ast.parse(src)
  lists = list(_stmt_lists(t2))
  if li >= len(lists):
    return None
  node, f = lists[li]
  body = getattr(node, f)
  if hi > len(body) or lo >= hi:
    return None
  del body[lo:hi]
  if not body:
    if f != "body":
      pass
    else:
      body.append(ast.Pass())
  try:
    return ast.unparse(ast.fix_missing_locations(t2)) + "\n"
  except Exception:  # pylint: disable=broad-except
    return None


def _inline_compound(src, li, i):
  """the i-th statement of the li-th list (an if / try) replaced by its own body"""
  t2 = ast.parse(src)
  lists = list(_stmt_lists(t2))
  if li >= len(lists):
    return None
  node, f = lists[li]
  body = getattr(node, f)
  if i >= len(body) or not isinstance(body[i], (ast.If, ast.Try)):
    return None
  body[i:i + 1] = body[i].body
  try:
    return ast.unparse(ast.fix_missing_locations(t2)) + "\n"
  except Exception:  # pylint: disable=broad-except
    return None


def minimise(src, pred, budget):
  """delta debugging over every statement list: remove chunks of decreasing size while `pred` stays true"""
  if not isinstance(budget, Budget):
    budget = Budget(int(budget * 8), budget * 4)

  def attempt(cand):
    if cand is None or not budget.spend():
      return False
    try:
      return bool(pred(cand))
    except Exception:  # pylint: disable=broad-except
      return False

  changed = True
  while changed and budget.ok():
    changed = False
    li = 0
    while budget.ok():
      lists = list(_stmt_lists(ast.parse(src)))
      if li >= len(lists):
        break
      n = len(getattr(*lists[li]))
      size = max(1, n // 2)
      while size >= 1 and budget.ok():
        lo = 0
        progressed = False
        while budget.ok():
          lists = list(_stmt_lists(ast.parse(src)))
          if li >= len(lists):
            break
          n = len(getattr(*lists[li]))
          if lo >= n:
            break
          cand = _remove_chunk(src, li, lo, min(n, lo + size))
          if cand is not None and cand != src and attempt(cand):
            src = cand
            changed = progressed = True
          else:
            if size == 1:
              cand = _inline_compound(src, li, lo)
              if cand is not None and cand != src and attempt(cand):
                src = cand
                changed = progressed = True
                continue
            lo += size
        if size == 1:
          break
        size = size // 2
      li += 1
  return src


class _Repl(ast.NodeTransformer):
  """replaces the k-th expression node (in visiting order) by `new` (an expression source or a child index)"""

  def __init__(self, k, new):
    self.k = k
    self.new = new
    self.i = -1
    self.done = False

  def generic_visit(self, node):
    if isinstance(node, ast.expr) and not isinstance(node, (ast.Name, ast.Constant)) and not self.done:
      self.i += 1
      if self.i == self.k:
        self.done = True
        if isinstance(self.new, int):
          kids = [c for c in ast.iter_child_nodes(node) if isinstance(c, ast.expr)]
          if self.new < len(kids):
            return kids[self.new]
          return node
        return ast.parse(self.new, mode="eval").body
    return super().generic_visit(node)


def count_exprs(tree):
  return sum(1 for n in ast.walk(tree) if isinstance(n, ast.expr) and not isinstance(n, (ast.Name, ast.Constant)))


def simplify_exprs(src, pred, budget):
  """replace expressions by one of their sub-expressions or by a small constant while `pred` stays true"""
  if not isinstance(budget, Budget):
    budget = Budget(int(budget * 8), budget * 4)
  changed = True
  while changed and budget.ok():
    changed = False
    n = count_exprs(ast.parse(src))
    for k in range(n):
      for new in (0, 1, 2, "None", "0", "''", "()", "[]"):
        tree = ast.parse(src)
        rp = _Repl(k, new)
        try:
          t2 = rp.visit(tree)
          cand = ast.unparse(ast.fix_missing_locations(t2)) + "\n"
        except Exception:  # pylint: disable=broad-except
          continue
        if not rp.done or cand == src or len(cand) >= len(src):
          continue
        if not budget.spend():
          return src
        try:
          ok = pred(cand)
        except Exception:  # pylint: disable=broad-except
          ok = False
        if ok:
          src = cand
          changed = True
          break
      if changed:
        break
  return src


def features(src):
  """the constructs of a (minimised) program, for fingerprinting a violation by the construct involved"""
  tree = ast.parse(src)
  fs = set()
  user_funcs = {n.name for n in ast.walk(tree) if isinstance(n, ast.FunctionDef)}
  user_classes = {n.name for n in ast.walk(tree) if isinstance(n, ast.ClassDef)}
  calls = []
  for n in ast.walk(tree):
    if isinstance(n, ast.ClassDef):
      fs.add("class-multi" if len(n.bases) > 1 else ("class-derived" if n.bases else "class"))
    elif isinstance(n, ast.FunctionDef):
      if any(isinstance(m, (ast.FunctionDef, ast.Lambda)) for m in ast.walk(n) if m is not n):
        fs.add("closure")
      fs.add("method" if n.args.args and n.args.args[0].arg == "self" else "def")
    elif isinstance(n, ast.Lambda):
      fs.add("lambda")
    elif isinstance(n, (ast.ListComp, ast.SetComp, ast.DictComp, ast.GeneratorExp)):
      fs.add("comprehension")
    elif isinstance(n, ast.Try):
      fs.add("try")
    elif isinstance(n, ast.Subscript):
      fs.add("subscript")
    elif isinstance(n, (ast.If, ast.IfExp)):
      fs.add("if")
    elif isinstance(n, ast.BoolOp):
      fs.add("boolop")
    elif isinstance(n, ast.BinOp):
      fs.add("binop")
    elif isinstance(n, ast.Compare):
      fs.add("compare")
    elif isinstance(n, ast.Attribute) and isinstance(n.ctx, ast.Store):
      fs.add("attr-store")
    elif isinstance(n, ast.Call):
      f = n.func
      if isinstance(f, ast.Name):
        if f.id in user_classes:
          fs.add("instantiate")
        elif f.id in user_funcs or not hasattr(__builtins__, f.id) and f.id not in dir(__import__("builtins")):
          calls.append(f.id)
          fs.add("call")
        else:
          fs.add("builtin:" + f.id)
      elif isinstance(f, ast.Attribute):
        fs.add("method-call" if not isinstance(f.value, ast.Constant) else "builtin-method:" + f.attr)
    elif isinstance(n, ast.Dict):
      fs.add("dict")
    elif isinstance(n, (ast.List, ast.Set, ast.Tuple)) and isinstance(getattr(n, "ctx", ast.Load()), ast.Load):
      fs.add("display")
  if len(calls) != len(set(calls)):
    fs.add("call-repeated")
  return sorted(fs)
