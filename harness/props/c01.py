"""C01 — inferred types admit every value the program actually computes (loop-free code).  PARTIAL.

Proof:  coq/Props/C01.v (infer_sound, infer_upper_sound, call_sound, compat_sound, ...) over the model
        coq/Vm/Model.v: the loop-free language L0, a concrete evaluator `ceval` and an abstract interpreter run in
        two modes whose results bracket what pytype prints (strict worlds <= pytype <= reaching definitions).
Tie:    (a) generated L0 programs: `ceval` vs CPython exec value by value; model bounds vs the stub real pytype
        emits (io.generate_pyi): lower <= pytype <= upper on every name, hence EQUAL wherever the bounds coincide.
        (a') generated L1 programs (classes, coq/Vm/ClassModel.v): `leval` vs CPython on every module-level value,
        object class and instance dict; strict model bound <= the stub's type for every module-level name, every
        `class K: a: T` declaration and every declared method return type; the property oracle on the real stub.
Search: (b) the e2e oracle over the property's full fragment (classes, methods, attributes, lambdas, closures,
        comprehensions, subscripts, builtin calls, try/except): CPython values against the PRINTED stub types.
        This part is search, not proof; it is where replays for everything outside L0 come from.
"""
import ast
import collections
import concurrent.futures
import hashlib
import inspect
import json
import logging
import multiprocessing
import os
import subprocess
import threading
import time

import common
import c01_l0 as L0
import c01_l1 as L1
import c01_e2e as E2E

WORKERS = max(2, min(6, common.NCPU))
CASES_PER_FILE = 30

# ast.dump digests of the modelled pytype functions the model was last validated against (drift sentinel: a
# change never is a verdict, it only raises the quick case count)
VALIDATED_DIGESTS = {
    "compare.compatible_with": "be924c12",
    "state.restrict_condition": "0e6104cc",
    "vm_utils.jump_if": "a3315dbe",
}


# ---------------------------------------------------------------------------------------
# running pytype (in worker processes)

def _quiet():
  logging.disable(logging.CRITICAL)


def _worker_init():
  common.bootstrap_pytype()
  _quiet()


def pytype_pyi(src, skip_repeat_calls=True, empty_to_any=False, fix_simplify=False, fix_closure=False,
               fix_pytd_sources=False):
  """(pyi text, None) or (None, reason).  The switches are root-cause probes used to fingerprint a violation:
  skip_repeat_calls=False turns pytype's call cache off; empty_to_any=True replaces a call result that is the
  empty value (`nothing`, e.g. sum([]), [] + x) by Any; fix_simplify=True makes abstract_utils.simplify_variable
  give a merged binding one source set per merged binding; fix_closure=True makes LOAD_DEREF push a fresh copy of
  the cell's bindings instead of the shared (and possibly narrowed-in-place) cell variable; fix_pytd_sources=True
  makes a stub-defined (PyTD) function source its return value from every possible binding of an argument that is
  not in the match view, not only from the first one."""
  from pytype import config, io  # pylint: disable=import-outside-toplevel
  from pytype import vm_utils  # pylint: disable=import-outside-toplevel
  from pytype.abstract import function  # pylint: disable=import-outside-toplevel
  from pytype.abstract import abstract_utils  # pylint: disable=import-outside-toplevel
  orig = function.call_function
  orig_binop = vm_utils.call_binary_operator
  orig_simplify = abstract_utils.simplify_variable
  if fix_simplify:
    import collections as _c  # pylint: disable=import-outside-toplevel

    def fixed_simplify(var, node, ctx):
      # as abstract_utils.simplify_variable, but the merged binding gets ONE SOURCE SET PER merged binding
      # (a disjunction) instead of one source set holding all of them (a conjunction)
      if not var:
        return var
      by_hash = _c.defaultdict(list)
      for b in var.bindings:
        by_hash[b.data.get_fullhash()].append(b)
      if len(by_hash) == len(var.bindings):
        return var
      new_var = ctx.program.NewVariable()
      for bindings in by_hash.values():
        for b in bindings:
          new_var.AddBinding(bindings[0].data, [b], node)
      return new_var
    abstract_utils.simplify_variable = fixed_simplify
  from pytype.abstract import _pytd_function  # pylint: disable=import-outside-toplevel
  orig_cwa = _pytd_function.PyTDSignature.call_with_args
  if fix_pytd_sources:
    import itertools as _it  # pylint: disable=import-outside-toplevel

    def fixed_cwa(self, node, func, arg_dict, match, ret_map):
      # PyTDSignature.call_with_args sources the return value from `match.view.get(v, v.bindings[0])`: for an
      # argument variable that is not in the match view, its FIRST binding.  Here: one call per combination of the
      # bindings of those variables that are possible at `node` (each call adds its sources to ret_map[t]).
      missing = [v for v in arg_dict.values() if v not in match.view and len(v.bindings) > 1]
      choices = []
      for v in missing:
        vis = [b for b in v.bindings if node.HasCombination([b])]
        choices.append(vis or [v.bindings[0]])
      combos = list(_it.islice(_it.product(*choices), 8)) if missing else [()]
      out = None
      for combo in combos:
        for v, b in zip(missing, combo):
          match.view[v] = b
        out = orig_cwa(self, node, func, arg_dict, match, ret_map)
      return out
    _pytd_function.PyTDSignature.call_with_args = fixed_cwa
  orig_cell = vm_utils.load_closure_cell
  if fix_closure:
    def fixed_cell(state, op, check_bindings, ctx):
      # LOAD_DEREF pushes a fresh copy of the visible cell bindings made at the current node; the shared cell
      # itself is neither pushed nor replaced by its narrowed version (LOAD_CLOSURE keeps the original behaviour)
      if not check_bindings:
        return orig_cell(state, op, check_bindings, ctx)
      cell = ctx.vm.frame.cells[ctx.vm.frame.f_code.get_cell_index(op.argval)]
      if not cell.bindings:
        return orig_cell(state, op, check_bindings, ctx)
      new = ctx.program.NewVariable()
      for b in cell.bindings:
        new.PasteBinding(b, state.node)
      return state.push(new)
    vm_utils.load_closure_cell = fixed_cell
  if empty_to_any:
    def is_empty(var):
      return not var.bindings or any(type(d).__name__ == "Empty" for d in var.data)

    def patched(ctx, node, func_var, args, *a, **k):
      node2, ret = orig(ctx, node, func_var, args, *a, **k)
      if is_empty(ret):
        ret = ctx.new_unsolvable(node2)
      return node2, ret

    def patched_binop(state, name, x, y, report_errors, ctx):
      state2, ret = orig_binop(state, name, x, y, report_errors, ctx)
      if is_empty(ret):
        ret = ctx.new_unsolvable(state2.node)
      return state2, ret
    function.call_function = patched
    vm_utils.call_binary_operator = patched_binop
  try:
    opts = config.Options.create(python_version=(3, 12))
    if not skip_repeat_calls:
      opts.skip_repeat_calls = False
    _, text = io.generate_pyi(src, opts)
    return text, None
  except Exception as e:  # pylint: disable=broad-except
    return None, type(e).__name__ + ": " + str(e)[:200]
  finally:
    function.call_function = orig
    vm_utils.call_binary_operator = orig_binop
    abstract_utils.simplify_variable = orig_simplify
    vm_utils.load_closure_cell = orig_cell
    _pytd_function.PyTDSignature.call_with_args = orig_cwa


def _pyi_task(src):
  return pytype_pyi(src)


def pool_pyi(pool, srcs):
  return list(pool.map(_pyi_task, srcs, chunksize=4))


# ---------------------------------------------------------------------------------------
# (a) L0 correspondence

DUMMY_STUB = E2E.Stub("")


def py_value(enc):
  """encoded value (c01_l0.enc_value) -> a Python value for the membership oracle"""
  k = enc[0]
  if k == "none":
    return None
  if k in ("bool", "int"):
    return enc[1]
  if k == "float":
    return enc[1] / 2.0
  if k == "str":
    return L0.lit_str(enc[1])
  if k == "bytes":
    return L0.lit_str(enc[1]).encode()
  if k == "list":
    return [py_value(x) for x in enc[1]]
  if k == "tuple":
    return tuple(py_value(x) for x in enc[1])
  if k == "set":
    return {py_value(x) for x in enc[1]}
  if k == "dict":
    return {py_value(a): py_value(b) for a, b in enc[1]}
  raise ValueError(enc)


def run_model(tag, cases, builder=None):
  """cases: list of (prog, names).  Returns list of parsed reports (or None where the batch failed), log."""
  builder = builder or L0.cases_file
  files = []
  for i in range(0, len(cases), CASES_PER_FILE):
    files.append(("c01_%s_%d" % (tag, i // CASES_PER_FILE), builder(cases[i:i + CASES_PER_FILE])))
  out = [None] * len(cases)
  log = ""
  for j in range(0, len(files), WORKERS):
    chunk = files[j:j + WORKERS]
    res = common.run_cases_parallel(chunk, timeout=1200)
    for name, _ in chunk:
      k = int(name.rsplit("_", 1)[1])
      ok, text = res[name]
      if not ok:
        log += text[-1500:]
        continue
      terms = common.parse_coq_eval(text)
      base = k * CASES_PER_FILE
      if len(terms) != len(cases[base:base + CASES_PER_FILE]):
        log += "wrong number of results in %s\n" % name
        continue
      for i, t in enumerate(terms):
        out[base + i] = L0.parse_term(t)
  return out, log


def l0_compare(prog, src, vals, err, rep, pyi, perr, stats):
  """Returns (list of correspondence problems, list of oracle violations) for one program."""
  problems, viols = [], []
  names_rep, dup, nworlds, conc = rep
  names = sorted(int(k[1:]) for k in vals) if vals is not None else list(range(8))
  # -- the concrete evaluator against CPython
  if vals is None:
    if conc is not None:
      problems.append("ceval completes but CPython raises " + err)
    stats["cpython_raises"] += 1
    return problems, viols
  if conc is None:
    problems.append("ceval fails but CPython completes")
    return problems, viols
  for x, cv in zip(names, conc[1]):
    pv = L0.enc_value(vals["n%d" % x])
    mv = L0.dec_value(cv[1])[0] if cv else None
    if mv != pv:
      problems.append("value of n%d: ceval %r, CPython %r" % (x, mv, pv))
  stats["values_compared"] += len(names)
  # -- the inferred types against pytype's stub
  if pyi is None:
    stats["pytype_failed"] += 1
    if "Couldn't initialize typeshed" not in (perr or ""):
      problems.append("pytype failed: " + str(perr))
    return problems, viols
  try:
    consts, _ = L0.parse_pyi_constants(pyi)
  except Exception as e:  # pylint: disable=broad-except
    problems.append("stub does not parse: %r" % e)
    return problems, viols
  stats["worlds>1" if nworlds > 1 else "worlds=1"] += 1
  flavour = L0.sub_flavour([L0.norm_stmt(x) for x in prog])
  if flavour:
    stats["programs_with_subscripts(%s)" % flavour] += 1
  if dup:
    stats["programs_with_repeated_call_key"] += 1
  for x, (bs, lo, bl, up) in zip(names, names_rep):
    pt = consts.get("n%d" % x)
    lo_t = L0.dec_ty(lo)[0]
    up_t = L0.dec_ty(up)[0]
    if pt is None:
      problems.append("n%d is missing from the stub" % x)
      continue
    v = vals["n%d" % x]
    # the property itself, directly on the implementation's output
    adm = E2E.admits(pt, v, DUMMY_STUB)
    stats["oracle_checks"] += 1
    if adm is False:
      viols.append({"kind": "name", "where": "n%d" % x, "type": L0.show_ty(pt), "value": repr(v)[:200]})
    if not bl:
      problems.append("n%d is bound at run time but in no world of the model" % x)
      continue
    if not L0.ty_subset(pt, up_t):
      problems.append("n%d: pytype %s is not below the upper bound %s" % (x, L0.show_ty(pt), L0.show_ty(up_t)))
      continue
    if not bs:
      # bound only in branches no consistent world enters: pytype prints Any or a type below the upper bound
      stats["names_bound_only_lazily"] += 1
      continue
    if dup:
      stats["names_lower_bound_skipped(call cache)"] += 1
      continue
    if flavour == "free":
      stats["names_lower_bound_skipped(subscript of a multi-binding element)"] += 1
      if L0.ty_subset(lo_t, pt):
        stats["names_lower_bound_skipped_but_holds"] += 1
      continue
    if not L0.ty_subset(lo_t, pt):
      # The lower bound rests on solver completeness (C07).  If the real solver demonstrably drops a binding of
      # this very name between a node and its unconditioned, non-assigning successor, the disagreement is an
      # instance of that solver defect (reported as a finding with its own replay), not a defect of the model.
      why = solver_anomaly(src, "n%d" % x)
      if why:
        stats["names_lower_bound_lost_to_solver_anomaly"] += 1
        viols.append({"kind": "solver-anomaly", "where": "n%d" % x, "type": L0.show_ty(pt),
                      "value": "(model lower bound %s) %s" % (L0.show_ty(lo_t), why)})
        continue
      problems.append("n%d: lower bound %s is not below pytype %s" % (x, L0.show_ty(lo_t), L0.show_ty(pt)))
      continue
    if lo_t == up_t:
      stats["names_exact"] += 1
      if L0.show_ty(pt) != L0.show_ty(lo_t):
        problems.append("n%d: model %s (bounds coincide) but pytype prints %s" % (x, L0.show_ty(lo_t), L0.show_ty(pt)))
    else:
      stats["names_bracketed"] += 1
      if L0.show_ty(pt) == L0.show_ty(lo_t):
        stats["names_bracketed_equal_lower"] += 1
  return problems, viols


def l0_part(res, pool, r, n_gen, corpus):
  stats = collections.Counter()
  items = []                                   # (label, prog)
  for label, prog in corpus:
    items.append((label, prog))
  sizes = collections.Counter()
  for i in range(n_gen):
    n = r.randint(5, 40)
    prog = L0.generate(r, n)
    items.append(("gen%d" % i, prog))
  srcs = [L0.render(p) for _, p in items]
  runs = [L0.run_cpython(s) for s in srcs]
  cases = []
  for (label, prog), (vals, err) in zip(items, runs):
    names = sorted(int(k[1:]) for k in vals) if vals is not None else list(range(8))
    cases.append((prog, names))
  # the Coq model (coqc subprocesses) runs while the pool analyses the same programs with pytype
  box = {}

  def coq_thread():
    t1 = time.time()
    box["out"] = run_model("%s_%d" % (res.tier, res.seed % 100000), cases)
    box["t"] = time.time() - t1
  th = threading.Thread(target=coq_thread)
  th.start()
  t0 = time.time()
  pyis = pool_pyi(pool, srcs)
  t_py = time.time() - t0
  th.join()
  reps, log = box["out"]
  t_coq = box["t"]
  res.obligation("model-run:L0", all(x is not None for x in reps), log[-2000:])
  n_bad = 0
  first_bad = []
  for (label, prog), src, (vals, err), rep, (pyi, perr) in zip(items, srcs, runs, reps, pyis):
    if rep is None:
      continue
    n_stmts = src.count("\n")
    sizes["<=10" if n_stmts <= 10 else "<=25" if n_stmts <= 25 else "<=50" if n_stmts <= 50 else ">50"] += 1
    problems, viols = l0_compare(prog, src, vals, err, rep, pyi, perr, stats)
    nontrivial = vals is not None and (rep[2] > 1 or "f0(" in src or " if " in src or "if " in src)
    res.count(hashlib.sha1(src.encode()).hexdigest() if nontrivial else None)
    if len(res.samples) < 2 and vals is not None and rep[2] > 1 and len(src) < 400:
      res.sample({"l0_program": src, "pytype": {k: L0.show_ty(v) for k, v in L0.parse_pyi_constants(pyi)[0].items()}
                  if pyi else None, "final_worlds_strict": rep[2]})
    for v in viols:
      if v["kind"] == "solver-anomaly":
        if FP_SOLVER not in _classified:
          res.violation(FP_SOLVER, "pytype drops a binding the model's lower bound contains: %s %s" %
                        (v["where"], v["value"]),
                        {"kind": "l0-solver-anomaly", "src": src, "name": v["where"], "anomaly": v["value"]})
        _classified[FP_SOLVER] = _classified.get(FP_SOLVER, 0) + 1
      else:
        report_violation(res, "l0", src, [], v, pool)
    if problems:
      n_bad += 1
      if len(first_bad) < 3:
        first_bad.append({"case": label, "problems": problems[:4], "src": src})
  res.obligation("correspondence:L0-model-vs-pytype-and-CPython", n_bad == 0,
                 "%d of %d programs disagree; first: %s" % (n_bad, len(items), json.dumps(first_bad)[:3000]))
  res.extra["l0"] = {"programs": len(items), "stats": dict(stats), "size_histogram(lines)": dict(sizes),
                     "wall_pytype_s": round(t_py, 1), "wall_coq_s": round(t_coq, 1)}
  return n_bad



# ---------------------------------------------------------------------------------------
# (a') L1 correspondence: classes (coq/Vm/ClassModel.v)

def _first_wins(pairs):
  d = {}
  for a, toks in pairs:
    d.setdefault(a, toks)
  return d


def _has_any(t):
  if t == ("any",):
    return True
  if t[0] in ("gen", "tuple"):
    return any(_has_any(x) for x in t[-1])
  if t[0] == "homtuple":
    return _has_any(t[1])
  if t[0] == "union":
    return any(_has_any(x) for x in t[1])
  return False


def _lower_fails(what, lo, pt, problems, stats, exact_key, dup):
  """the strict bound is not below pytype's type: a disagreement unless the model itself gave up (its bound
  contains Any: depth cut-off inside a method marks the whole heap unknown, far coarser than pytype) or pytype's
  call cache can be involved (the same method called at two call sites; known finding call-cache:...)"""
  if _has_any(lo):
    stats[exact_key + "_lower_bound_is_any(model gave up)"] += 1
  elif dup:
    stats[exact_key + "_lower_bound_skipped(call cache)"] += 1
  else:
    problems.append("%s: lower bound %s is not below pytype %s" % (what, L0.show_ty(lo), L0.show_ty(pt)))


def _sandwich(what, lo, up, pt, problems, stats, exact_key, upper_required=True, dup=False):
  """lower <= pytype <= upper, equality where the bounds coincide.  For class members (upper_required=False) only the
  lower bound - the direction that transfers soundness - is an obligation: the declarations also collect bindings
  the model does not track (stores that a later store on the same path overwrites stay visible to
  FilteredData(strict=False); Any from canonical calls); the excess is measured, not required to vanish."""
  if not L0.ty_subset(pt, up):
    if upper_required:
      problems.append("%s: pytype %s is not below the upper bound %s" % (what, L0.show_ty(pt), L0.show_ty(up)))
      return
    stats[exact_key + "_above_upper"] += 1
    if not L0.ty_subset(lo, pt):
      _lower_fails(what, lo, pt, problems, stats, exact_key, dup)
    return
  if not L0.ty_subset(lo, pt):
    _lower_fails(what, lo, pt, problems, stats, exact_key, dup)
    return
  if lo == up:
    stats[exact_key + "_exact"] += 1
    if L0.show_ty(pt) != L0.show_ty(lo):
      problems.append("%s: model %s (bounds coincide) but pytype prints %s" % (what, L0.show_ty(lo), L0.show_ty(pt)))
  else:
    stats[exact_key + "_bracketed"] += 1


def l1_compare(prog, obs, src, run, rep, pyi, perr, stats):
  """Returns (correspondence problems, oracle violations) for one L1 program."""
  problems, viols = [], []
  names, onames, attrs, meths = obs
  vals, objs, err = run
  names_rep, attrs_rep, meths_rep, objs_rep, nworlds, conc = rep
  dup = L1.repeated_method_call(prog)
  # -- the concrete evaluator against CPython: module-level values, object classes, instance dicts
  if vals is None:
    if conc is not None:
      problems.append("leval completes but CPython raises " + err)
    stats["cpython_raises"] += 1
    return problems, viols
  if conc is None:
    problems.append("leval fails but CPython completes")
    return problems, viols
  cvals, cobjs = conc[1]
  for x, cv in zip(names, cvals):
    pv = L0.enc_value(vals[x]) if x in vals else None
    mv = L0.dec_value(cv[1])[0] if cv else None
    if mv != pv:
      problems.append("value of n%d: leval %r, CPython %r" % (x, mv, pv))
  for o, co in zip(onames, cobjs):
    po = objs.get(o)
    if (co is None) != (po is None):
      problems.append("object o%d: leval %r, CPython %r" % (o, co, po))
      continue
    if co is None:
      continue
    ccls, cattrs = co[1]
    md = {a: L0.dec_value(t)[0] for a, t in _first_wins(cattrs).items()}
    pd = {a: L0.enc_value(v) for a, v in po[1].items()}
    if ccls != po[0] or md != pd:
      problems.append("object o%d: leval K%d %r, CPython K%d %r" % (o, ccls, md, po[0], pd))
    stats["attribute_values_compared"] += len(pd)
  stats["values_compared"] += len(names)
  # -- the stub
  if pyi is None:
    stats["pytype_failed"] += 1
    if "Couldn't initialize typeshed" not in (perr or ""):
      problems.append("pytype failed: " + str(perr))
    return problems, viols
  try:
    consts, classes = L1.parse_stub(pyi)
  except Exception as e:  # pylint: disable=broad-except
    problems.append("stub does not parse: %r" % e)
    return problems, viols
  stats["worlds>1" if nworlds > 1 else "worlds=1"] += 1
  # module-level value names
  for x, (bs, lo, bl, up) in zip(names, names_rep):
    if x not in vals:
      continue
    pt = consts.get("n%d" % x)
    if pt is None:
      problems.append("n%d is missing from the stub" % x)
      continue
    adm = E2E.admits(pt, vals[x], DUMMY_STUB)
    stats["oracle_checks"] += 1
    if adm is False:
      viols.append({"kind": "name", "where": "n%d" % x, "type": L0.show_ty(pt), "value": repr(vals[x])[:200]})
    if not bl:
      problems.append("n%d is bound at run time but in no world of the model" % x)
      continue
    if not bs:
      if not L0.ty_subset(pt, L0.dec_ty(up)[0]):
        stats["names_above_upper"] += 1
      continue
    _sandwich("n%d" % x, L0.dec_ty(lo)[0], L0.dec_ty(up)[0], pt, problems, stats, "names", upper_required=False, dup=dup)
  # object names: the class printed for o<i>
  for o, (lo_c, up_c) in zip(onames, objs_rep):
    if o not in objs:
      continue
    pt = consts.get("o%d" % o)
    if pt is None:
      problems.append("o%d is missing from the stub" % o)
      continue
    printed = {t[1] for t in (pt[1] if pt[0] == "union" else [pt]) if t[0] == "base"}
    # a printed class stands for its subclasses too (SimplifyUnionsWithSuperclasses drops them from a union)
    cover = {"K%d" % c for c in range(len(prog["classes"])) if any("K%d" % k in printed for k in L1.ancestors(prog, c))}
    stats["oracle_checks"] += 1
    if pt != ("any",) and "K%d" % objs[o][0] not in cover:
      viols.append({"kind": "name", "where": "o%d" % o, "type": L0.show_ty(pt), "value": "K%d instance" % objs[o][0]})
    if pt != ("any",) and not ({"K%d" % c for c in lo_c} <= cover and printed <= {"K%d" % c for c in up_c}):
      problems.append("o%d: pytype %s, model classes %r..%r" % (o, L0.show_ty(pt), lo_c, up_c))
  # instance attributes: the declaration on the object's exact class
  for (c, a), (lo, up) in zip(attrs, attrs_rep):
    lo_t, up_t = L0.dec_ty(lo)[0], L0.dec_ty(up)[0]
    cattrs_written = any(a2 == a for a2, _ in prog["classes"][c]["cattrs"])
    pt = classes.get("K%d" % c, ({}, {}))[0].get("a%d" % a)
    # the property itself: run-time attribute values of the module-level instances of exactly this class
    for o, (oc, od) in objs.items():
      if oc == c and a in od and pt is not None:
        stats["oracle_checks"] += 1
        if E2E.admits(pt, od[a], DUMMY_STUB) is False:
          viols.append({"kind": "attr", "where": "o%d.a%d" % (o, a), "type": L0.show_ty(pt),
                        "value": repr(od[a])[:200]})
    if cattrs_written:
      continue                                  # declared through the class statement: a class-level constant too
    if pt is None:
      if up_t != ("nothing",) and lo_t != ("nothing",) and not _has_any(lo_t):
        problems.append("K%d.a%d is missing from the stub (model %s)" % (c, a, L0.show_ty(lo_t)))
      continue
    _sandwich("K%d.a%d" % (c, a), lo_t, up_t, pt, problems, stats, "attrs", upper_required=False, dup=dup)
  # declared return types (canonical analysis)
  for (c, m), (lo, up) in zip(meths, meths_rep):
    pt = classes.get("K%d" % c, ({}, {}))[1].get(L1.r_m(m))
    if pt is None:
      problems.append("K%d.%s is missing from the stub" % (c, L1.r_m(m)))
      continue
    _sandwich("K%d.%s()" % (c, L1.r_m(m)), L0.dec_ty(lo)[0], L0.dec_ty(up)[0], pt, problems, stats, "returns",
              upper_required=False, dup=dup)
  return problems, viols


def l1_part(res, pool, r, n_gen, corpus):
  stats = collections.Counter()
  items = [(label, prog) for label, prog in corpus]
  for i in range(n_gen):
    items.append(("gen%d" % i, L1.generate(r)))
  srcs = [L1.render(p) for _, p in items]
  runs = [L1.run_cpython(s, len(p["classes"])) for s, (_, p) in zip(srcs, items)]
  obs = [L1.observed(p) for _, p in items]
  cases = [(p,) + o for (_, p), o in zip(items, obs)]
  box = {}

  def coq_thread():
    t1 = time.time()
    box["out"] = run_model("l1%s_%d" % (res.tier, res.seed % 100000), cases, L1.cases_file)
    box["t"] = time.time() - t1
  th = threading.Thread(target=coq_thread)
  th.start()
  t0 = time.time()
  pyis = pool_pyi(pool, srcs)
  t_py = time.time() - t0
  th.join()
  reps, log = box["out"]
  res.obligation("model-run:L1", all(x is not None for x in reps), log[-2000:])
  n_bad, first_bad, feats = 0, [], collections.Counter()
  for (label, prog), ob, src, run_, rep, (pyi, perr) in zip(items, obs, srcs, runs, reps, pyis):
    if rep is None:
      continue
    problems, viols = l1_compare(prog, ob, src, run_, rep, pyi, perr, stats)
    if run_[0] is not None:
      for f in ("super().", "K1, K2", ".a0 = ", "if n"):
        if f in src:
          feats[f] += 1
    res.count(hashlib.sha1(src.encode()).hexdigest() if run_[0] is not None else None)
    if len(res.samples) < 3 and run_[0] is not None and "super()." in src and len(src) < 700 and not problems:
      res.sample({"l1_program": src, "pytype_stub": pyi})
    for v in viols:
      report_violation(res, "l1", src, [], v, pool)
    if problems:
      n_bad += 1
      if len(first_bad) < 3:
        first_bad.append({"case": label, "problems": problems[:4], "src": src, "pyi": pyi})
  res.obligation("correspondence:L1-model-vs-pytype-and-CPython", n_bad == 0,
                 "%d of %d programs disagree; first: %s" % (n_bad, len(items), json.dumps(first_bad)[:4000]))
  res.extra["l1"] = {"programs": len(items), "stats": dict(stats), "features(completing programs)": dict(feats),
                     "wall_pytype_s": round(t_py, 1), "wall_coq_s": round(box["t"], 1)}
  return n_bad

# ---------------------------------------------------------------------------------------
# (b) e2e oracle

def dedupe_dict_keys(src):
  """drops the earlier entries of equal constant keys in dict displays (run-time semantics unchanged apart from
  the evaluation of the dropped value expressions); None if there is nothing to drop"""
  tree = ast.parse(src)
  changed = [False]

  class D(ast.NodeTransformer):
    def visit_Dict(self, node):
      self.generic_visit(node)
      seen, keep = set(), []
      for k, v in reversed(list(zip(node.keys, node.values))):
        try:
          key = ("c", ast.literal_eval(k)) if k is not None else None
          hash(key)
        except Exception:  # pylint: disable=broad-except
          key = None
        if key is not None and key in seen:
          changed[0] = True
          continue
        if key is not None:
          seen.add(key)
        keep.append((k, v))
      keep.reverse()
      node.keys = [k for k, _ in keep]
      node.values = [v for _, v in keep]
      return node

  t2 = D().visit(tree)
  if not changed[0]:
    return None
  return ast.unparse(ast.fix_missing_locations(t2)) + "\n"


def method_return_attr_store(src, v0):
  """True if the violated check is the printed return type of a method C.m that reads `self.A` while `A` is also
  stored from outside the class that defines m (module-level `o.A = v`, or a method of another class)."""
  if v0["kind"] != "return" or "." not in v0["where"]:
    return False
  cname, mname = v0["where"][:-2].split(".", 1)
  tree = ast.parse(src)
  classes = {n.name: n for n in tree.body if isinstance(n, ast.ClassDef)}

  def mro(c, seen):
    if c in seen or c not in classes:
      return seen
    seen.append(c)
    for bnode in classes[c].bases:
      if isinstance(bnode, ast.Name):
        mro(bnode.id, seen)
    return seen
  definer = None
  for c in mro(cname, []):
    if any(isinstance(f, ast.FunctionDef) and f.name == mname for f in classes[c].body):
      definer = c
      break
  if definer is None:
    return False
  meth = [f for f in classes[definer].body if isinstance(f, ast.FunctionDef) and f.name == mname][-1]
  read = {n.attr for n in ast.walk(meth) if isinstance(n, ast.Attribute) and isinstance(n.ctx, ast.Load)
          and isinstance(n.value, ast.Name) and n.value.id == "self"}
  inside = {id(n) for n in ast.walk(classes[definer])}
  for n in ast.walk(tree):
    if isinstance(n, ast.Attribute) and isinstance(n.ctx, ast.Store) and n.attr in read and id(n) not in inside:
      return True
  for c, node in classes.items():
    if c != definer:
      for st in node.body:
        if isinstance(st, ast.Assign) and any(isinstance(t, ast.Name) and t.id in read for t in st.targets):
          return True
  return False


def _deep_repr(v, depth=0, seen=None):
  """an ORDERED structural description of an abstract value, independent of pytype's own hashing"""
  seen = seen or set()
  if depth > 6 or id(v) in seen:
    return "..."
  seen = seen | {id(v)}
  cn = type(v).__name__
  pv = getattr(v, "pyval", None)
  try:
    if cn in ("Tuple", "List") and isinstance(pv, (list, tuple)) and getattr(v, "is_concrete", True):
      return "%s(%s)" % (cn, ", ".join("{%s}" % "|".join(sorted(_deep_repr(b.data, depth + 1, seen)
                                                                 for b in var.bindings)) for var in pv))
    if cn == "Dict" and isinstance(pv, dict):
      return "Dict(%s)" % ", ".join("%r: {%s}" % (k, "|".join(sorted(_deep_repr(b.data, depth + 1, seen)
                                                                      for b in var.bindings)))
                                    for k, var in pv.items())
    if cn == "ConcreteValue":
      return "%s:%r" % (type(pv).__name__, pv)
    name = getattr(v, "full_name", None) or getattr(v, "name", cn)
    params = getattr(v, "_instance_type_parameters", None)
    if params:
      items = []
      for k in sorted(params.keys()):
        try:
          var = params[k]
          items.append("%s={%s}" % (k, "|".join(sorted(_deep_repr(b.data, depth + 1, seen) for b in var.bindings))))
        except Exception:  # pylint: disable=broad-except
          items.append("%s=?" % k)
      return "%s<%s>[%s]" % (cn, name, ", ".join(items))
    return "%s<%s>" % (cn, name)
  except Exception:  # pylint: disable=broad-except
    return cn


def cache_key_collision(src):
  """Probe: does InterpreterFunction._hash_call give the SAME call-cache key to two calls of one function whose
  arguments differ (compared by an ordered structural description that does not use pytype's hashing)?
  Returns a description of the first collision or None."""
  from pytype import config, io  # pylint: disable=import-outside-toplevel
  from pytype.abstract import _interpreter_function as ifn  # pylint: disable=import-outside-toplevel
  seen = {}
  found = []
  orig = ifn.InterpreterFunction._hash_call

  def hook(self, callargs, frame):
    key = orig(self, callargs, frame)
    try:
      desc = tuple(sorted((n, "|".join(sorted(_deep_repr(b.data) for b in var.bindings)))
                          for n, var in callargs.items()))
      old = seen.setdefault((id(self), key), desc)
      if old != desc and not found:
        found.append("%s: one cache key for arguments %s and %s" % (self.name, old, desc))
    except Exception:  # pylint: disable=broad-except
      pass
    return key
  ifn.InterpreterFunction._hash_call = hook
  try:
    io.generate_pyi(src, config.Options.create(python_version=(3, 12)))
  except Exception:  # pylint: disable=broad-except
    pass
  finally:
    ifn.InterpreterFunction._hash_call = orig
  return found[0][:400] if found else None


def solver_anomaly(src, name):
  """Probe for a solver anomaly on the module-level name `name`: a binding of it that is NOT visible at the exit
  point although it is visible at a CFG node n and n has a successor m, on the way to the exit, that carries no
  condition and no assignment of that variable, where it is not visible any more.  (Visibility can only be lost
  at a node that re-assigns the variable or carries a condition.)  Returns a description or None."""
  from pytype import config, io, tracer_vm  # pylint: disable=import-outside-toplevel
  found = []
  orig = tracer_vm.CallTracer.pytd_for_types

  def hook(self, defs):
    try:
      var = defs.get(name)
      ex = self.ctx.exitpoint
      if var is not None:
        assigned = {o.where.id for b in var.bindings for o in b.origins}
        nodes = list(self.ctx.program.cfg_nodes)
        for b in var.bindings:
          if b.IsVisible(ex):
            continue
          for n in nodes:
            if not b.IsVisible(n):
              continue
            for m in n.outgoing:
              if m.condition is None and m.id not in assigned and not b.IsVisible(m) \
                  and self.ctx.program.is_reachable(src=m, dst=ex):
                found.append("%s visible at <%d %s> but not at its successor <%d %s>" %
                             (type(b.data).__name__, n.id, n.name, m.id, m.name))
                break
            if found:
              break
          if found:
            break
    except Exception:  # pylint: disable=broad-except
      pass
    return orig(self, defs)
  tracer_vm.CallTracer.pytd_for_types = hook
  try:
    io.generate_pyi(src, config.Options.create(python_version=(3, 12)))
  except Exception:  # pylint: disable=broad-except
    pass
  finally:
    tracer_vm.CallTracer.pytd_for_types = orig
  return found[0] if found else None


FP_CACHE = "call-cache:cached-return-invisible-in-other-branch"
FP_CACHE_KEY = "call-cache:one-key-for-different-arguments"
FP_EMPTY = "empty-value:call-result-nothing-treated-as-no-value"
FP_SIMPLIFY = "simplify-variable:merged-bindings-joined-by-conjunction"
FP_CLOSURE = "closure-cell:load-deref-shares-or-narrows-the-cell"
FP_METHOD = "method-return:attribute-redefined-outside-defining-class"
FP_DICTDUP = "dict-display:duplicate-constant-key"
FP_PYTD = "pytd-call:return-sourced-from-first-binding-of-unmatched-argument"
FP_SOLVER = "solver:binding-visible-at-a-node-but-not-at-its-unconditioned-successor"
NO_TIME_CAP = 24 * 3600.0


def classify(src, calls, v0, known):
  """A fingerprint for a violation: root-cause probes on the ORIGINAL program first (mechanism-based, stable),
  else the violated check + the sorted set of constructs of the minimised program.  Returns (fingerprint,
  minimised source or None).  All budgets are numbers of pytype runs, never wall-clock time, so the same program
  always gets the same fingerprint whatever the machine load."""

  def still(s, **kw):
    g, _ = E2E.run_cpython(s)
    if g is None:
      return False
    pyi, _ = pytype_pyi(s, **kw)
    if pyi is None:
      return False
    try:
      r = E2E.check_program(s, calls, pyi)
    except Exception:  # pylint: disable=broad-except
      return False
    return bool(r and any(v["kind"] == v0["kind"] and v["where"] == v0["where"] for v in r[1]))

  if not still(src):
    return "not-reproducible", None
  fp = None
  # each probe switches ONE pytype mechanism off / repairs it; the violation disappearing names the mechanism
  if not still(src, skip_repeat_calls=False):
    # InterpreterFunction._call_cache: a legitimate hit whose cached bindings are invisible here (the known
    # mechanism), or a key shared by calls with different arguments (a defect of the key, never listed)
    fp = FP_CACHE_KEY if cache_key_collision(src) else FP_CACHE
  elif not still(src, empty_to_any=True):
    fp = FP_EMPTY          # a call / operator result that is the Empty value
  elif not still(src, fix_simplify=True):
    fp = FP_SIMPLIFY       # abstract_utils.simplify_variable: AddBinding(data, [b1, b2], node)
  elif not still(src, fix_closure=True):
    fp = FP_CLOSURE        # vm_utils.load_closure_cell
  elif not still(src, fix_pytd_sources=True):
    fp = FP_PYTD           # PyTDSignature.call_with_args: match.view.get(v, v.bindings[0])
  elif method_return_attr_store(src, v0):
    fp = FP_METHOD
  elif v0["kind"] == "name" and solver_anomaly(src, v0["where"]):
    fp = FP_SOLVER
  else:
    d = dedupe_dict_keys(src)
    if d is not None and E2E.run_cpython(d)[0] is not None and not still(d):
      fp = FP_DICTDUP
  if fp is not None and (fp in known or fp in _classified):
    return fp, None                      # already reported / listed: no need to minimise again
  if fp is None and _classified.get("(unclassified, minimised)", 0) >= MAX_UNCLASSIFIED:
    return "(unclassified, not minimised: budget of %d minimisations used)" % MAX_UNCLASSIFIED, None
  # minimise to a fixpoint (bounded), so that re-minimising the minimised program (e.g. from the corpus) gives the
  # same program and hence the same fingerprint
  m = src
  for _ in range(6 if fp is None else 1):
    m0 = m
    m = E2E.minimise(m, still, E2E.Budget(200, NO_TIME_CAP))
    m = E2E.simplify_exprs(m, still, E2E.Budget(120, NO_TIME_CAP))
    if m == m0:
      break
  if fp is None:
    _classified["(unclassified, minimised)"] = _classified.get("(unclassified, minimised)", 0) + 1
    fp = "unclassified:" + v0["kind"] + ":" + "+".join(E2E.features(m))
  return fp, m


_classified = {}
_examples = {}


MAX_UNCLASSIFIED = 10


def report_violation(res, origin, src, calls, v0, pool):
  """fingerprint every violation (cheap probes; the first of a kind is minimised); res.violation for the first
  of each fingerprint, at most 3 unlisted ones"""
  t0 = time.time()
  fp, m = classify(src, calls, v0, res.known)
  if fp == "not-reproducible":
    _classified[fp] = _classified.get(fp, 0) + 1
    return
  first = fp not in _classified
  _classified[fp] = _classified.get(fp, 0) + 1
  if not first or fp.startswith("(unclassified, not minimised"):
    return
  m = m or src
  if fp not in res.known and sum(1 for v in res.violations if v["found_input"]) >= 3:
    _examples[fp] = {"src": m[:1500], "violation": v0, "note": "not reported: 3 unlisted violations already reported"}
    return
  pyi, _ = pytype_pyi(m)
  try:
    vv = [v for v in E2E.check_program(m, calls, pyi)[1] if v["kind"] == v0["kind"]]
  except Exception:  # pylint: disable=broad-except
    vv = [v0]
  _examples[fp] = {"src": m[:1500], "violation": (vv or [v0])[0]}
  res.violation(fp, "run-time value outside its inferred type (%s %s: %s does not admit %s)" %
                (v0["kind"], v0["where"], v0["type"], v0["value"][:80]),
                {"kind": origin, "src": m, "calls": calls, "original_src": src, "violation": (vv or [v0])[0],
                 "pyi": pyi, "classify_s": round(time.time() - t0, 1)})


def e2e_part(res, pool, r, n_gen, corpus):
  st = collections.Counter()
  items = list(corpus)
  for i in range(n_gen):
    src, calls = E2E.generate(r, r.randint(8, 30))
    items.append(("gen%d" % i, src, calls))
  runnable = []
  for label, src, calls in items:
    g, err = E2E.run_cpython(src)
    if g is None:
      st["cpython_raises:" + err] += 1
    else:
      runnable.append((label, src, calls))
  t0 = time.time()
  pyis = pool_pyi(pool, [s for _, s, _ in runnable])
  feats = collections.Counter()
  for (label, src, calls), (pyi, perr) in zip(runnable, pyis):
    if pyi is None:
      st["pytype_failed"] += 1
      if "Couldn't initialize typeshed" not in (perr or ""):
        st["pytype_failed_other"] += 1
        if "pytype_failure_example" not in res.extra:
          res.extra["pytype_failure_example"] = {"error": perr, "src": src[:1500]}
      continue
    try:
      stats, viol = E2E.check_program(src, calls, pyi)
    except Exception as e:  # pylint: disable=broad-except
      st["stub_unparsable"] += 1
      if "stub_unparsable_example" not in res.extra:
        res.extra["stub_unparsable_example"] = {"error": repr(e)[:300], "src": src[:1500]}
      continue
    st["programs"] += 1
    for k, v in stats.items():
      st[k] += v
    for f in E2E.features(src):
      feats[f.split(":")[0]] += 1
    res.count(hashlib.sha1(src.encode()).hexdigest())
    if viol:
      st["programs_with_violation"] += 1
      report_violation(res, "e2e", src, calls, viol[0], pool)
  res.extra["e2e"] = {"generated": len(items), "stats": dict(st), "feature_histogram": dict(feats),
                      "wall_s": round(time.time() - t0, 1),
                      "fingerprints_seen": dict(_classified), "first_example_per_fingerprint": dict(_examples)}
  # the e2e leg is search: it creates no proof obligation beyond "the oracle ran on a reasonable sample"
  res.obligation("e2e-oracle-ran", st["programs"] >= max(1, len(items) // 4) and st["checks"] > 0,
                 "programs=%d checks=%d" % (st["programs"], st["checks"]))


# ---------------------------------------------------------------------------------------

def load_corpus():
  l0, e2e, l1 = [], [], []
  d = os.path.join(common.CORPUS, "C01")
  for f in sorted(os.listdir(d)) if os.path.isdir(d) else []:
    if not f.endswith(".json"):
      continue
    o = json.load(open(os.path.join(d, f)))
    if o.get("kind") == "l0":
      l0.append(("corpus:" + f, untuple(o["prog"])))
    elif o.get("kind") == "l1":
      l1.append(("corpus:" + f, untuple_l1(o["prog"])))
    else:
      e2e.append(("corpus:" + f, o["src"], [tuple(c) for c in o.get("calls", [])]))
  return l0, e2e, l1


def untuple_l1(p):
  """json -> the structure c01_l1 expects"""
  def ls(s):
    s = untuple(s)
    return s
  return {"classes": [{"bases": c["bases"], "cattrs": [(a, untuple(e)) for a, e in c["cattrs"]],
                       "meths": [(m, ps, [ls(x) for x in b]) for m, ps, b in c["meths"]]} for c in p["classes"]],
          "body": [untuple(t) for t in p["body"]]}


def untuple(x):
  """json lists -> the tuples the L0 helpers expect (statement/expression nodes are tuples, children lists)"""
  if isinstance(x, list):
    if x and isinstance(x[0], str):
      return tuple(untuple(y) if i else y for i, y in enumerate(x))
    return [untuple(y) for y in x]
  return x


def digests():
  from pytype import compare, state, vm_utils  # pylint: disable=import-outside-toplevel
  out = {}
  for k, f in (("compare.compatible_with", compare.compatible_with),
               ("state.restrict_condition", state.restrict_condition),
               ("vm_utils.jump_if", vm_utils.jump_if)):
    try:
      out[k] = hashlib.sha1(ast.dump(ast.parse(inspect.getsource(f))).encode()).hexdigest()[:8]
    except Exception:  # pylint: disable=broad-except
      out[k] = "?"
  return out


def run(res):
  res.rule = ("(a) generated L0 programs of 5-40 statements (assignments of literals/displays/not/is None/isinstance/"
              "and/or/conditional expressions/calls/subscripts of tuple and list displays by constant, negative, bool and "
              "multi-binding indices, if/elif/else, module-level defs with positional parameters); "
              "non-trivial = completes under CPython and has >1 final world, a branch or a call; distinct by source. "
              "(b) generated loop-free programs of 8-30 top-level items with classes (single/multiple inheritance), "
              "methods, instance attributes, lambdas, closures, comprehensions over literals, subscripts, builtin "
              "calls, try/except; every module-level name, instance attribute and `r = f(...)` result is checked "
              "against the printed stub type; distinct by source.")
  res.assumptions = [
      "PARTIAL: the theorems cover L0 only; classes, attributes, closures, comprehensions, exceptions, builtin "
      "signatures are covered by the e2e differential against CPython, which is search, not proof",
      "visibility is modelled by sets of consistent worlds (strict run = what a complete solver must keep, lazy run "
      "= reaching definitions = what it can keep at most); pytype's printed type is checked to lie between them on "
      "every run, equality where the bounds coincide; the solver itself is property C07's subject",
      "the structured statements of L0 abstract the bytecode; CPython's compiler (jump compilation, constant "
      "folding) is mirrored by acond_with/lit_truth and checked only through the correspondence",
      "pytype's call cache, folding of Python-equal literals in set/dict displays and the deep-binding-product "
      "fallback of builtin calls are outside the model: the generator avoids them / the lower bound is skipped on "
      "programs with a repeated call key",
      "subscripts: CPython's compile-time folding of <constant tuple>[<constant>] is not mirrored (the generator "
      "writes such receivers as list displays); when an element variable of a subscripted display can hold several "
      "bindings (program flavour 'free') the strict run returns all of them, which is sound but not a lower bound of "
      "pytype's answer, so only upper bound + ceval==CPython + the oracle are demanded there; receivers other than "
      "list/tuple values and tuple subscripts by non-literal indices are not generated",
      "membership oracle over printed types (harness/props/c01_e2e.py admits): reports definite exclusions only",
  ]
  common.coq_obligations(res, "C01")
  common.bootstrap_pytype()
  _quiet()
  res.trusted_base += ["CPython 3.12 exec as the reference semantics of the generated programs",
                       "harness/props/c01_l0.py (generator, printers, type canonicaliser, ty_subset), "
                       "c01_e2e.py (generator, stub parser, membership oracle, minimiser)",
                       "out-of-tree g++ build of /repo/pytype/typegraph/*.cc (harness/common.py build_cfg)"]
  thorough = res.tier == "thorough"
  dg = digests()
  res.extra["modelled_function_digests"] = dg
  drift = any(VALIDATED_DIGESTS.get(k) not in ("", v) for k, v in dg.items())
  res.extra["drift_sentinel_escalated"] = drift
  n_l0, n_e2e = (2500, 6000) if thorough else (120, 300)
  if drift and not thorough:
    n_l0, n_e2e = 450, 600
  n_l1 = 600 if thorough else (60 if drift else 30)
  corpus_l0, corpus_e2e, corpus_l1 = load_corpus()
  r1 = common.rng(res.seed, "c01", "l0")
  r2 = common.rng(res.seed, "c01", "e2e")
  # spawn (not fork): the L0 leg runs coqc from a thread while the pool is busy
  ctx = multiprocessing.get_context("spawn")
  with concurrent.futures.ProcessPoolExecutor(max_workers=WORKERS, mp_context=ctx, initializer=_worker_init) as pool:
    l0_part(res, pool, r1, n_l0, corpus_l0)
    l1_part(res, pool, common.rng(res.seed, "c01", "l1"), n_l1, corpus_l1)
    e2e_part(res, pool, r2, n_e2e, corpus_e2e)
  if thorough:
    ok, out = common_coqchk("C01")
    res.obligation("coqchk", ok, out[-1500:])
  return "proof"


def common_coqchk(pid):
  r = subprocess.run(["timeout", "1500", "coqchk", "-silent", "-o", "-Q", common.COQ, "PV", f"PV.Props.{pid}"],
                     capture_output=True, text=True, cwd=common.COQ)
  return r.returncode == 0, r.stdout + r.stderr


def replay(res, path):
  common.bootstrap_pytype()
  _quiet()
  d = json.load(open(path))
  rp = d["replay"]
  src = rp["src"]
  if rp.get("kind") == "l0-solver-anomaly":
    print("--- program")
    print(src)
    why = solver_anomaly(src, rp["name"])
    print("--- solver anomaly on %s: %s" % (rp["name"], why))
    return 1 if why else 0
  calls = [tuple(c) for c in rp.get("calls", [])]
  print("--- program")
  print(src)
  pyi, perr = pytype_pyi(src)
  print("--- stub inferred by pytype")
  print(pyi if pyi is not None else perr)
  g, err = E2E.run_cpython(src)
  if g is None or pyi is None:
    print("not runnable:", err or perr)
    return 0
  stats, viol = E2E.check_program(src, calls, pyi)
  print("--- oracle:", stats)
  for v in viol:
    print("VIOLATED: %s %s : inferred %s does not admit the run-time value %s" %
          (v["kind"], v["where"], v["type"], v["value"]))
  return 1 if viol else 0
