"""C20 generators: random Python programs (text) and stubs for their definitions (text).

Programs use: nested functions, methods, decorators (incl. property/staticmethod), async defs, defaults,
positional-only / star / keyword-only / ** parameters, class and module variables, chained / tuple /
attribute / subscript assignment targets, re-assignment, if/try/for/with blocks at module and class
level, nested classes, TypeVars, docstrings, `from typing import ...` at the top or late, and existing
partial annotations.  Programs import nothing but `typing` (via from-imports)."""
import re


TYPING_NAMES = ["Any", "Never", "List", "Dict", "Optional", "Tuple", "Callable", "Literal", "Type",
                "Generic", "TypeVar", "Union", "NamedTuple", "Protocol", "TypedDict"]

# annotation texts in ast.unparse-canonical formatting; {C} = a class of the program, {T} = a TypeVar
TYPES = [
    ("int", 6), ("str", 5), ("float", 2), ("bool", 2), ("complex", 1), ("None", 4),
    ("Any", 8), ("Never", 4), ("List[int]", 6), ("Dict[str, int]", 4), ("Optional[str]", 3),
    ("Tuple[int, ...]", 2), ("Callable[[int], str]", 2), ("Literal['a']", 3), ("Literal[1, 2]", 1),
    ("int | None", 2), ("list[int]", 3), ("List[Any]", 2), ("Type[{C}]", 2), ("{C}", 6), ("{T}", 3),
    ("List[{T}]", 1), ("'{C}'", 1), ("{D}", 2), ("Union[int, str]", 1),
    ("object", 1),
]


def pick_weighted(r, pairs):
  tot = sum(w for _, w in pairs)
  x = r.random() * tot
  for v, w in pairs:
    x -= w
    if x <= 0:
      return v
  return pairs[-1][0]


class Ctx:
  def __init__(self, r, size):
    self.r = r
    self.size = size
    self.classes = ["A", "B", "C"][:r.randint(1, 3)]
    self.tvs = ["T"] if r.random() < 0.5 else []
    self.dotted = []            # filled with Outer.Inner names once nested classes exist
    self.counter = 0
    self.used_classes = set()   # class names are not re-used (a stub cannot describe two classes of one name)

  def typ(self):
    r = self.r
    for _ in range(10):
      t = pick_weighted(r, TYPES)
      if "{T}" in t and not self.tvs:
        continue
      if "{D}" in t and not self.dotted:
        continue
      return (t.replace("{C}", r.choice(self.classes)).replace("{T}", (self.tvs or ["T"])[0])
              .replace("{D}", r.choice(self.dotted) if self.dotted else "int"))
    return "int"

  def fresh(self, prefix):
    self.counter += 1
    return "%s%d" % (prefix, self.counter)


# ---------------------------------------------------------------------------------------------
# a program is a list of definition records; rendering gives the source, `stub_for` a stub

def gen_params(cx, method):
  r = cx.r
  def P(name):
    return {"name": name, "ann": cx.typ() if r.random() < 0.25 else None,
            "default": r.choice(["0", "None", "'s'", "[]"]) if r.random() < 0.3 else None}
  names = iter(["a", "b", "c", "d", "e", "f", "g", "h"])
  ps = {"posonly": [], "pos": [], "star": None, "kwonly": [], "kwstar": None}
  if r.random() < 0.15:
    ps["posonly"] = [P(next(names)) for _ in range(r.randint(1, 2))]
  if method:
    ps["pos"].append({"name": "self", "ann": None, "default": None})
  ps["pos"] += [P(next(names)) for _ in range(r.choice([0, 0, 1, 1, 2, 3]))]
  k = r.random()
  if k < 0.15:
    ps["star"] = {"name": "args", "ann": cx.typ() if r.random() < 0.3 else None, "default": None}
  if k < 0.3 or r.random() < 0.1:
    n = r.randint(0 if ps["star"] else 1, 2)
    ps["kwonly"] = [P(next(names)) for _ in range(n)]
  if r.random() < 0.12:
    ps["kwstar"] = {"name": "kw", "ann": cx.typ() if r.random() < 0.3 else None, "default": None}
  # defaults must be contiguous at the end of posonly+pos
  seen = False
  for p in ps["posonly"] + ps["pos"]:
    if p["default"] is not None:
      seen = True
    elif seen:
      p["default"] = "0"
  if method and ps["posonly"]:
    ps["posonly"], ps["pos"] = [], ps["pos"]
  return ps


def gen_fun(cx, depth, method=False, name=None):
  r = cx.r
  d = {"kind": "fun", "name": name or r.choice(["f", "g", "h", "run", "m"]), "params": gen_params(cx, method),
       "ret": cx.typ() if r.random() < 0.2 else None,
       "deco": r.choice([[], [], [], ["deco"], ["deco(1)"], ["staticmethod"] if method else ["deco"],
                         ["property"] if method else []]),
       "async": r.random() < 0.08, "body": []}
  if "staticmethod" in d["deco"] and d["params"]["pos"] and d["params"]["pos"][0]["name"] == "self":
    d["params"]["pos"] = d["params"]["pos"][1:]
  n = r.choice([0, 0, 1, 1, 2])
  for _ in range(n):
    k = r.random()
    if k < 0.3 and depth < 2:
      d["body"].append(gen_fun(cx, depth + 1))
    elif k < 0.4 and depth < 2:
      d["body"].append(gen_class(cx, depth + 1, inner=True))
    elif k < 0.7:
      d["body"].append(gen_assign(cx, in_class=False))
    else:
      d["body"].append({"kind": "other", "text": r.choice(["pass", "print(1)", "x += 1", "del q"])})
  d["body"].append({"kind": "other", "text": r.choice(["return 1", "return None", "pass", "raise ValueError()", "return a"]) if not d["async"] else "return 1"})
  return d


def gen_assign(cx, in_class):
  r = cx.r
  k = r.random()
  v = r.choice(["1", "'s'", "[]", "{}", "None", "f()", "[1]", "(1, 2)"])
  var = r.choice(["x", "y", "z", "w"])
  if k < 0.45:
    return {"kind": "assign", "targets": [var], "value": v}
  if k < 0.55:
    return {"kind": "annassign", "target": var, "ann": cx.typ(), "value": v if r.random() < 0.7 else None}
  if k < 0.65:
    return {"kind": "assign", "targets": [var, r.choice(["x", "y", "u", "_"])], "value": v}      # x = y = v
  if k < 0.75:
    t = r.choice(["x, y", "(x, _)", "[y, z]", "x, *y", "x, (y, z)", "x, o.a", "x, d[0]"])
    return {"kind": "assign", "targets": [t], "value": "(1, 2)" if "*" not in t else "[1, 2, 3]"}
  if k < 0.85:
    return {"kind": "assign", "targets": [r.choice(["o.x", "A.x", "self.x", "o.p.q"])], "value": v}
  if k < 0.92:
    return {"kind": "assign", "targets": [r.choice(["d[0]", "x[1]", "o.x[2]"])], "value": v}
  return {"kind": "other", "text": r.choice(["x += 1", "y -= 1", "print(x)", "pass", "assert True", "del z",
                                            "from typing import w", "import x"])}


def gen_class(cx, depth, inner=False, name=None):
  r = cx.r
  if name is None:
    pool = [c for c in (cx.classes if not inner else ["Inner", "K", "Deep"]) if c not in cx.used_classes]
    name = r.choice(pool) if pool else cx.fresh("Cls")
  cx.used_classes.add(name)
  bases = r.choice([[], [], [], ["object"], ["Base"], ["Generic[T]"] if cx.tvs else [], ["List[int]"],
                    ["NamedTuple"], ["Protocol"], ["TypedDict"]])
  special = bases and bases[0] in ("NamedTuple", "Protocol", "TypedDict")
  d = {"kind": "class", "name": name, "bases": bases, "body": [],
       "kw": "" if special else r.choice(["", "", "", "metaclass=M"])}
  if special:      # typed fields first, like real NamedTuple / TypedDict / Protocol classes; then methods
    for f in r.sample(["x", "y", "z", "w"], r.randint(1, 2)):
      d["body"].append({"kind": "annassign", "target": f, "ann": cx.typ(), "value": None})
    d["body"].append(gen_fun(cx, depth + 1, method=True, name=r.choice(["m", "get", "f"])))
  n = r.randint(1, 4)
  for _ in range(n):
    k = r.random()
    if k < 0.45:
      d["body"].append(gen_fun(cx, depth + 1, method=True, name=r.choice(["m", "f", "get", "__init__", "x"])))
    elif k < 0.8:
      d["body"].append(gen_assign(cx, in_class=True))
    elif k < 0.88 and depth < 2:
      d["body"].append(gen_class(cx, depth + 1, inner=True))
    elif k < 0.95:
      d["body"].append(gen_block(cx, depth + 1, in_class=True))
    else:
      d["body"].append({"kind": "other", "text": "pass"})
  return d


def gen_block(cx, depth, in_class):
  r = cx.r
  kind = r.choice(["if", "ifelse", "try", "for", "with", "while"])
  def body():
    out = []
    for _ in range(r.randint(1, 2)):
      k = r.random()
      if k < 0.5:
        out.append(gen_assign(cx, in_class))
      elif k < 0.8:
        out.append(gen_fun(cx, depth + 1, method=in_class, name=r.choice(["f", "m", "g"])))
      elif depth < 2 and k < 0.9:
        out.append(gen_class(cx, depth + 1, inner=in_class))
      else:
        out.append({"kind": "other", "text": "pass"})
    return out
  nb = {"if": 1, "ifelse": 2, "try": 3, "for": 1, "with": 1, "while": 2}[kind]
  # the loop / with target re-binds one of the names the program also assigns
  return {"kind": "block", "type": kind, "bodies": [body() for _ in range(nb)],
          "var": r.choice(["i", "cm", "x", "y", "z", "w", "x, y"])}


def gen_program(r, size):
  cx = Ctx(r, size)
  prog = {"doc": r.random() < 0.25, "imports": [], "late_import": None, "items": [], "cx": cx}
  if r.random() < 0.5:
    prog["imports"].append(sorted(r.sample(TYPING_NAMES, r.randint(1, 4))))
    if r.random() < 0.15:
      prog["imports"].append(sorted(r.sample(TYPING_NAMES, 1)))
  if cx.tvs and not any("TypeVar" in i for i in prog["imports"]):
    prog["imports"].append(["TypeVar"])
  items = []
  if cx.tvs and r.random() < 0.7:
    items.append({"kind": "assign", "targets": ["T"], "value": "TypeVar('T')"})
  for _ in range(r.randint(1, size)):
    k = r.random()
    if k < 0.3:
      items.append(gen_fun(cx, 0))
    elif k < 0.5:
      items.append(gen_class(cx, 0))
    elif k < 0.85:
      items.append(gen_assign(cx, in_class=False))
    elif k < 0.95:
      items.append(gen_block(cx, 0, in_class=False))
    else:
      items.append({"kind": "import", "names": sorted(r.sample(TYPING_NAMES, r.randint(1, 2)))})
  prog["items"] = items
  # dotted names of nested classes (Outer.Inner) for later annotation picks in the STUB
  def nested(items, chain):
    for it in items:
      if it["kind"] == "class":
        if chain:
          cx.dotted.append(".".join(chain + [it["name"]]))
        nested(it["body"], chain + [it["name"]])
      elif it["kind"] == "block":
        for b in it["bodies"]:
          nested(b, chain)
  nested(items, [])
  return prog


# ---------------------------------------------------------------------------------------------
# rendering

def _param_text(p, star=""):
  s = star + p["name"]
  if p.get("ann") is not None:
    s += ": " + p["ann"]
  if p.get("default") is not None:
    s += (" = " if p.get("ann") is not None else "=") + p["default"]
  return s


def params_text(ps):
  parts = []
  if ps["posonly"]:
    parts += [_param_text(p) for p in ps["posonly"]] + ["/"]
  parts += [_param_text(p) for p in ps["pos"]]
  if ps["star"] is not None:
    parts.append(_param_text(ps["star"], "*"))
  elif ps["kwonly"]:
    parts.append("*")
  parts += [_param_text(p) for p in ps["kwonly"]]
  if ps["kwstar"] is not None:
    parts.append(_param_text(ps["kwstar"], "**"))
  return ", ".join(parts)


def render_items(items, ind, out, stub=False):
  pad = "  " * ind
  if not items:
    out.append(pad + ("..." if stub else "pass"))
  for it in items:
    k = it["kind"]
    if k == "fun":
      for d in it["deco"]:
        out.append(pad + "@" + d)
      head = "%sdef %s(%s)%s:" % ("async " if it["async"] else "", it["name"], params_text(it["params"]),
                                 " -> " + it["ret"] if it["ret"] is not None else "")
      if stub:
        out.append(pad + head + " ...")
      else:
        out.append(pad + head)
        render_items(it["body"], ind + 1, out)
    elif k == "class":
      args = list(it["bases"]) + ([it["kw"]] if it.get("kw") else [])
      out.append(pad + "class %s%s:" % (it["name"], "(" + ", ".join(args) + ")" if args else ""))
      render_items(it["body"], ind + 1, out, stub)
    elif k == "assign":
      out.append(pad + " = ".join(it["targets"]) + " = " + it["value"])
    elif k == "annassign":
      out.append(pad + "%s: %s%s" % (it["target"], it["ann"], " = " + it["value"] if it["value"] is not None else ""))
    elif k == "other":
      out.append(pad + it["text"])
    elif k == "import":
      out.append(pad + "from typing import " + ", ".join(it["names"]))
    elif k == "block":
      t = it["type"]
      v = it.get("var", "i")
      heads = {"if": ["if cond:"], "ifelse": ["if cond:", "else:"], "try": ["try:", "except Exception:", "finally:"],
               "for": ["for %s in range(3):" % v], "with": ["with ctx() as %s:" % v],
               "while": ["while cond:", "else:"]}[t]
      for h, b in zip(heads, it["bodies"]):
        out.append(pad + h)
        render_items(b, ind + 1, out, stub)


def render_program(prog):
  out = []
  if prog["doc"]:
    out.append('"""Module docstring."""')
  for names in prog["imports"]:
    out.append("from typing import " + ", ".join(names))
  render_items(prog["items"], 0, out)
  return "\n".join(out) + "\n"


# ---------------------------------------------------------------------------------------------
# stubs for the same definitions

def stub_for(r, prog, mode):
  """mode: 'full' (annotate most things), 'sparse', 'adversarial' (conflicts, duplicates, shape changes)."""
  cx = prog["cx"]
  adv = mode == "adversarial"
  dens = {"full": 0.85, "sparse": 0.4, "adversarial": 0.7}[mode]

  def ann(existing=None):
    if existing is not None and r.random() < (0.6 if adv else 0.9):
      return existing
    return cx.typ()

  def stub_params(ps):
    def Q(p, keep_name=True):
      a = ann(p["ann"]) if (r.random() < dens or p["ann"] is not None and r.random() < 0.5) else None
      name = p["name"] if keep_name or r.random() < 0.8 else p["name"] + "_"
      return {"name": name, "ann": a, "default": "..." if p["default"] is not None else None}
    q = {"posonly": [Q(p, False) for p in ps["posonly"]], "pos": [Q(p, False) for p in ps["pos"]],
         "star": None if ps["star"] is None else Q(ps["star"]),
         "kwonly": [Q(p) for p in ps["kwonly"]], "kwstar": None if ps["kwstar"] is None else Q(ps["kwstar"])}
    if q["pos"] and q["pos"][0]["name"] == "self":
      q["pos"][0]["ann"] = None
    if adv and r.random() < 0.12:          # change the signature shape: the stub must then be ignored
      c = r.random()
      if c < 0.4:
        q["pos"].append({"name": "extra", "ann": "int",
                         "default": "..." if any(x["default"] for x in q["posonly"] + q["pos"]) else None})
      elif c < 0.6 and q["kwonly"]:
        q["kwonly"][0]["name"] += "x"
      elif c < 0.8 and q["star"] is None and not q["kwonly"]:
        q["star"] = {"name": "args", "ann": None, "default": None}
      elif q["pos"]:
        q["pos"].pop()
    if r.random() < 0.3:
      r.shuffle(q["kwonly"])
    return q

  def walk(items, in_class):
    out = []
    seen_vars = set()
    for it in items:
      k = it["kind"]
      if k == "fun":
        if r.random() < dens + 0.1:
          reps = 2 if adv and r.random() < 0.1 else 1
          for _ in range(reps):
            out.append({"kind": "fun", "name": it["name"], "params": stub_params(it["params"]),
                        "ret": ann(it["ret"]) if r.random() < dens or it["ret"] is not None else None,
                        "deco": [d for d in it["deco"] if d in ("staticmethod", "property")] + (["overload"] if reps == 2 else []),
                        "async": it["async"], "body": []})
      elif k == "class":
        if r.random() < 0.9:
          bases = list(it["bases"])
          out.append({"kind": "class", "name": it["name"], "bases": [b for b in bases if b != "Base"] or [],
                      "kw": "", "body": walk(it["body"], True)})
      elif k == "assign":
        for t in it["targets"]:
          for nm in re.findall(r"[A-Za-z_][A-Za-z_0-9.]*", t):
            if "." in nm or nm == "_" or nm in seen_vars:
              continue
            if it["value"].startswith("TypeVar"):
              continue
            if r.random() < dens:
              seen_vars.add(nm)
              out.append({"kind": "annassign", "target": nm, "ann": ann(),
                          "value": "..." if r.random() < 0.2 else None})
      elif k == "annassign":
        if it["target"] not in seen_vars and r.random() < dens:
          seen_vars.add(it["target"])
          out.append({"kind": "annassign", "target": it["target"], "ann": ann(it["ann"]), "value": None})
      elif k == "block":
        for b in it["bodies"]:
          sub = walk(b, in_class)
          if adv and r.random() < 0.3 and sub:
            out.append({"kind": "block", "type": "if", "bodies": [sub]})
          else:
            out += sub
    if adv and r.random() < 0.3:
      r.shuffle(out)
    return out

  items = walk(prog["items"], False)
  body = []
  render_items(items, 0, body, stub=True)
  text = "\n".join(body) + "\n"
  used = [n for n in TYPING_NAMES if re.search(r"\b%s\b" % n, text)]
  head = []
  tv_needed = bool(cx.tvs) and re.search(r"\bT\b", text)
  if tv_needed and "TypeVar" not in used:
    used.append("TypeVar")
  if used:
    head.append("from typing import " + ", ".join(sorted(used)))
  if tv_needed:
    head.append("T = TypeVar('T')")
  return "\n".join(head + [""] + body) + "\n"
