"""C15 worker: runs source texts through the real pytype.io entry points, one JSON job per stdin line.

  python c15_worker.py <workdir>

job    : {"id": .., "src": str, "check": bool, "nofail": bool, "entry": "cogp" | "gen"}
result : {"id": .., "status": "ok" | "raise" | "print-raise", "errors": [[name, line, endline, has_filename, excerpt_ok]],
          "pyi_default": bool, "exc": str, "msg": str, "frames": [[file, func, lineno]...], "pytype_frame": "file:func",
          "t": seconds}
"cogp" = io.check_or_generate_pyi(options) on a file holding the text; "gen" = io.generate_pyi(src, options).
The parent enforces the per-file timeout by killing this process.
"""
import json
import os
import sys
import time
import traceback


GENERIC = {"convert.py", "abstract/abstract_utils.py", "utils.py", "datatypes.py", "abstract/mixin.py"}


def pytype_frame(tb_list, repo):
  """Innermost frame that belongs to pytype itself (not stdlib, not site-packages).  When that frame is in a
  general-purpose helper module, the nearest caller outside those modules is appended (`helper<caller`), so that
  two different defects that both end in e.g. convert.value_to_constant keep different fingerprints."""
  root = os.path.join(repo, "pytype") + os.sep
  inner = None
  for f in reversed(tb_list):
    if f.filename.startswith(root):
      rel = os.path.relpath(f.filename, root)
      if inner is None:
        inner = rel + ":" + f.name
        if rel not in GENERIC:
          return inner
      elif rel not in GENERIC:
        return inner + "<" + rel + ":" + f.name
  return inner or "<none>"


def install_monitor():
  """Records, for the file under analysis, the range of opcode lines of its compiled code ("ops": [count, min, max])
  and of the director's function-range ends ("fr": [count, min, max]): the monitored hypotheses of the C15 theorem
  logged_line_in_file.  Observes only; the wrapped functions' results are passed on unchanged."""
  from pytype import vm as vm_mod
  from pytype.directors import directors
  mon = {}
  orig_compile = vm_mod.VirtualMachine.compile_src

  def compile_src(self, src, filename=None, mode="exec", store_blockgraph=False):
    code = orig_compile(self, src, filename=filename, mode=mode, store_blockgraph=store_blockgraph)
    if store_blockgraph:          # the file itself (run_program), not an annotation string evaluated later
      n, lo, hi, zero = 0, None, None, set()
      todo = [code]
      while todo:
        c = todo.pop()
        for block in c.order:
          for op in block:
            l = op.line or 0
            n += 1
            if l == 0:
              zero.add(op.name)       # CPython gives the prologue opcodes (RESUME, ...) line 0
              continue
            lo = l if lo is None else min(lo, l)
            hi = l if hi is None else max(hi, l)
        todo.extend(k for k in c.consts if hasattr(k, "order"))
      mon["ops"] = [n, lo, hi, sorted(zero)]
    return code
  vm_mod.VirtualMachine.compile_src = compile_src
  orig_init = directors.Director.__init__

  def init(self, *a, **k):
    orig_init(self, *a, **k)
    ends = list(self._function_ranges._start_to_end.values())  # pylint: disable=protected-access
    mon["fr"] = [len(ends), min(ends), max(ends)] if ends else [0, None, None]
  directors.Director.__init__ = init
  return mon


def main():
  workdir = sys.argv[1]
  os.makedirs(workdir, exist_ok=True)
  import common
  common.bootstrap_pytype()
  from pytype import config, io, utils
  from pytype.imports import builtin_stubs
  # everything pytype logs goes nowhere; stdout is the result channel
  import logging
  logging.disable(logging.CRITICAL)
  mon = install_monitor()
  out = sys.stdout
  sys.stdout = open(os.devnull, "w")
  out.write(json.dumps({"ready": True}) + "\n")
  out.flush()
  path = os.path.join(workdir, "input.py")
  for line in sys.stdin:
    job = json.loads(line)
    src = job["src"]
    res = {"id": job["id"]}
    mon.clear()
    t0 = time.time()
    try:
      with open(path, "w", encoding="utf8", newline="") as f:
        f.write(src)
      # what pytype itself will read back (universal newlines)
      with open(path, "r", encoding="utf8") as f:
        seen = f.read()
      check = bool(job.get("check"))
      opts = config.Options.create(path, check=check, nofail=bool(job.get("nofail")),
                                   python_version=(3, 12), output=None if check else "-")
      try:
        if job.get("entry") == "gen":
          ret, pyi = io.generate_pyi(seen, opts)
          errorlog = ret.context.errorlog
        else:
          r = io.check_or_generate_pyi(opts)
          errorlog, pyi = r.context.errorlog, r.pyi
      except BaseException as e:  # pylint: disable=broad-except
        if isinstance(e, KeyboardInterrupt):
          raise
        tb = traceback.extract_tb(e.__traceback__)
        res.update(status="raise", exc=type(e).__name__, msg=str(e)[:400],
                   mro=[c.__name__ for c in type(e).__mro__],
                   lineno=getattr(e, "lineno", getattr(e, "line", None)),
                   frames=[[os.path.basename(f.filename), f.name, f.lineno] for f in tb[-6:]],
                   pytype_frame=pytype_frame(tb, common.REPO))
      else:
        lines = seen.split("\n")
        errs = []
        for e in errorlog:
          ok = None
          # the excerpt the real renderer cuts out for this error vs the blamed source line
          if e._filename and e._line and seen:
            b = e._find_line_boundaries(e._line - 1)
            ok = (1 <= e._line <= len(lines)) and seen[b[0]:b[-1]] == lines[e._line - 1]
          errs.append([e.name, e._line, e._endline, bool(e._filename), ok, (e._message or "")[:120]])
        res.update(status="ok", errors=errs,
                   pyi_default=(pyi is not None and pyi.startswith(builtin_stubs.DEFAULT_SRC)),
                   has_pyi=pyi is not None)
        try:
          str(errorlog)           # what process_one_file prints (as_string + _visualize_failed_lines)
        except BaseException as e:  # pylint: disable=broad-except
          tb = traceback.extract_tb(e.__traceback__)
          res.update(status="print-raise", exc=type(e).__name__, msg=str(e)[:400],
                     frames=[[os.path.basename(f.filename), f.name, f.lineno] for f in tb[-6:]],
                     pytype_frame=pytype_frame(tb, common.REPO))
    except BaseException as e:  # harness-side trouble (e.g. unencodable text): reported, never hidden
      if isinstance(e, KeyboardInterrupt):
        raise
      res.update(status="harness-error", exc=type(e).__name__, msg=str(e)[:300])
    res.update(mon)
    res["t"] = round(time.time() - t0, 3)
    out.write(json.dumps(res) + "\n")
    out.flush()


if __name__ == "__main__":
  main()
