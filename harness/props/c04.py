"""C04 - analysis output is a pure function of the source and options.   (PARTIAL by nature)

Proof  : coq/Props/C04.v over coq/Canon/Model.v - CanonicalOrderingVisitor erases the order of everything it
         sorts (canonical_perm_invariant, canon_idempotent) and ErrorLog.unique_sorted_errors is sorted, unique,
         bounded and a function of the sequence of logged errors (errors_*).
Tie    : (1) tables read from the source on every run (which fields each Visit* sorts, visit_class_names,
         MAX_TRACEBACKS, TRACEBACK_MARKER) are compared with what the model encodes (fail-closed);
         (2) correspondence model vs real CanonicalOrderingVisitor on generated pytd units (plain and deep-shuffled)
         and on the trees the real pipeline hands to the visitor; model vs real ErrorLog on generated logs;
         (3) the theorems' hypotheses about implementation outputs (keys_separate, sets_normal, "the visitor
         reaches every sorted class") are MONITORED on every tree the real pipeline canonicalises.
Search : (declared as search, not proof) every generated program is analysed in subprocesses under several
         PYTHONHASHSEEDs x {fresh process, after unrelated analyses in the same process, reused loader}; pyi text,
         ordered error tuples and pickle bytes must be identical everywhere; any difference is a VIOLATION whose
         replay is (program, the two configurations).
"""
import collections
import json
import os
import subprocess
import threading
import time

import common
import c04_progs
import c04_units as U

HERE = os.path.dirname(os.path.abspath(__file__))
SCRATCH = os.path.join(common.BUILD, "c04")
HEADER = ("From Coq Require Import List String ZArith.\nFrom PV Require Import Canon.Model.\n"
          "Import ListNotations.\nOpen Scope string_scope.\n")


def violation_once(res, fingerprint, what, replay_obj):
  """At most one report per fingerprint and three overall (known findings are always forwarded)."""
  if fingerprint in res.known:
    return res.violation(fingerprint, what, replay_obj)
  if len(res.violations) >= 3 or any(v["fingerprint"] == fingerprint for v in res.violations):
    return False
  return res.violation(fingerprint, what, replay_obj)


# =============================================================================================
# (1) tables

def independent_reach():
  """Which pytd classes can have a sorted class (TypeDeclUnit/Class/Signature/UnionType) somewhere below them,
  computed from the msgspec field annotations - independently of base_visitor._GetAncestorMap."""
  import typing  # pylint: disable=import-outside-toplevel
  import msgspec  # pylint: disable=import-outside-toplevel
  from pytype.pytd import pytd  # pylint: disable=import-outside-toplevel
  classes = {n: c for n, c in vars(pytd).items()
             if isinstance(c, type) and issubclass(c, pytd.Node) and c not in (pytd.Node, pytd.Type)}

  def types_in(t, acc):
    if isinstance(t, str):
      t = classes.get(t, None)
    if isinstance(t, typing.ForwardRef):
      t = classes.get(t.__forward_arg__)
    if t is None or t is Ellipsis:
      return
    args = getattr(t, "__args__", None)
    if args:
      for a in args:
        types_in(a, acc)
      return
    if isinstance(t, type) and issubclass(t, pytd.Node):
      for c in classes.values():
        if issubclass(c, t):
          acc.add(c.__name__)

  succ = {}
  for n, c in classes.items():
    acc = set()
    if c is pytd.ClassType:
      succ[n] = acc          # IterChildren yields only `name`
      continue
    for f in msgspec.structs.fields(c):
      if f.name == "_name2item":
        continue
      types_in(f.type, acc)
    succ[n] = acc
  reach = {n: set(s) for n, s in succ.items()}
  changed = True
  while changed:
    changed = False
    for n in reach:
      new = set(reach[n])
      for m in list(reach[n]):
        new |= reach.get(m, set())
      if new != reach[n]:
        reach[n] = new
        changed = True
  need = {n for n in reach if (reach[n] | {n}) & set(U.SORTED_CLASSES)}
  return need


def tables(res):
  from pytype.errors import errors  # pylint: disable=import-outside-toplevel
  from pytype.pytd import pytd_visitors  # pylint: disable=import-outside-toplevel
  try:
    t = U.sorted_field_table()
    res.obligation("table:sorted-fields-of-CanonicalOrderingVisitor", t == U.MODEL_TABLE,
                   "source says %s\nmodel encodes %s" % (json.dumps(t, sort_keys=True), json.dumps(U.MODEL_TABLE, sort_keys=True)))
  except Exception as e:  # pylint: disable=broad-except
    res.obligation("table:sorted-fields-of-CanonicalOrderingVisitor", False, "translator failed closed: %s" % e)
  v = pytd_visitors.CanonicalOrderingVisitor()
  names = sorted(v.visit_class_names) if not isinstance(v.visit_class_names, type(None)) and hasattr(v.visit_class_names, "__iter__") else None
  res.obligation("table:visit_class_names", names == U.MODEL_VISIT_CLASS_NAMES, "real: %s" % (names,))
  fns = (sorted(k for k in v.visit_functions if k), sorted(k for k in v.enter_functions if k),
         sorted(k for k in v.leave_functions if k))
  res.obligation("table:visitor-callbacks", fns == (sorted(U.SORTED_CLASSES), [], []), repr(fns))
  try:
    need = independent_reach()
    missing = sorted(need - set(names or []))
    res.obligation("table:visitor-reaches-every-sorted-class", not missing,
                   "classes with a sorted class below them that _VisitNode would skip: %s" % missing)
  except Exception as e:  # pylint: disable=broad-except
    res.obligation("table:visitor-reaches-every-sorted-class", False, "schema walk failed: %s" % e)
  res.obligation("table:MAX_TRACEBACKS", errors.MAX_TRACEBACKS == 3, "real: %r" % (errors.MAX_TRACEBACKS,))
  res.obligation("table:TRACEBACK_MARKER", errors.TRACEBACK_MARKER == "Called from (traceback):", repr(errors.TRACEBACK_MARKER))
  dig = U.preserve_src_digest()
  drift = sorted(k for k in dig if U.VALIDATED_DIGESTS.get(k) != dig[k])
  res.extra["source_digests"] = dig
  res.extra["drifted_since_validation"] = drift
  return bool(drift)


# =============================================================================================
# (2a) canon correspondence on generated units

def gen_unit(seed, i):
  r = common.rng(seed, "c04-unit", i)
  g = U.Gen(r, tie=r.choice([0.05, 0.25, 0.5]), size=r.choice([0.2, 0.4, 0.8]))
  u = g.unit()
  if r.random() < 0.2:
    u = add_tie(r, u)
  return r, u


def add_tie(r, u):
  """Deliberately violates keys_separate: siblings with equal sort keys that are not equal."""
  from pytype.pytd import pytd  # pylint: disable=import-outside-toplevel
  def cls(v):
    return pytd.Class(name="A", keywords=(), bases=(), methods=(), constants=(pytd.Constant(name="v", type=pytd.NamedType(v)),),
                      classes=(), decorators=(), slots=None, template=())
  k = r.random()
  if k < 0.5:
    # two constants `x: A` whose ClassType points at two different classes both called A
    extra = (pytd.Constant(name="tie", type=pytd.ClassType("A", cls("int"))),
             pytd.Constant(name="tie", type=pytd.ClassType("A", cls("str"))))
    return u.Replace(constants=u.constants + extra)
  # ClassType('q', cls named A) and ClassType('A', same cls): str() is cls.name for both
  c = cls("int")
  extra = (pytd.Constant(name="tie", type=pytd.ClassType("q", c)), pytd.Constant(name="tie", type=pytd.ClassType("A", c)))
  return u.Replace(constants=u.constants + extra)


def canon_impl(x):
  from pytype.pytd import pytd_visitors  # pylint: disable=import-outside-toplevel
  return x.Visit(pytd_visitors.CanonicalOrderingVisitor())


def canon_cases(res, seed, n, names):
  """Returns list of case dicts (implementation side evaluated; direct oracles applied)."""
  cases = []
  hist = collections.Counter()
  for i in range(n):
    r, u = gen_unit(seed, i)
    u2 = U.deep_shuffle(r, u)
    c, c2 = canon_impl(u), canon_impl(u2)
    pu, pu2, pc, pc2 = U.proj(u), U.proj(u2), U.proj(c), U.proj(c2)
    probs, st = U.monitor(u, c, names)
    sep = not any(p[0] in ("keys-not-separate", "eq-not-separated", "set-not-flat", "set-not-normal") for p in probs)
    other = [p for p in probs if p[0] in ("unreached-sorted-class", "not-canonical", "unsortable-item")]
    # the python mirror of the model's repr agrees with the real repr (validates `proj`)
    if U.prepr(U.proj(c, True)) != repr(c):
      res.obligation("correspondence:projection-repr", False, "prepr(proj(x)) != repr(x) for generated unit %d" % i)
    # ---- direct oracles on the implementation (independent of the model)
    if sep and pc != pc2:
      violation_once(res, "canon-not-permutation-invariant",
                    "CanonicalOrderingVisitor gives different units for two deep permutations of one unit whose sort keys separate siblings",
                    {"kind": "canon", "seed": seed, "index": i, "canon": repr(c)[:3000], "canon_of_shuffled": repr(c2)[:3000]})
    again = canon_impl(c)
    if U.proj(again) != pc:
      violation_once(res, "canon-not-idempotent", "CanonicalOrderingVisitor is not idempotent on a generated unit",
                    {"kind": "canon", "seed": seed, "index": i, "canon": repr(c)[:3000], "again": repr(again)[:3000]})
    if other:
      violation_once(res, "canon-output-not-sorted:" + other[0][0], "output of CanonicalOrderingVisitor: %s at %s" % (other[0][0], other[0][1]),
                    {"kind": "canon", "seed": seed, "index": i, "problem": list(other[0])})
    nontrivial = pu != pc or pu2 != pc2
    hist["changed-by-canon" if pu != pc else "already-canonical"] += 1
    hist["shuffle-changed" if pu != pu2 else "shuffle-noop"] += 1
    hist["keys-separate" if sep else "keys-NOT-separate"] += 1
    hist["nodes<=50" if st["nodes"] <= 50 else "nodes<=150" if st["nodes"] <= 150 else "nodes>150"] += 1
    hist["key_equal_pairs"] += st["key_equal_pairs"]
    hist["sibling_pairs"] += st["sibling_pairs"]
    res.count(("unit", repr(u)) if nontrivial else None)
    if len(res.samples) < 2 and nontrivial and st["nodes"] <= 25:
      res.sample({"unit": repr(u)[:600], "canonical": repr(c)[:600]})
    cases.append({"name": "gen%d" % i, "trees": [pu, pc, pu2, pc2], "sep": sep, "perm_equal": pc == pc2})
  res.extra["unit_histogram"] = dict(hist)
  return cases


def canon_cases_v(cases):
  st = U.StrTable()
  defs, checks = [], []
  for k, c in enumerate(cases):
    u, cc, u2, c2 = c["trees"]
    defs.append("Definition u%d : value := %s.\nDefinition c%d : value := %s." % (k, U.to_coq(u, st), k, U.to_coq(cc, st)))
    if u2 is not None:
      defs.append("Definition v%d : value := %s.\nDefinition d%d : value := %s." % (
          k, U.to_coq(u2, st), k, ("c%d" % k) if c2 == cc else U.to_coq(c2, st)))
      checks.append("(value_eqb (canon u%d) c%d, value_eqb (canon v%d) d%d, okb true u%d, okb false u%d)" % (k, k, k, k, k, k))
    else:
      checks.append("(value_eqb (canon u%d) c%d, true, okb true u%d, okb false u%d)" % (k, k, k, k))
  return HEADER + st.defs() + "\n" + "\n".join(defs) + "\nEval vm_compute in [" + ";\n".join(checks) + "].\n"


def cleanup_cases(names, results):
  """Case files are per-process (parallel checks must not clobber each other); keep only failing ones."""
  d = os.path.join(common.BUILD, "cases")
  for n in names:
    ok = results.get(n, (False, ""))[0]
    for ext in (".v", ".vo", ".vok", ".vos", ".glob"):
      f = os.path.join(d, n + ext)
      if os.path.exists(f) and (ok or ext != ".v"):
        os.unlink(f)
    aux = os.path.join(d, "." + n + ".aux")
    if os.path.exists(aux):
      os.unlink(aux)


def parse_tuples(out):
  terms = common.parse_coq_eval(out)
  if not terms:
    return None
  body = terms[-1].strip()
  import re  # pylint: disable=import-outside-toplevel
  return [tuple(x.strip() == "true" for x in m.group(1).split(",")) for m in re.finditer(r"\(([^()]*)\)", body)]


def run_canon_model(res, cases, label, per_file):
  files = []
  for i in range(0, len(cases), per_file):
    files.append(("c04_%d_%s_%d" % (os.getpid(), label, i // per_file), canon_cases_v(cases[i:i + per_file]), cases[i:i + per_file]))
  results = common.run_cases_parallel([(n, b) for n, b, _ in files])
  cleanup_cases([n for n, _, _ in files], results)
  n_mis = n_hyp = n_run = 0
  first = ""
  for name, _, cs in files:
    ok, out = results[name]
    tuples = parse_tuples(out) if ok else None
    if tuples is None or len(tuples) != len(cs):
      res.obligation("model-run:" + name, False, out[-1500:])
      n_mis += len(cs)
      continue
    for c, t in zip(cs, tuples):
      n_run += 1
      if not (t[0] and t[1]):
        n_mis += 1
        first = first or "%s: model canon differs from CanonicalOrderingVisitor (plain=%s shuffled=%s)" % (c["name"], t[0], t[1])
      if c.get("sep") is not None and t[2] != c["sep"]:
        n_hyp += 1
        first = first or "%s: okb true = %s but python monitor says separate=%s" % (c["name"], t[2], c["sep"])
      if c.get("sep") and not t[3]:
        n_hyp += 1
  res.obligation("correspondence:canon-model-vs-CanonicalOrderingVisitor[%s]" % label, n_mis == 0,
                 "%d of %d trees disagree; %s" % (n_mis, n_run, first))
  res.obligation("correspondence:keys_separate-checker-vs-monitor[%s]" % label, n_hyp == 0,
                 "%d disagreements; %s" % (n_hyp, first))
  return n_run


# =============================================================================================
# (2b) real pipeline trees through the model + hypothesis monitor, in-process

def pipeline_trees(res, seed, n_progs, names):
  from pytype import config, io  # pylint: disable=import-outside-toplevel
  from pytype import utils  # pylint: disable=import-outside-toplevel
  from pytype.pytd import pytd, pytd_utils  # pylint: disable=import-outside-toplevel
  captured = []
  orig = pytd_utils.CanonicalOrdering

  def hooked(n):
    out = orig(n)
    # project at capture time: lookup caches (_name2item) of `out` are filled lazily later and are part of repr/keys
    captured.append((n, out, U.proj(n), U.proj(out), U.monitor(n, out, names)[0]))
    return out

  cases = []
  mon_problems = []
  n_mon = 0
  pytd_utils.CanonicalOrdering = hooked
  try:
    for i in range(n_progs):
      r = common.rng(seed, "c04-pipe", i)
      src, _ = c04_progs.gen_program(r, 1)
      del captured[:]
      try:
        io.generate_pyi(src, config.Options.create("prog.py", python_version=(3, 12), module_name="prog", typeshed=False))
      except utils.UsageError:
        continue
      except Exception:  # pylint: disable=broad-except
        continue
      units = [c for c in captured if isinstance(c[0], pytd.TypeDeclUnit)]
      small = [c for c in captured if not isinstance(c[0], pytd.TypeDeclUnit)]
      for inp, outp, pi, po, probs in units[-1:] + small[:3]:
        n_mon += 1
        mon_problems += [(i,) + p for p in probs]
        pytd_utils.CanonicalOrdering = orig
        try:
          inp2 = U.deep_shuffle(r, inp)
          out2 = canon_impl(inp2)
        finally:
          pytd_utils.CanonicalOrdering = hooked
        pi2, po2 = U.proj(inp2), U.proj(out2)
        if not probs and po != po2:
          violation_once(res, "canon-not-permutation-invariant:pipeline-tree",
                        "a tree emitted by the real pipeline canonicalises differently after a deep shuffle",
                        {"kind": "pipeline-tree", "program": src, "canon": repr(outp)[:3000], "canon_of_shuffled": repr(out2)[:3000]})
        cases.append({"name": "pipe%d" % i, "trees": [pi, po, pi2, po2], "sep": not probs, "perm_equal": po == po2})
        res.count(("pipe", repr(inp)) if pi != po or pi2 != po else None)
  finally:
    pytd_utils.CanonicalOrdering = orig
  res.obligation("monitor:hypotheses-on-pipeline-trees(in-process)", not mon_problems,
                 "%d problems on %d trees; first: %s" % (len(mon_problems), n_mon, mon_problems[:2]))
  return cases


# =============================================================================================
# (2c) unique_sorted_errors

MARKER = "Called from (traceback):"
TB_POOL = [None, None, None, "",
           MARKER + "\n  line 2, in f",
           MARKER + "\n  line 1, in current file\n  line 2, in f",
           MARKER + "\n  line 9, in g\n  line 1, in current file\n  line 2, in f",
           MARKER + "\n  line 7, in h",
           MARKER + "\n  line 3, in current file\n  line 7, in h",
           MARKER + "\n  line 1, in current file\n  ...\n  line 7, in h",
           MARKER + "\n  line 12, in f",        # '2, in f' is NOT a suffix-match of 'line 12, in f' line-wise but IS string-wise
           MARKER + "\n  line 4, in k",
           MARKER + "\n  line 5, in k",
           MARKER + "\n  line 6, in k",
           MARKER + "\n  line 8, in k",
           "in k", "short", "x" * 30 + "\n  line 2, in f"]


def gen_error_fields(r):
  n = r.choice([0, 1, 2, 3, 4, 6, 8, 12, 20, 30])
  style = r.random()
  if style < 0.5:      # dense: (almost) one unique representation, the traceback logic does all the work
    files, lines, cols, meths = [r.choice(["a.py", None])], r.choice([[2], [2, 2, 3], [0]]), [0], ["f"]
    msgs, dets, names = ["m"], [None] if r.random() < 0.7 else [None, "d"], ["attribute-error"]
  elif style < 0.8:    # medium
    files, lines, cols, meths = ["a.py", "b.py"], [1, 2, 2, 3], [0, 0, 4], [None, "f"]
    msgs, dets, names = ["m0", "m1"], [None, None, "d1"], ["attribute-error", "name-error"]
  else:                # sparse / odd values
    files = r.choice([[None], ["a.py", "b.py", None, ""], ["a.py", "a.py:1", "a"]])
    lines, cols, meths = [0, 0, 1, 2, 3, 5, 10, 11], [0, 1, 4], [None, "", "f", "<module>"]
    msgs, dets, names = ["m0", "m1", "m2"], [None, "", "d1", "d2\nmore"], ["attribute-error", "name-error"]
  out = []
  for _ in range(n):
    out.append({
        "filename": r.choice(files), "line": r.choice(lines), "col": r.choice(cols),
        "methodname": r.choice(meths), "message": r.choice(msgs),
        "details": r.choice(dets), "name": r.choice(names),
        "traceback": r.choice(TB_POOL)})
  return out


def run_error_impl(fields):
  from pytype.errors import errors  # pylint: disable=import-outside-toplevel
  log = errors.ErrorLog("")
  objs = []
  for f in fields:
    e = errors.Error.for_test(errors.SEVERITY_ERROR, f["message"], f["name"], filename=f["filename"], line=f["line"],
                              col=f["col"], methodname=f["methodname"], details=f["details"], traceback=f["traceback"])
    log._add(e)  # pylint: disable=protected-access
    objs.append(e)
  idx = {id(e): i for i, e in enumerate(objs)}
  out = log.unique_sorted_errors()
  return [idx[id(e)] for e in out]


def error_oracle(fields, out):
  """The property statement, decided independently of errors.py, on the implementation's answer."""
  problems = []
  key = lambda f: ((f["filename"] or ""), f["line"])
  ks = [key(fields[i]) for i in out]
  if any(b < a for a, b in zip(ks, ks[1:])):
    problems.append("not-sorted")
  if len(set(out)) != len(out) or any(i < 0 or i >= len(fields) for i in out):
    problems.append("not-a-sublist-of-the-log")
  strip = lambda t: t[len(MARKER):] if t else ""
  def posrep(f):
    # what _position() can distinguish
    if f["filename"]:
      pos = ("F", f["filename"], f["line"], f["col"], f["methodname"] or "")
    elif f["line"]:
      pos = ("L", f["line"], f["col"], f["methodname"] or "")
    else:
      pos = ("N",)
    return (pos, f["message"], f["details"], f["name"])
  groups = collections.defaultdict(list)
  for i in out:
    groups[posrep(fields[i])].append(fields[i]["traceback"])
  for k, tbs in groups.items():
    if len(tbs) > 3:
      problems.append("more-than-MAX_TRACEBACKS")
    for a in range(len(tbs)):
      for b in range(a + 1, len(tbs)):
        x, y = tbs[a], tbs[b]
        if x == y or strip(x).endswith(strip(y)) or strip(y).endswith(strip(x)):
          problems.append("not-unique")
  logged = {posrep(f) for f in fields}
  if logged != set(groups):
    problems.append("an-error-vanished-entirely")
  return sorted(set(problems))


def err_to_coq(f, st):
  opt = lambda s: "None" if s is None else "(Some %s)" % st.ref(s)
  return "(mkError %s (%d)%%Z (%d)%%Z %s %s %s %s %s)" % (
      opt(f["filename"]), f["line"], f["col"], opt(f["methodname"]), st.ref(f["message"]), opt(f["details"]),
      st.ref(f["name"]), opt(f["traceback"]))


def errors_v(cases):
  st = U.StrTable()
  lines = []
  for k, (fields, out) in enumerate(cases):
    xs = "[" + "; ".join("(%d%%N, %s)" % (i, err_to_coq(f, st)) for i, f in enumerate(fields)) + "]"
    exp = "[" + "; ".join("%d%%N" % i for i in out) + "]"
    lines.append("Definition x%d : list (N * error) := %s.\nDefinition o%d : list N := %s." % (k, xs, k, exp))
  chk = ";\n".join("(leq (map fst (unique_sorted_on snd x%d)) o%d, true)" % (k, k) for k in range(len(cases)))
  leq = ("From Coq Require Import NArith.\nFixpoint leq (a b : list N) : bool := match a, b with [], [] => true | x :: s, y :: t => "
         "N.eqb x y && leq s t | _, _ => false end.\n")
  return HEADER + leq + st.defs() + "\n" + "\n".join(lines) + "\nEval vm_compute in [" + chk + "].\n"


def errors_correspondence(res, seed, n, per_file):
  cases = []
  hist = collections.Counter()
  cdir = os.path.join(common.CORPUS, "C04")
  corpus = []
  for f in sorted(os.listdir(cdir)) if os.path.isdir(cdir) else []:
    d = json.load(open(os.path.join(cdir, f)))
    if d.get("kind") == "errors":
      corpus.append(d["fields"])
  for i in range(n + len(corpus)):
    fields = corpus[i] if i < len(corpus) else gen_error_fields(common.rng(seed, "c04-err", i))
    out = run_error_impl(fields)
    probs = error_oracle(fields, out)
    if probs:
      violation_once(res, "errors-report:" + probs[0],
                    "ErrorLog.unique_sorted_errors violates 'reported errors are unique and sorted by position': %s" % probs,
                    {"kind": "errors", "fields": fields, "reported_indices": out, "problems": probs})
    dropped = len(fields) - len(out)
    hist["n=0" if not fields else "n<=3" if len(fields) <= 3 else "n<=12" if len(fields) <= 12 else "n>12"] += 1
    hist["some-dropped" if dropped else "none-dropped"] += 1
    multi = collections.Counter()
    for j in out:
      multi[(fields[j]["filename"], fields[j]["line"], fields[j]["col"], fields[j]["methodname"] or "", fields[j]["message"],
             fields[j]["details"], fields[j]["name"])] += 1
    if any(v >= 2 for v in multi.values()):
      hist["several-tracebacks-kept"] += 1
    if any(v >= 3 for v in multi.values()):
      hist["MAX_TRACEBACKS-reached"] += 1
    res.count(("errors", json.dumps(fields, sort_keys=True)) if len(fields) >= 2 else None)
    cases.append((fields, out))
  if cases and len(res.samples) < 4:
    for fields, out in cases:
      if 3 <= len(fields) <= 5 and len(out) < len(fields):
        res.sample({"logged": [(f["filename"], f["line"], f["message"], f["traceback"]) for f in fields], "reported_indices": out})
        break
  files = [("c04_%d_err_%d" % (os.getpid(), i // per_file), errors_v(cases[i:i + per_file]), cases[i:i + per_file])
           for i in range(0, len(cases), per_file)]
  results = common.run_cases_parallel([(n_, b) for n_, b, _ in files])
  cleanup_cases([n_ for n_, _, _ in files], results)
  n_mis = 0
  first = ""
  for name, _, cs in files:
    ok, out = results[name]
    tuples = parse_tuples(out) if ok else None
    if tuples is None or len(tuples) != len(cs):
      res.obligation("model-run:" + name, False, out[-1500:])
      n_mis += len(cs)
      continue
    for (fields, o), t in zip(cs, tuples):
      if not t[0]:
        n_mis += 1
        first = first or "log=%s impl=%s" % (json.dumps(fields)[:600], o)
  res.obligation("correspondence:errors-model-vs-ErrorLog.unique_sorted_errors", n_mis == 0,
                 "%d of %d logs disagree; first: %s" % (n_mis, len(cases), first))
  res.extra["error_log_histogram"] = dict(hist)
  return len(cases)


# =============================================================================================
# (3) the search: subprocess differential

JOB_TIMEOUT_S = 2400


def run_jobs(jobs, max_par):
  """jobs: list of dict(name, hashseed, job).  Returns {name: {prog_id: result}} and stderr tails."""
  os.makedirs(SCRATCH, exist_ok=True)
  pending = list(jobs)
  running = {}
  started = {}
  out = {}
  errs = {}
  while pending or running:
    while pending and len(running) < max_par:
      j = pending.pop(0)
      path = os.path.join(SCRATCH, "job_%d_%s.json" % (os.getpid(), j["name"]))
      jj = dict(j["job"])
      jj["scratch"] = SCRATCH
      with open(path, "w") as f:
        json.dump(jj, f)
      # stdout/stderr go to files: a batch prints more than a pipe buffer holds
      fo, fe = open(path + ".out", "w"), open(path + ".err", "w")
      running[j["name"]] = subprocess.Popen([common.PY, os.path.join(HERE, "c04_runner.py"), path],
                                            env=common.impl_env(hashseed=j["hashseed"]), stdout=fo, stderr=fe, text=True)
      fo.close()
      fe.close()
      started[j["name"]] = time.time()
    for n, p in running.items():
      if p.poll() is None and time.time() - started[n] > JOB_TIMEOUT_S:
        p.kill()          # reported through the non-zero return code ("runner-processes-completed")
    done = [n for n, p in running.items() if p.poll() is not None]
    if not done:
      time.sleep(0.05)
      continue
    for n in done:
      p = running.pop(n)
      p.wait()
      base = os.path.join(SCRATCH, "job_%d_%s.json" % (os.getpid(), n))
      with open(base + ".out") as f:
        so = f.read()
      with open(base + ".err") as f:
        se = f.read()
      rs = {}
      for line in so.split("\n"):
        if line.startswith("RESULT "):
          d = json.loads(line[7:])
          rs.setdefault(d["id"], []).append(d)
      out[n] = rs
      errs[n] = (p.returncode, se[-1500:])
      for ext in ("", ".out", ".err", ".pickled"):
        try:
          os.unlink(base + ext)
        except OSError:
          pass
  return out, errs


def make_configs(r, progs, sibs, thorough):
  """Histories.  Warm-up programs come from the same rich generator as the targets (they create NewTypes,
  NamedTuples, TypeVars, errors ...); `twice` analyses every file twice in a row with one loader; `siblings`
  analyses each target right after a different program that shares its identifiers."""
  ids = [p["id"] for p in progs]
  rev = list(reversed(ids))
  sh1 = list(ids); r.shuffle(sh1)
  sh2 = list(ids); r.shuffle(sh2)
  warm = [c04_progs.gen_unrelated(r) for _ in range(3)]
  half = ids if thorough else ids[: (len(ids) + 1) // 2]
  with_sib = [i for i in (ids if thorough else ids[len(ids) // 2:]) if i in sibs]
  twice = [x for i in half for x in (i, i)]
  sib_order = [x for i in with_sib for x in ("sib_" + i, i)]
  cfgs = [
      {"name": "ref-seed0-freshloader-forward", "hashseed": 0, "job": {"loader": "fresh", "order": ids, "warmup": []}},
      {"name": "seed1-reusedloader-forward", "hashseed": 1, "job": {"loader": "reused", "order": ids, "warmup": []}},
      {"name": "seed2-reusedloader-reversed-after1", "hashseed": 2, "job": {"loader": "reused", "order": rev, "warmup": warm[:1]}},
      {"name": "seed3-freshloader-shuffled-after3", "hashseed": 3, "job": {"loader": "fresh", "order": sh1, "warmup": warm}},
      {"name": "seed4-reusedloader-each-file-twice", "hashseed": 4, "job": {"loader": "reused", "order": twice, "warmup": []}},
      {"name": "seed5-freshloader-after-name-sharing-sibling", "hashseed": 5, "job": {"loader": "fresh", "order": sib_order, "warmup": []}},
  ]
  if thorough:
    cfgs.append({"name": "seed0-reusedloader-shuffled-after2", "hashseed": 0, "job": {"loader": "reused", "order": sh2, "warmup": warm[:2]}})
    cfgs.append({"name": "seed9-reusedloader-after-name-sharing-sibling", "hashseed": 9, "job": {"loader": "reused", "order": sib_order, "warmup": []}})
    for s_ in (6, 7, 8, 11, 12345):
      o = list(ids); r.shuffle(o)
      cfgs.append({"name": "seed%d-%sloader-shuffled" % (s_, "reused" if s_ % 2 else "fresh"), "hashseed": s_,
                   "job": {"loader": "reused" if s_ % 2 else "fresh", "order": o, "warmup": warm[: s_ % 4]}})
  sibprogs = [{"id": "sib_" + i, "src": sibs[i]} for i in with_sib]
  for c in cfgs:
    c["job"]["programs"] = progs + (sibprogs if "sibling" in c["name"] else [])
    c["job"]["full"] = False
  # fresh process per program (a subset in the quick tier)
  singles = ids[:80] if thorough else ids[: max(4, len(ids) // 4)]
  for s_ in ((6, 10) if thorough else (6,)):
    for pid in singles:
      cfgs.append({"name": "seed%d-freshprocess-%s" % (s_, pid), "hashseed": s_, "single": pid,
                   "job": {"loader": "fresh", "order": [pid], "warmup": [], "full": False,
                           "programs": [p for p in progs if p["id"] == pid]}})
  return cfgs


def describe(cfg):
  j = cfg["job"]
  return {"name": cfg["name"], "PYTHONHASHSEED": cfg["hashseed"], "loader": j["loader"], "order": j["order"],
          "n_warmup": len(j["warmup"]), "fresh_process": "single" in cfg}


def slim_job(cfg, pid, position=None):
  """The configuration, reduced to what is needed to replay program `pid` with the same history
  (`position`: index in the order of the occurrence of `pid` that is meant; default: the first)."""
  j = cfg["job"]
  if position is None:
    position = j["order"].index(pid)
  order = j["order"][: position + 1]
  return {"name": cfg["name"], "hashseed": cfg["hashseed"],
          "job": {"loader": j["loader"], "order": order, "warmup": j["warmup"], "full": True,
                  "programs": [p for p in j["programs"] if p["id"] in order]}}


def shrink_program(src, a, b, budget_s):
  """Time-bounded statement-level reduction, valid when the difference reproduces with the program alone in
  two fresh processes that differ only in PYTHONHASHSEED.  Returns (src, reproduced_alone)."""
  import ast  # pylint: disable=import-outside-toplevel
  t_end = time.time() + budget_s

  def differs(s):
    prog = [{"id": "p", "src": s}]
    jobs = [{"name": "shr_%s" % k, "hashseed": h, "job": {"loader": "fresh", "order": ["p"], "warmup": [], "programs": prog, "full": False}}
            for k, h in (("a", a), ("b", b))]
    out, _ = run_jobs(jobs, 2)
    ra, rb = (out.get("shr_a", {}).get("p") or [None])[0], (out.get("shr_b", {}).get("p") or [None])[0]
    return bool(ra and rb and any(ra.get(k) != rb.get(k) for k in ("pyi", "errors", "pickle")))

  if not differs(src):
    return src, False
  try:
    body = ast.parse(src).body
  except SyntaxError:
    return src, True
  src_lines = src.split("\n")

  def seg(n):      # whole statement incl. decorators (get_source_segment drops them)
    first = min([n.lineno] + [d.lineno for d in getattr(n, "decorator_list", [])])
    return "\n".join(src_lines[first - 1:n.end_lineno])
  stmts = [seg(n) for n in body]
  chunk = max(1, len(stmts) // 2)
  while chunk >= 1 and time.time() < t_end:
    i = 0
    progressed = False
    while i < len(stmts) and time.time() < t_end:
      cand = stmts[:i] + stmts[i + chunk:]
      s = "\n".join(cand) + "\n"
      if cand and differs(s):
        stmts = cand
        progressed = True
      else:
        i += chunk
    if not progressed:
      chunk //= 2
  return "\n".join(stmts) + "\n", True


def e2e(res, seed, n_progs, thorough, max_par):
  r = common.rng(seed, "c04-e2e")
  progs = []
  feats = collections.Counter()
  cdir = os.path.join(common.CORPUS, "C04")
  for f in sorted(os.listdir(cdir)) if os.path.isdir(cdir) else []:
    d = json.load(open(os.path.join(cdir, f)))
    if d.get("kind") == "program":
      progs.append({"id": "corpus_" + os.path.splitext(f)[0], "src": d["src"]})
  sibs = {}
  for i in range(n_progs):
    names_seed = "%s:%d" % (seed, i)
    src, fs = c04_progs.gen_program(common.rng(seed, "c04-prog", i), 1 if i % 3 else 2, names_seed)
    progs.append({"id": "p%d" % i, "src": src})
    # a different program over the same identifiers (class / function / NewType names)
    sibs["p%d" % i] = c04_progs.gen_program(common.rng(seed, "c04-sib", i), 1, names_seed)[0]
    feats.update(fs)
  cfgs = make_configs(r, progs, sibs, thorough)
  box = {}

  def work():
    t0 = time.time()
    box["out"], box["errs"] = run_jobs(cfgs, max_par)
    box["wall"] = round(time.time() - t0, 1)

  th = threading.Thread(target=work, daemon=True)
  th.start()
  return lambda: e2e_finish(res, th, box, progs, cfgs, feats)


def e2e_finish(res, th, box, progs, cfgs, feats):
  th.join()
  out, errs = box["out"], box["errs"]
  res.extra["e2e_wall_s"] = box["wall"]
  res.extra["e2e_configurations"] = [describe(c) if "single" not in c else c["name"] for c in cfgs][:16]
  res.extra["program_features"] = dict(feats)
  crashed = [(n, e) for n, e in errs.items() if e[0] != 0]
  res.obligation("e2e:runner-processes-completed", not crashed, json.dumps(crashed[:2])[:1500])
  ref = cfgs[0]
  refres = out.get(ref["name"], {})
  byname = {c["name"]: c for c in cfgs}
  n_cmp = n_diff = 0
  status = collections.Counter()
  err_hist = collections.Counter()
  mon_problems = []
  mon_stats = collections.Counter()
  oracle_problems = []
  diffs = []
  msg_feats = collections.Counter()
  stub_feats = collections.Counter()
  err_names = collections.Counter()
  for p in progs:
    a = (refres.get(p["id"]) or [None])[0]
    if a is None:
      res.obligation("e2e:reference-result:" + p["id"], False, "no result from reference configuration")
      continue
    status[a["status"]] += 1
    if a["status"] == "unexplorable":
      res.count(None)
      continue
    err_hist["errors=0" if not a.get("n_errors") else "errors<=5" if a["n_errors"] <= 5 else "errors<=20" if a["n_errors"] <= 20 else "errors>20"] += 1
    if a.get("n_logged", 0) > a.get("n_errors", 0):
      err_hist["log-had-duplicates"] += 1
    for k, v in (a.get("monitor_stats") or {}).items():
      mon_stats[k] += v
    for k, v in (a.get("msg_features") or {}).items():
      msg_feats[k] += 1 if v else 0
    for k, v in (a.get("stub_features") or {}).items():
      stub_feats[k] += 1 if v else 0
    err_names.update(a.get("error_names") or {})
    distinct = False
    for c in cfgs:
      bs = out.get(c["name"], {}).get(p["id"])
      if not bs:
        if p["id"] in c["job"]["order"]:
          res.obligation("e2e:result:%s:%s" % (c["name"], p["id"]), False, "no result; stderr: %s" % (errs.get(c["name"]),))
        continue
      for b in bs:
        for m in b.get("monitor") or []:
          mon_problems.append((p["id"], c["name"], m))
        for o in b.get("oracle") or []:
          oracle_problems.append((p["id"], c["name"], o))
        if c is ref:
          continue
        n_cmp += 1
        which = [k for k in ("status", "pyi", "errors", "pickle") if a.get(k) != b.get(k)]
        if which:
          n_diff += 1
          diffs.append((p, c, which, b.get("position")))
        distinct = True
    res.count(("prog", p["src"]) if distinct else None)
  # report the differences with the shortest histories first (smallest replay)
  hist_len = lambda d: len(slim_job(ref, d[0]["id"])["job"]["order"]) + len(slim_job(d[1], d[0]["id"], d[3])["job"]["order"]) \
      + len(d[1]["job"]["warmup"])
  for p, c, which, pos in sorted(diffs, key=hist_len):
    report_difference(res, p, ref, c, which, pos)
  res.extra["error_message_surface(programs_with)"] = dict(msg_feats)
  res.extra["stub_surface(programs_with)"] = dict(stub_feats)
  res.extra["error_classes_reported"] = dict(err_names)
  for pid, cname, o in oracle_problems[:3]:
    p = next(x for x in progs if x["id"] == pid)
    violation_once(res, "errors-report:" + o.split(":")[0],
                   "reported errors are not unique and sorted by position: %s" % o,
                  {"kind": "e2e-oracle", "program": p["src"], "config": slim_job(byname[cname], pid), "problem": o})
  res.obligation("monitor:hypotheses-on-every-canonicalised-tree(e2e)", not mon_problems,
                 "%d problems; first: %s" % (len(mon_problems), json.dumps(mon_problems[:2])[:1500]))
  res.obligation("e2e:outputs-identical-across-configurations", n_diff == 0,
                 "%d of %d (program, configuration) comparisons differ from the reference" % (n_diff, n_cmp))
  res.extra["e2e_comparisons"] = n_cmp
  res.extra["e2e_programs"] = len(progs)
  res.extra["e2e_status"] = dict(status)
  res.extra["e2e_error_histogram"] = dict(err_hist)
  res.extra["monitored_on_pipeline_trees"] = dict(mon_stats)
  if progs and len(res.samples) < 6:
    a = (refres.get(progs[-1]["id"]) or [{}])[0]
    res.sample({"program_head": progs[-1]["src"][:400], "pyi_sha": a.get("pyi"), "errors_sha": a.get("errors"),
                "pickle_sha": a.get("pickle"), "n_errors": a.get("n_errors")})


def report_difference(res, p, ref, c, which, position=None):
  # the fingerprint names WHICH outputs differ and whether a hash seed alone suffices; decide that first
  # (cheaply, from the configurations), shrink only if this fingerprint has not been reported yet
  seed_differs = ref["hashseed"] != c["hashseed"]
  coarse = "output-differs:%s" % "+".join(which)
  if len(res.violations) >= 3 or any(v["fingerprint"].startswith(coarse + ":") for v in res.violations):
    return
  ja, jb = slim_job(ref, p["id"]), slim_job(c, p["id"], position)
  src = p["src"]
  alone = False
  if seed_differs:
    src2, alone = shrink_program(src, ref["hashseed"], c["hashseed"], 20.0)
    if alone:
      src = src2
      prog = [{"id": "p", "src": src}]
      ja = {"name": "fresh-process", "hashseed": ref["hashseed"], "job": {"loader": "fresh", "order": ["p"], "warmup": [], "programs": prog, "full": True}}
      jb = {"name": "fresh-process", "hashseed": c["hashseed"], "job": {"loader": "fresh", "order": ["p"], "warmup": [], "programs": prog, "full": True}}
  kind = "hashseed" if alone else "history-or-loader"
  violation_once(res, "%s:%s" % (coarse, kind),
                 "same source and options, different %s between configuration %s and %s" % ("/".join(which), ref["name"], c["name"]),
                 {"kind": "e2e", "program": src, "target": ja["job"]["order"][-1], "config_a": ja, "config_b": jb, "differs": which})


# =============================================================================================

def run(res):
  res.rule = ("(a) pytd units built with the real constructors (constants, type params, functions with 1-3 signatures, "
              "nested classes incl. dataclass-like/namedtuple, aliases, unions/intersections/generics, resolved and unresolved "
              "ClassTypes, populated lookup caches, deliberate sort-key ties), each also deep-shuffled; non-trivial iff "
              "canonicalisation changes the unit or its shuffle. (b) error logs of 0-30 Error objects over few "
              "files/lines/messages with nested, equal, incomparable and malformed tracebacks; non-trivial iff >= 2 errors. "
              "(c) generated programs (typing + attr only) that print rich types in error messages (multi-valued str/int Literals, "
              "unions >= 3, Optional containers, signatures with defaults, attribute errors on unions, same-line errors, nested "
              "tracebacks) and use typing features with internal names/counters (NewType with literal and computed names, "
              "NamedTuple/TypedDict in both forms, Generic over >= 2 TypeVars, Protocol, overload, attr.s, nested classes, "
              "lambdas, closures), analysed under several hash seeds x {fresh process, fresh/reused loader, after rich unrelated "
              "analyses, same file twice, after a program sharing its identifiers}; non-trivial iff compared under >= 2 configurations.")
  res.assumptions = [
      "PARTIAL: the theorems cover the last two stages only (canonical ordering of the unit; sorting/dedup of the error log). "
      "Set/dict iteration inside the VM, id()-based ordering and loader caches are covered by the subprocess differential (search), not proved.",
      "CPython's sorted() is modelled as a stable insertion sort driven by __lt__ (any correct stable sort agrees when __lt__ is a strict weak order, which is proved for Node.__lt__'s key order)",
      "str()/repr() of non-Node leaves (str, int, bool, None, enums, dict) are CPython's and are supplied by the projection; msgspec's Struct repr/eq and dict.fromkeys' hash-then-eq are modelled structurally (hash collisions ignored; 1 == True not modelled)",
      "_VisitNode's `changed` short-cut is modelled as 'always rebuild', equal on trees whose set-types are normalised by _FlattenTypes (monitored)",
      "Error._position's string formatting is modelled by its components (assumed injective; exercised on real Error objects incl. filenames containing ':')",
      "msgpack/gzip byte determinism is delegated to C12 and observed here only through the pickle digests",
      "generators, projection and differ in harness/props/c04*.py",
  ]
  common.coq_obligations(res, "C04")
  common.bootstrap_pytype()
  from pytype.pytd import pytd_visitors  # pylint: disable=import-outside-toplevel
  thorough = res.tier == "thorough"
  # ---- (4) history part: the real Loader driven through generated histories over generated stub packages
  import c04_loader  # pylint: disable=import-outside-toplevel
  res.rule += (" (d) stub packages (plain modules, packages with/without __init__.pyi, dotted sub-modules, references, import "
               "cycles, missing modules/classes, a class named like a sub-module; outside the model's dialect also re-exports, "
               "star imports, module aliases) x histories of 2-7 import_name requests incl. repeats and missing modules; "
               "non-trivial iff >= 2 requests.")
  res.assumptions += [
      "Loader model (coq/Loader/Model.v): a stub dialect of classes and `v: pkg.mod.Class` references; the parser, "
      "LookupLocalTypes/LookupBuiltins/AdjustTypeParameters/FillInLocalPointers are identities on it (observed on every case: "
      "the real AST is projected and compared); builtins/typeshed loaders, pickled modules, imports_map, resolve_ast/load_file are "
      "outside the model; set iteration in the sub-module loop is avoided by the dialect (one undefined name per dependency)",
  ]
  t0 = time.time()
  ld_stats = c04_loader.run_leg(res, violation_once, 400 if thorough else 60, 60 if thorough else 8)
  ld_stats["wall_s"] = round(time.time() - t0, 1)
  res.extra["loader_history_leg"] = ld_stats
  res.trusted_base.append("harness/props/c04_loader.py (stub generator, projection of the real AST/_modules/_import_name_cache, cases file)")
  if os.environ.get("C04_ONLY") == "loader":       # development switch: the history leg alone
    return "proof"
  drift = tables(res)
  deep = thorough or drift
  names = set(pytd_visitors.CanonicalOrderingVisitor().visit_class_names)
  # ---- (3) is started first: its subprocesses run while the Coq legs below are evaluated
  finish_e2e = e2e(res, res.seed, 160 if thorough else 20, thorough, 10 if thorough else 6)
  t0 = time.time()
  # ---- (2a)
  cases = canon_cases(res, res.seed, 1800 if thorough else (400 if deep else 60), names)
  n_trees = run_canon_model(res, cases, "generated", 30)
  res.extra["canon_cases"] = len(cases)
  res.extra["canon_wall_s"] = round(time.time() - t0, 1)
  # ---- (2b)
  t0 = time.time()
  pcases = pipeline_trees(res, res.seed, 40 if thorough else 2, names)
  if pcases:
    n_trees += run_canon_model(res, pcases, "pipeline", 12)
  res.extra["pipeline_trees_through_model"] = len(pcases)
  res.extra["pipeline_wall_s"] = round(time.time() - t0, 1)
  # ---- (2c)
  t0 = time.time()
  n_err = errors_correspondence(res, res.seed, 6000 if thorough else (2000 if deep else 240), 120)
  res.extra["error_logs"] = n_err
  res.extra["errors_wall_s"] = round(time.time() - t0, 1)
  # ---- (2d) typegraph level: ordered observations are a function of the construction history (heap churn, hash seeds)
  t0 = time.time()
  import c04_typegraph  # pylint: disable=import-outside-toplevel
  n_cmp, tg_diffs = c04_typegraph.run_leg(res, common, 6 if thorough else 2, 40 if thorough else 25)
  res.count(("typegraph-order", n_cmp))
  res.extra["typegraph_order_leg"] = {"replays_compared": n_cmp, "differences": len(tg_diffs), "wall_s": round(time.time() - t0, 1)}
  if tg_diffs:
    res.violation("typegraph-order-depends-on-heap-or-hash-seed",
                  "the same construction history replayed in one process (with heap churn in between) / under another hash "
                  "seed hands out bindings in a different order: %s" % json.dumps(tg_diffs[0])[:600],
                  {"differences": tg_diffs[:5], "rerun": "PYTHONHASHSEED=<hashseed> /venv/bin/python harness/props/c04_typegraph.py <history> <replays>"})
  res.obligation("oracle:typegraph-order-is-a-function-of-the-history", not tg_diffs, json.dumps(tg_diffs[:2])[:800])
  # ---- (3)
  finish_e2e()
  res.trusted_base += ["harness/props/c04_units.py (projection pytd -> model value, table translator), c04_runner.py, c04_progs.py",
                       "out-of-tree g++ build of /repo/pytype/typegraph/*.cc (harness/common.py build_cfg)"]
  if thorough:
    ok, out = common_coqchk("C04")
    res.obligation("coqchk", ok, out[-1500:])
  return "proof"


def common_coqchk(pid):
  r = subprocess.run(["timeout", "1500", "coqchk", "-silent", "-o", "-Q", common.COQ, "PV", f"PV.Props.{pid}"],
                     capture_output=True, text=True, cwd=common.COQ)
  return r.returncode == 0, r.stdout + r.stderr


def replay(res, path):
  d = json.load(open(path))
  rp = d["replay"]
  kind = rp.get("kind")
  if kind in ("e2e", "e2e-oracle"):
    if kind == "e2e-oracle":
      jobs = [dict(rp["config"], name="a")]
    else:
      jobs = [dict(rp["config_a"], name="a"), dict(rp["config_b"], name="b")]
    out, errs = run_jobs(jobs, 2)
    tgt = jobs[0]["job"]["order"][-1]
    tgts = [j["job"]["order"][-1] for j in jobs]
    rs = [(out.get(j["name"], {}).get(t) or [None])[-1] for j, t in zip(jobs, tgts)]
    for j, r_ in zip(jobs, rs):
      print("== configuration", describe(j))
      if r_ is None:
        print("   no result:", errs.get(j["name"]))
        continue
      print("   pyi sha", r_.get("pyi"), " errors sha", r_.get("errors"), " pickle sha", r_.get("pickle"), " oracle", r_.get("oracle"))
      print(r_.get("pyi_text", ""))
      for t in r_.get("error_tuples", []):
        print("   ", t)
    if kind == "e2e-oracle":
      return 1 if rs[0] and rs[0].get("oracle") else 0
    if None in rs:
      return 1
    return 1 if any(rs[0].get(k) != rs[1].get(k) for k in ("status", "pyi", "errors", "pickle")) else 0
  if kind == "loader":
    import c04_loader  # pylint: disable=import-outside-toplevel
    return c04_loader.replay(rp)
  common.bootstrap_pytype()
  if kind == "errors":
    out = run_error_impl(rp["fields"])
    probs = error_oracle(rp["fields"], out)
    print("log      :", json.dumps(rp["fields"]))
    print("reported :", out)
    print("oracle   :", probs)
    return 1 if probs else 0
  if kind == "canon":
    from pytype.pytd import pytd_visitors  # pylint: disable=import-outside-toplevel
    names = set(pytd_visitors.CanonicalOrderingVisitor().visit_class_names)
    r, u = gen_unit(rp["seed"], rp["index"])
    u2 = U.deep_shuffle(r, u)
    c, c2 = canon_impl(u), canon_impl(u2)
    probs, _ = U.monitor(u, c, names)
    print("canon(u)        :", repr(c)[:4000])
    print("canon(shuffle u):", repr(c2)[:4000])
    print("monitor         :", probs[:3])
    bad = (not probs and U.proj(c) != U.proj(c2)) or U.proj(canon_impl(c)) != U.proj(c) or \
        any(p[0] in ("not-canonical", "unsortable-item", "unreached-sorted-class") for p in probs)
    return 1 if bad else 0
  if kind == "pipeline-tree":
    print(rp.get("program"))
    print("re-run the quick check; the tree is regenerated from the program")
    return 1
  print("unknown replay kind", kind)
  return 1
