"""C04: generator of Python programs for the determinism search.

Only `typing` (and the bundled `attr` stub) is imported - typeshed is absent.  Two kinds of surface are generated
on purpose, because that is where order / history dependence hides:

(a) ERROR MESSAGES THAT PRINT RICH TYPES.  Messages go through the pretty printer (join_printed_types, signature
    printing), which is separate from the stub printer: wrong-arg-types against parameters annotated with
    multi-valued Literal types (str and int, >= 4 values), unions of >= 3 members, Optional of containers, callable
    signatures with defaults, attribute errors on unions ("No attribute 'x' on int / In Union[...]"), dict/set
    displays with mixed element types, several errors on one line, one error reached through several call chains.
(b) TYPING FEATURES WITH INTERNAL NAMES, COUNTERS OR CACHES: NewType with literal and with non-literal (computed)
    names, NamedTuple and TypedDict in functional and class form, Generic classes over >= 2 TypeVars declared in
    non-alphabetical order, Protocol, @overload, attr.s classes, nested classes, lambdas, closures,
    property/staticmethod/classmethod, classes with >= 3 bases.

Identifiers come from per-program pools drawn from a separate `names` RNG: two programs generated with the same
names seed but different structure seeds share class/function/NewType names ("a target analysed after a program
that shares names with it")."""

ALPHA = "abcdefghijklmnopqrstuvwxyz"
RESERVED = frozenset("""if in is or as def del for not and try int str set len any all max min sum id self cls list dict
type from with else elif pass None True map zip abs bin hex oct ord chr dir pow vars iter next open hash bool float bytes
tuple range print input super slice round object sorted filter format global lambda return import assert except raise
while yield class break async await exec eval repr case match attr typing""".split())


def _word(r, lo=2, hi=7):
  return "".join(r.choice(ALPHA) for _ in range(r.randint(lo, hi)))


class Names:
  """Pools of identifiers, a function of the names RNG only."""

  def __init__(self, rn):
    seen = set()

    def pool(n, prefix="", cap=False, suffix_num=0.3):
      out = []
      while len(out) < n:
        w = prefix + _word(rn)
        if rn.random() < suffix_num:
          w += str(rn.randrange(100))
        if cap:
          w = w[0].upper() + w[1:]
        if w in seen or w in RESERVED:
          continue
        seen.add(w)
        out.append(w)
      return out

    self.classes = pool(14, "C", cap=True)
    self.funcs = pool(16, "f")
    self.attrs = pool(24)
    self.consts = pool(20, suffix_num=0.4)
    self.undefined = pool(12, "u")
    self.tvars = pool(6, "T", cap=True, suffix_num=0.0)
    self.newtypes = pool(8, "N", cap=True, suffix_num=0.0)
    self.lit_strs = [_word(rn, 1, 5) for _ in range(40)]


class ProgGen:

  def __init__(self, r, rn):
    self.r = r
    self.n = Names(rn)
    self.used = {k: 0 for k in ("classes", "funcs", "attrs", "consts", "undefined", "tvars", "newtypes")}
    self.lines = []
    self.classes = []       # plain classes usable as bases / instances
    self.consts = []
    self.literal_aliases = []   # (alias, values as source text)
    self.union_funcs = []   # functions returning rich unions
    self.features = set()
    self.tvars = []

  # ---- identifiers ---------------------------------------------------------------------------
  def take(self, kind):
    pool = getattr(self.n, kind)
    i = self.used[kind]
    self.used[kind] += 1
    if i < len(pool):
      return pool[i]
    return pool[i % len(pool)] + "_%d" % (i // len(pool))

  def cname(self): return self.take("classes")
  def fname(self): return self.take("funcs")
  def aname(self): return self.take("attrs")
  def kname(self): return self.take("consts")
  def uname(self): return self.take("undefined")

  def emit(self, *ls):
    self.lines.extend(ls)

  def feat(self, *fs):
    self.features.update(fs)

  # ---- expressions ---------------------------------------------------------------------------
  def scalar(self):
    return self.r.choice(["1", "2", "'s'", "'t'", "None", "1.5", "True", "b'x'", "3j"])

  def hashable(self):
    return self.r.choice(["1", "'s'", "None", "2.5", "True", "b'x'", "(1, 's')", "frozenset([1])"])

  def value(self, depth=0):
    r = self.r
    k = r.random()
    if depth > 2 or k < 0.3:
      return self.scalar()
    if k < 0.45:
      return "[" + ", ".join(self.value(depth + 1) for _ in range(r.randint(0, 4))) + "]"
    if k < 0.62:
      return "{" + ", ".join("%s: %s" % (r.choice(["1", "'k'", "None", "2.5"]), self.value(depth + 1))
                             for _ in range(r.randint(1, 4))) + "}"
    if k < 0.78:
      return "{" + ", ".join(self.hashable() for _ in range(r.randint(2, 5))) + "}"
    if k < 0.9:
      return "(" + ", ".join(self.value(depth + 1) for _ in range(r.randint(1, 3))) + ",)"
    if self.consts:
      return r.choice(self.consts)
    return "0"

  def rich_annotation(self):
    """A type whose printed form has several members."""
    r = self.r
    k = r.random()
    if k < 0.3 and self.literal_aliases:
      return r.choice(self.literal_aliases)[0]
    if k < 0.5:
      return "Union[%s]" % ", ".join(r.sample(["int", "str", "bytes", "List[int]", "Dict[str, int]", "None", "float",
                                               "Tuple[int, str]", "Set[str]"], r.randint(3, 5)))
    if k < 0.65:
      return "Optional[%s]" % r.choice(["List[int]", "Dict[str, List[int]]", "Set[Tuple[int, str]]", "Tuple[str, ...]"])
    if k < 0.8:
      return "Callable[[%s], %s]" % (", ".join(r.sample(["int", "str", "bool", "List[str]"], r.randint(1, 3))),
                                     r.choice(["str", "Optional[int]", "Union[int, str]"]))
    if k < 0.9:
      return "Dict[%s, %s]" % (r.choice(["str", "int"]), r.choice(["Union[int, str, None]", "List[Optional[str]]", "Set[int]"]))
    return r.choice(["int", "str", "List[int]"])

  def wrong_value(self):
    return self.r.choice(["1", "'zz'", "None", "[1, 's']", "{'a': 1, 2: 's'}", "{1, 's', None}", "1.5", "(1, 's')",
                          "{'k': [1, None]}", "b'x'"])

  # ---- blocks --------------------------------------------------------------------------------
  def header(self):
    self.emit("from typing import (Any, Callable, Dict, Generic, List, Literal, NamedTuple, NewType, Optional, Protocol, "
              "Set, Tuple, TypedDict, TypeVar, Union, overload)")
    self.use_attr = self.r.random() < 0.5
    if self.use_attr:
      self.emit("import attr")
    # TypeVars declared in NON-alphabetical order
    names = sorted((self.take("tvars") for _ in range(self.r.randint(2, 4))), reverse=True)
    if len(names) > 2:
      names[0], names[1] = names[1], names[0]
    for n in names:
      k = self.r.random()
      if k < 0.55:
        self.emit("%s = TypeVar('%s')" % (n, n))
      elif k < 0.8:
        self.emit("%s = TypeVar('%s', int, str, bytes)" % (n, n))
      else:
        self.emit("%s = TypeVar('%s', bound=int)" % (n, n))
      self.tvars.append(n)
    self.feat("typevars")

  def consts_block(self):
    r = self.r
    for _ in range(r.randint(2, 5)):
      n = self.kname()
      k = r.random()
      if k < 0.45:
        self.emit("%s = %s" % (n, self.value()))
      elif k < 0.7:
        self.emit("%s = {%s}" % (n, ", ".join(self.hashable() for _ in range(r.randint(2, 6)))))
        self.feat("mixed-set-display")
      elif k < 0.85:
        a, b, c = (self.value(2) for _ in range(3))
        self.emit("%s = %s if %s else %s if %s else %s" % (n, a, self.uname(), b, self.uname(), c))
        self.feat("undefined-names")
      else:
        self.emit("%s = dict(%s)" % (n, ", ".join("%s=%s" % (self.aname(), self.value(2)) for _ in range(r.randint(1, 4)))))
      self.consts.append(n)

  def literal_block(self):
    """Multi-valued Literal aliases, functions/methods taking them (with defaults), wrong calls."""
    r = self.r
    strs = r.sample(self.n.lit_strs, r.randint(4, 7))
    # members that differ only in case ('get' / 'GET' / 'Get'): any case-insensitive ordering of a printed literal
    # union leaves their relative order to set iteration, i.e. to the hash seed
    if r.random() < 0.7 and strs[0].upper() != strs[0]:
      strs[1] = strs[0].upper()
      if r.random() < 0.5 and strs[2].capitalize() not in strs:
        strs[3] = strs[2].capitalize()
      self.feat("literal-case-variants")
    ints = r.sample([0, 1, 2, 3, 5, 10, 12, 20, 21, 100, 101, -1], r.randint(4, 6))
    a1, a2 = self.cname(), self.cname()
    self.emit("%s = Literal[%s]" % (a1, ", ".join('"%s"' % s for s in strs)))
    self.emit("%s = Literal[%s]" % (a2, ", ".join(str(i) for i in ints)))
    self.literal_aliases += [(a1, ['"%s"' % s for s in strs]), (a2, [str(i) for i in ints])]
    cls, meth, fn = self.cname(), self.aname(), self.fname()
    self.emit("class %s:" % cls,
              "  def __init__(self, path: str, mode: %s = %s) -> None:" % (a1, '"%s"' % strs[0]),
              "    self.path = path",
              "    self.mode = mode",
              "  def %s(self, path, mode: %s = %s, level: %s = %d, strict: Optional[bool] = None) -> '%s':"
              % (meth, a1, '"%s"' % strs[1], a2, ints[0], cls),
              "    return %s(path, mode)" % cls,
              "def %s(level: %s, mode: Union[%s, None] = None, *, tag: %s = %s) -> int:" % (fn, a2, a1, a1, '"%s"' % strs[2]),
              "  return level")
    h = self.kname()
    self.emit("%s = %s('p', \"%s\")" % (h, cls, strs[0] + strs[1] + "_"))                  # wrong literal value
    self.emit("%s.%s('q', \"no_%s\")" % (h, meth, strs[0]))
    self.emit("%s.%s('q', level=%d)" % (h, meth, 7777))
    self.emit("%s(%d, tag=\"%s_\")" % (fn, 4242, strs[3]))
    if r.random() < 0.7:
      self.emit("%s: %s = \"%s__\"" % (self.kname(), a1, strs[0]))                         # annotation mismatch
    if r.random() < 0.5:
      self.emit("%s(%d).%s, %s(%d).%s" % (fn, ints[1], self.aname(), fn, ints[2], self.aname()))   # two errors, one line
      self.feat("same-line-errors")
    self.classes.append(cls)
    self.feat("literal-str>=4", "literal-int>=4", "signature-with-defaults")

  def enum_block(self):
    """Classes from a stub BUNDLED with pytype (enum), and inferred unions that collapse only if that stub's class
    hierarchy is known to the optimiser (Union[enum.Enum, enum.IntEnum] -> enum.Enum): sensitive to what a reused
    loader cached before this module was the first to import the stub."""
    r = self.r
    e1, e2 = self.cname(), self.cname()
    f1, f2 = self.fname(), self.fname()
    self.emit("import enum")
    self.emit("class %s(enum.Enum):" % e1, "  %s = 1" % self.aname().upper(), "  %s = 2" % self.aname().upper())
    self.emit("class %s(enum.IntEnum):" % e2, "  %s = 1" % self.aname().upper())
    self.emit("def %s(c, a: enum.Enum, b: enum.IntEnum):" % f1, "  return a if c else b")
    self.emit("def %s(c, a: %s, b: %s, d: enum.Flag):" % (f2, e1, e2), "  if c:", "    return a", "  elif c is None:", "    return d", "  return b")
    self.emit("%s(%s)" % (f1, self.wrong_value()))
    self.feat("bundled-stub-enum")

  def newtype_block(self):
    r = self.r
    lit = self.take("newtypes")
    self.emit("%s = NewType('%s', %s)" % (lit, lit, r.choice(["int", "str", "bytes"])))
    self.emit("%s(%s)" % (lit, r.choice(["None", "[1]", "1.5"])))
    self.feat("newtype-literal-name")
    k = r.random()
    if k < 0.75:
      # NON-literal names: the class gets an internal, numbered name that is printed in the stub
      helper, cls = self.fname(), self.cname()
      a1, a2 = self.aname(), self.aname()
      self.emit("def %s(kind: str) -> str:" % helper, "  return kind + 'Id'",
                "class %s:" % cls,
                "  %s = NewType(%s('%s'), int)" % (a1, helper, a1),
                "  %s = NewType(%s('%s'), %s)" % (a2, helper, a2, r.choice(["int", "str"])),
                "  def %s(self):" % self.aname(),
                "    return %s.%s(1)" % (cls, a1),
                "def %s(n: int):" % self.fname(),
                "  return %s.%s(n)" % (cls, a2))
      self.feat("newtype-computed-name")
    if k > 0.5:
      tagged, made = self.fname(), self.take("newtypes")
      self.emit("def %s(tag):" % tagged, "  return NewType(tag + 'Tag', str)",
                "%s = %s('%s')" % (made, tagged, made),
                "def %s(c: %s) -> str:" % (self.fname(), made), "  return c.upper()")
      self.feat("newtype-computed-name")

  def namedtuple_block(self):
    r = self.r
    f1, f2 = self.cname(), self.cname()
    fields = [(self.aname(), r.choice(["int", "str", "List[int]", "Optional[str]"])) for _ in range(r.randint(2, 4))]
    self.emit("%s = NamedTuple('%s', [%s])" % (f1, f1, ", ".join("('%s', %s)" % ft for ft in fields)))
    self.emit("class %s(NamedTuple):" % f2)
    for f, t in fields:
      self.emit("  %s: %s" % (f, t))
    self.emit("  def %s(self):" % self.aname(), "    return self.%s" % fields[0][0])
    self.emit("%s(%s)" % (f1, ", ".join(self.wrong_value() for _ in fields)))
    self.emit("%s(%s).%s" % (f2, ", ".join(self.wrong_value() for _ in fields), self.aname()))
    self.feat("namedtuple-functional", "namedtuple-class")

  def typeddict_block(self):
    r = self.r
    t1, t2 = self.cname(), self.cname()
    keys = [self.aname() for _ in range(r.randint(2, 3))]
    self.emit("%s = TypedDict('%s', {%s})" % (t1, t1, ", ".join("'%s': %s" % (k, r.choice(["int", "str", "List[str]"])) for k in keys)))
    self.emit("class %s(TypedDict, total=False):" % t2)
    for k in keys:
      self.emit("  %s: %s" % (k, r.choice(["int", "Optional[str]", "Dict[str, int]"])))
    self.emit("%s: %s = {%s}" % (self.kname(), t1, ", ".join("'%s': %s" % (k, self.wrong_value()) for k in keys)))
    self.emit("%s: %s = {'%s': %s, '%s': 1}" % (self.kname(), t2, keys[0], self.wrong_value(), self.aname()))
    # a call whose argument misses several keys and has several extra ones: the error text lists both key SETS
    # (printed in set iteration order before fix 3974662, i.e. dependent on the hash seed)
    fn = self.aname()
    self.emit("def %s(x: %s): pass" % (fn, t1))
    self.emit("%s({%s})" % (fn, ", ".join("'%s': %d" % (self.aname(), i) for i in range(r.randint(2, 4)))))
    self.feat("typeddict-functional", "typeddict-class", "typeddict-key-sets-in-error")

  def generic_block(self):
    r = self.r
    cls = self.cname()
    tv = r.sample(self.tvars, 2)
    self.emit("class %s(Generic[%s, %s]):" % (cls, tv[0], tv[1]),
              "  def __init__(self, a: %s, b: %s):" % (tv[0], tv[1]),
              "    self.a = a", "    self.b = b",
              "  def swap(self) -> 'Tuple[%s, %s]':" % (tv[1], tv[0]), "    return (self.b, self.a)",
              "  def both(self) -> Union[%s, %s, None]:" % (tv[0], tv[1]), "    return self.a")
    v = self.kname()
    self.emit("%s = %s(%s, %s)" % (v, cls, r.choice(["1", "'s'"]), r.choice(["[1]", "None", "b'x'"])))
    self.emit("%s.swap().%s" % (v, self.aname()))
    self.emit("%s.both().%s" % (v, self.aname()))
    f = self.fname()
    self.emit("def %s(x: %s, y: List[%s]) -> Dict[%s, %s]:" % (f, tv[0], tv[0], tv[0], tv[0]), "  return {x: y[0]}",
              "%s = %s(%s, [%s])" % (self.kname(), f, r.choice(["1", "'s'"]), r.choice(["1", "'s'", "None"])))
    self.feat("generic-2-typevars", "attribute-error-on-union")

  def protocol_overload_block(self):
    r = self.r
    pr, m, user = self.cname(), self.aname(), self.fname()
    self.emit("class %s(Protocol):" % pr, "  def %s(self, x: int, y: str = ...) -> str: ..." % m,
              "def %s(p: %s, q: Optional[%s] = None): return p.%s(1)" % (user, pr, pr, m),
              "%s(%s)" % (user, self.wrong_value()))
    ov = self.fname()
    self.emit("@overload", "def %s(x: int) -> int: ..." % ov, "@overload", "def %s(x: str, y: bytes = ...) -> str: ..." % ov,
              "@overload", "def %s(x: List[int], y: bytes = ...) -> None: ..." % ov,
              "def %s(x, y=b''): return x" % ov,
              "%s(%s)" % (ov, r.choice(["1.5", "None", "{1: 2}"])))
    self.feat("protocol", "overload")

  def class_block(self):
    r = self.r
    cname = self.cname()
    bases = []
    k = r.random()
    if len(self.classes) >= 3 and k < 0.35:
      bases = r.sample(self.classes, 3)
      self.feat("three-bases")
    elif self.classes and k < 0.6:
      bases = r.sample(self.classes, min(len(self.classes), r.choice([1, 2])))
      self.feat("inheritance")
    deco = []
    if self.use_attr and not bases and r.random() < 0.4:
      deco = ["@attr.s"]
      self.feat("attr.s-class")
    self.emit(*deco)
    self.emit("class %s%s:" % (cname, "(" + ", ".join(bases) + ")" if bases else ""))
    attrs = [self.aname() for _ in range(r.randint(2, 5))]
    if deco:
      for a in attrs[:3]:
        self.emit("  %s = attr.ib(default=%s)" % (a, self.scalar()))
    elif r.random() < 0.2 and not bases:
      self.emit("  __slots__ = (%s,)" % ", ".join("'%s'" % a for a in attrs))
      self.feat("slots")
    for _ in range(r.randint(0, 2)):
      self.emit("  %s = %s" % (self.aname(), self.value(1)))
    if r.random() < 0.4:
      inner = self.cname()
      self.emit("  class %s:" % inner, "    %s = %s" % (self.aname(), self.value(2)),
                "    def %s(self, z: %s = None):" % (self.aname(), self.rich_annotation()), "      return z")
      self.feat("nested-class")
    if not deco:
      self.emit("  def __init__(self, %s):" % ", ".join("p%d=None" % i for i in range(r.randint(0, 3))))
      for a in attrs[: max(1, len(attrs) // 2)]:
        self.emit("    self.%s = %s" % (a, self.value(1)))
    for _ in range(r.randint(1, 3)):
      m = self.aname()
      d = r.random()
      if d < 0.15:
        self.emit("  @staticmethod", "  def %s(x, y: %s = None):" % (m, self.rich_annotation()))
        self.feat("staticmethod")
      elif d < 0.3:
        self.emit("  @classmethod", "  def %s(cls, x=1):" % m)
        self.feat("classmethod")
      elif d < 0.45:
        self.emit("  @property", "  def %s(self):" % m)
        self.feat("property")
      else:
        self.emit("  def %s(self, x=None, *args, **kwargs):" % m)
      body = r.random()
      if body < 0.35 and d >= 0.45:
        for a in r.sample(attrs, min(len(attrs), 2)):
          self.emit("    self.%s = %s" % (a, self.value(1)))
        self.emit("    return self.%s" % r.choice(attrs))
        self.feat("attr-typed-in-two-methods")
      elif body < 0.7 and d >= 0.3 and d < 0.45:
        self.emit("    return %s" % self.value(1))
      elif body < 0.7:
        self.emit("    if x:", "      return %s" % self.value(1), "    elif %s:" % self.uname(),
                  "      return %s" % self.value(1), "    return %s" % self.value(1))
        self.feat("undefined-names", "branch-union")
      else:
        self.emit("    return x")
    self.emit("")
    if not deco:
      self.classes.append(cname)

  def union_func_block(self):
    """Functions returning rich unions; attribute errors on them print 'No attribute .. on X / In Union[...]'."""
    r = self.r
    f = self.fname()
    ann = "Union[%s]" % ", ".join(r.sample(["int", "str", "None", "List[int]", "Dict[str, int]", "bytes", "float",
                                            "Tuple[int, str]"], r.randint(3, 5)))
    self.emit("def %s(flag: bool = True, *, deep: %s = None) -> %s:" % (f, self.rich_annotation(), ann), "  return 1")
    self.emit("%s().%s" % (f, r.choice(["bit_length", "upper", "append", self.aname()])))
    if r.random() < 0.5:
      self.emit("%s().%s, %s(False).%s" % (f, self.aname(), f, self.aname()))
      self.feat("same-line-errors")
    self.emit("%s(%s, deep=%s)" % (f, self.wrong_value(), self.wrong_value()))
    self.union_funcs.append(f)
    self.feat("attribute-error-on-union", "union>=3", "signature-with-defaults")

  def traceback_block(self):
    r = self.r
    f, p = self.fname(), self.aname()
    self.emit("def %s(%s, q=0):" % (f, p), "  return %s.%s + %s.%s" % (p, self.aname(), p, self.aname()))
    callers = []
    for _ in range(r.randint(1, 2)):
      g = self.fname()
      self.emit("def %s(a, b=None):" % g, "  return %s(a)" % f)
      callers.append(g)
    outer = self.fname()
    self.emit("def %s(a):" % outer, "  return %s(a)" % callers[0])
    for _ in range(r.randint(2, 4)):
      arg = r.choice(["1", "'s'", "None", "[1]", "1.5", "{}", "{1, 's'}"])
      self.emit("%s(%s)" % (r.choice(callers + [f, outer]), arg))
    self.feat("tracebacks", "same-line-errors")

  def closure_lambda_block(self):
    r = self.r
    lam, outer, inner = self.kname(), self.fname(), self.fname()
    self.emit("%s = lambda q, w=%s: q.%s" % (lam, self.scalar(), self.aname()),
              "%s(%s)" % (lam, r.choice(["1", "'s'", "None"])),
              "def %s(a, b: %s = None):" % (outer, self.rich_annotation()),
              "  def %s(c):" % inner, "    return a.%s + c" % self.aname(),
              "  return %s" % inner,
              "%s(%s)(%s)" % (outer, r.choice(["1", "'s'"]), self.scalar()),
              "%s = [(lambda z: z.%s)(k) for k in (1, 's')]" % (self.kname(), self.aname()))
    self.feat("lambda", "closure")

  def annotated_call_block(self):
    r = self.r
    f = self.fname()
    anns = [self.rich_annotation() for _ in range(r.randint(2, 3))]
    params = ", ".join("p%d: %s%s" % (i, a, " = None" if i else "") for i, a in enumerate(anns))
    self.emit("def %s(%s, *rest: int, key: %s = None, **extra: str) -> %s:" % (f, params, self.rich_annotation(), anns[0]),
              "  return p0")
    self.emit("%s(%s)" % (f, self.wrong_value()))
    self.emit("%s(%s, %s, key=%s)" % (f, self.wrong_value(), self.wrong_value(), self.wrong_value()))
    if r.random() < 0.5:
      self.emit("%s()" % f)
    self.emit("%s: %s = %s" % (self.kname(), self.rich_annotation(), self.wrong_value()))
    self.feat("signature-with-defaults", "rich-annotations", "optional-of-container")

  def multi_binding_block(self):
    """One variable with several bindings at ONE CFG node (the loop variable over a display of mixed types) and uses
    that log one error PER BINDING on the SAME line: errors are sorted by (file, line) only, so within such a line the
    report follows the order in which the typegraph hands the bindings out (id order by construction; a pointer- or
    hash-ordered container there shows up only after heap churn or under another hash seed)."""
    r = self.r
    pool = ["1", "'s'", "2.5", "None", "b'x'", "[1]", "(1,)", "{1: 2}", "{1}", "True", "1j"] + [c + "()" for c in self.classes[:4]]
    vals = r.sample(pool, min(len(pool), r.randint(4, 8)))
    a = self.aname()
    v = self.kname()
    self.emit("for %s in [%s]:" % (v, ", ".join(vals)),
              "  %s.%s" % (v, a),
              "  %s.%s(%s)" % (v, self.aname(), self.scalar()),
              "  %s = %s %s %s" % (self.kname(), v, r.choice(["+", "-", "*", "[", "@"]).replace("[", "<<"), r.choice(["1", "'s'", v])))
    f = self.fname()
    self.emit("def %s(%s):" % (f, "x"), "  return x.%s" % self.aname(),
              "; ".join("%s(%s)" % (f, val) for val in vals[:5]))
    self.feat("multi-binding-same-line-errors")

  def misc_error_block(self):
    r = self.r
    k = r.random()
    if k < 0.3 and self.classes:
      v = self.kname()
      self.emit("%s = %s()" % (v, r.choice(self.classes)))
      self.emit("%s = (%s)" % (self.kname(), ", ".join("%s.%s" % (v, self.aname()) for _ in range(r.randint(2, 4)))))
      self.feat("same-line-errors")
    elif k < 0.5:
      self.emit("%s = %s + %s" % (self.kname(), r.choice(["1", "'s'", "None", "[1]"]), r.choice(["'s'", "None", "{}", "1"])))
    elif k < 0.65:
      self.emit("%s = [%s, %s, %s]" % (self.kname(), self.uname(), self.uname(), self.uname()))
      self.feat("same-line-errors", "undefined-names")
    elif k < 0.8 and self.consts:
      a, b = r.choice(self.consts), r.choice(self.consts)
      self.emit("%s = %s.%s(%s.%s)" % (self.kname(), a, self.aname(), b, self.aname()))
      self.feat("same-line-errors", "mixed-dict-display")
    else:
      v = self.kname()
      self.emit("%s = %s" % (v, r.choice(["None", "0", "[]"])),
                "for %s in [%s]:" % (self.aname(), ", ".join(self.value(2) for _ in range(r.randint(2, 4)))),
                "  %s = %s" % (v, self.value(1)),
                "  if %s:" % self.uname(), "    %s = %s" % (v, self.value(1)),
                "%s.%s" % (v, self.aname()))
      self.feat("loop-merge", "attribute-error-on-union")

  # ---- assembly ------------------------------------------------------------------------------
  def build(self, size):
    r = self.r
    self.header()
    self.consts_block()
    # every program gets the two kinds of surface; the rest is sampled
    must = [self.literal_block, self.union_func_block, self.class_block, self.multi_binding_block]
    if r.random() < 0.8:
      must.append(self.newtype_block)
    optional = [self.namedtuple_block, self.typeddict_block, self.generic_block, self.protocol_overload_block,
                self.traceback_block, self.closure_lambda_block, self.annotated_call_block, self.class_block,
                self.class_block, self.misc_error_block, self.misc_error_block]
    if self.allow_bundled:
      optional += [self.enum_block, self.enum_block]
    blocks = must + r.sample(optional, min(len(optional), 3 + size))
    r.shuffle(blocks)
    for b in blocks:
      b()
    return "\n".join(self.lines) + "\n"


def gen_program(r, size=2, names_seed=None, allow_bundled=True):
  """r: structure RNG; names_seed: seed of the identifier pools (default: drawn from r).
  Two programs with the same names_seed share class/function/NewType names.  Returns (source, feature list)."""
  import random  # pylint: disable=import-outside-toplevel
  if names_seed is None:
    names_seed = r.getrandbits(48)
  for _ in range(20):
    g = ProgGen(r, random.Random("c04-names:%s" % names_seed))
    g.allow_bundled = allow_bundled
    src = g.build(size)
    try:
      compile(src, "prog.py", "exec")
    except SyntaxError:
      continue
    return src, sorted(g.features)
  raise RuntimeError("c04_progs: could not generate a compilable program")


def gen_unrelated(r):
  """History programs come from the same rich generator (NewTypes, NamedTuples, TypeVars, errors, ...)."""
  # never imports a bundled stub (enum), so that a target program can be the FIRST importer on a reused loader
  return gen_program(r, 1, allow_bundled=False)[0]
