"""C04: generator of Python programs for the determinism search.

No imports except `typing` (typeshed is absent).  Every program mixes the ingredients whose analysis goes
through sets/dicts keyed by names or by id() inside pytype: many module-level names with random spellings
(so their string hashes differ between hash seeds), classes with attributes assigned in several methods,
multiple inheritance, unions built from several branches, container literals with mixed element types,
TypeVars/Generic/NamedTuple, functions called from several sites with different argument types (one
signature per call site, tracebacks), and deliberate type errors - several on one line, the same error
reached through different call chains - so that the error log's order and deduplication are exercised."""

ALPHA = "abcdefghijklmnopqrstuvwxyz"


class ProgGen:

  def __init__(self, r):
    self.r = r
    self.names = set()
    self.lines = []
    self.classes = []
    self.funcs = []
    self.consts = []
    self.features = set()

  def fresh(self, prefix=""):
    r = self.r
    while True:
      n = prefix + "".join(r.choice(ALPHA) for _ in range(r.randint(2, 7)))
      if r.random() < 0.3:
        n += str(r.randrange(100))
      if n not in self.names and n not in ("if", "in", "is", "or", "as", "def", "del", "for", "not", "and", "try",
                                           "int", "str", "set", "len", "any", "all", "max", "min", "sum", "id",
                                           "self", "cls", "list", "dict", "type", "from", "with", "else", "elif",
                                           "pass", "None", "True", "map", "zip", "abs", "bin", "hex", "oct", "ord",
                                           "chr", "dir", "pow", "vars", "iter", "next", "open", "hash", "bool",
                                           "float", "bytes", "tuple", "range", "print", "input", "super", "slice",
                                           "round", "object", "sorted", "filter", "format", "global", "lambda",
                                           "return", "import", "assert", "except", "raise", "while", "yield",
                                           "class", "break", "async", "await", "exec", "eval", "repr", "case", "match"):
        self.names.add(n)
        return n

  def emit(self, *ls):
    self.lines.extend(ls)

  def value(self, depth=0):
    r = self.r
    k = r.random()
    if depth > 2 or k < 0.35:
      return r.choice(["1", "2", "'s'", "'t'", "None", "1.5", "True", "b'x'", "3j"])
    if k < 0.5:
      return "[" + ", ".join(self.value(depth + 1) for _ in range(r.randint(0, 4))) + "]"
    if k < 0.65:
      return "{" + ", ".join("%s: %s" % (r.choice(["1", "'k'", "None", "2.5"]), self.value(depth + 1))
                             for _ in range(r.randint(1, 4))) + "}"
    if k < 0.8:
      return "{" + ", ".join(self.hashable() for _ in range(r.randint(1, 5))) + "}"
    if k < 0.9:
      return "(" + ", ".join(self.value(depth + 1) for _ in range(r.randint(1, 3))) + ",)"
    if self.consts:
      return r.choice(self.consts)
    return "0"

  def hashable(self):
    return self.r.choice(["1", "'s'", "None", "2.5", "True", "b'x'", "(1, 's')", "frozenset([1])"])

  # ---- ingredients --------------------------------------------------------------------------
  def consts_block(self):
    r = self.r
    for _ in range(r.randint(2, 6)):
      n = self.fresh(r.choice(["", "", "_", "K"]))
      k = r.random()
      if k < 0.5:
        self.emit("%s = %s" % (n, self.value()))
      elif k < 0.7:
        self.emit("%s = {%s}" % (n, ", ".join(self.hashable() for _ in range(r.randint(2, 6)))))
        self.features.add("set-literal")
      elif k < 0.85:
        a, b, c = (self.value(2) for _ in range(3))
        self.emit("%s = %s if %s else %s if %s else %s" % (n, a, self.fresh("u"), b, self.fresh("u"), c))
        self.features.add("undefined-names")
      else:
        self.emit("%s = dict(%s)" % (n, ", ".join("%s=%s" % (self.fresh(), self.value(2)) for _ in range(r.randint(1, 4)))))
      self.consts.append(n)

  def typevar_block(self):
    r = self.r
    self.emit("from typing import Any, Callable, Dict, Generic, List, NamedTuple, Optional, Set, Tuple, TypeVar, Union")
    self.tvars = []
    for _ in range(r.randint(1, 3)):
      n = self.fresh("T")
      k = r.random()
      if k < 0.5:
        self.emit("%s = TypeVar('%s')" % (n, n))
      elif k < 0.75:
        self.emit("%s = TypeVar('%s', int, str)" % (n, n))
      else:
        self.emit("%s = TypeVar('%s', bound=int)" % (n, n))
      self.tvars.append(n)
    self.features.add("typevars")

  def class_block(self):
    r = self.r
    cname = self.fresh("C").capitalize()
    bases = []
    k = r.random()
    if self.classes and k < 0.45:
      bases = r.sample(self.classes, min(len(self.classes), r.choice([1, 1, 2])))
      self.features.add("inheritance" if len(bases) == 1 else "multiple-inheritance")
    elif k < 0.6:
      tv = r.choice(self.tvars)
      bases = ["Generic[%s]" % tv]
      self.features.add("generic-class")
    elif k < 0.7:
      fields = [(self.fresh(), r.choice(["int", "str", "List[int]", "Optional[str]"])) for _ in range(r.randint(1, 4))]
      self.emit("class %s(NamedTuple):" % cname)
      for f, t in fields:
        self.emit("  %s: %s" % (f, t))
      self.emit("")
      self.classes.append(cname)
      self.features.add("namedtuple")
      return
    self.emit("class %s%s:" % (cname, "(" + ", ".join(bases) + ")" if bases else ""))
    attrs = [self.fresh() for _ in range(r.randint(2, 6))]
    if r.random() < 0.25 and not bases:
      self.emit("  __slots__ = (%s,)" % ", ".join("'%s'" % a for a in attrs))
      self.features.add("slots")
    for _ in range(r.randint(0, 3)):
      self.emit("  %s = %s" % (self.fresh(), self.value(1)))
    self.emit("  def __init__(self, %s):" % ", ".join("p%d" % i for i in range(r.randint(0, 3))))
    for a in attrs[: max(1, len(attrs) // 2)]:
      self.emit("    self.%s = %s" % (a, self.value(1)))
    for _ in range(r.randint(1, 4)):
      m = self.fresh()
      deco = r.random()
      if deco < 0.12:
        self.emit("  @staticmethod", "  def %s(x, y=None):" % m)
      elif deco < 0.24:
        self.emit("  @classmethod", "  def %s(cls, x=1):" % m)
      elif deco < 0.36:
        self.emit("  @property", "  def %s(self):" % m)
      else:
        self.emit("  def %s(self, x=None, *args, **kwargs):" % m)
      body = r.random()
      if body < 0.4 and deco >= 0.36:
        # attributes assigned outside __init__, with a different type
        for a in r.sample(attrs, min(len(attrs), 2)):
          self.emit("    self.%s = %s" % (a, self.value(1)))
        self.emit("    return self.%s" % r.choice(attrs))
      elif body < 0.7:
        self.emit("    if x:", "      return %s" % self.value(1), "    elif %s:" % self.fresh("u"),
                  "      return %s" % self.value(1), "    return %s" % self.value(1))
        self.features.add("undefined-names")
      else:
        self.emit("    return x")
    self.emit("")
    self.classes.append(cname)

  def func_block(self):
    r = self.r
    f = self.fresh("f")
    k = r.random()
    if k < 0.3:
      # error inside a function that is called from several sites: tracebacks
      p = self.fresh()
      self.emit("def %s(%s, q=0):" % (f, p), "  return %s.%s + %s.%s" % (p, self.fresh(), p, self.fresh()))
      callers = []
      for _ in range(r.randint(0, 2)):
        g = self.fresh("g")
        self.emit("def %s(a):" % g, "  return %s(a)" % f)
        callers.append(g)
      for _ in range(r.randint(2, 5)):
        arg = r.choice(["1", "'s'", "None", "[1]", "1.5", "{}"])
        self.emit("%s(%s)" % (r.choice(callers + [f]), arg))
      self.features.add("tracebacks")
    elif k < 0.5:
      tv = r.choice(self.tvars)
      self.emit("def %s(x: %s, y: List[%s]) -> Dict[%s, %s]:" % (f, tv, tv, tv, tv), "  return {x: y[0]}")
      self.emit("%s = %s(%s, [%s])" % (self.fresh(), f, r.choice(["1", "'s'"]), r.choice(["1", "'s'", "None"])))
      self.features.add("generic-function")
    elif k < 0.7:
      n = r.randint(2, 4)
      self.emit("def %s(x, y=None):" % f)
      for i in range(n):
        self.emit("  %s x == %d:" % ("if" if i == 0 else "elif", i), "    return %s" % self.value(1))
      self.emit("  return y")
      for _ in range(r.randint(1, 3)):
        self.emit("%s = %s(%s, %s)" % (self.fresh(), f, self.value(2), self.value(2)))
      self.features.add("branch-union")
    elif k < 0.85:
      ann = r.choice(["int", "str", "List[int]", "Optional[int]", "Union[int, str]", "Callable[[int], str]", "Set[str]",
                      "Tuple[int, ...]", "Dict[str, Any]"])
      self.emit("def %s(x: %s, *, k: int = 0) -> %s:" % (f, ann, ann), "  return x")
      # wrong argument types / counts
      self.emit("%s(%s)" % (f, r.choice(["1", "'s'", "None", "[1]", "{'a'}", "1.5"])))
      if r.random() < 0.5:
        self.emit("%s(1, 2, 3)" % f)
      if r.random() < 0.5:
        self.emit("%s(%s, k='no')" % (f, r.choice(["1", "'s'"])))
      self.features.add("annotated-calls")
    else:
      self.emit("def %s(*args, **kwargs):" % f, "  return (args, kwargs)")
      self.emit("%s = %s(1, 's', %s=%s)" % (self.fresh(), f, self.fresh(), self.value(1)))
    self.funcs.append(f)

  def error_block(self):
    r = self.r
    k = r.random()
    if k < 0.25 and self.classes:
      c = r.choice(self.classes)
      v = self.fresh()
      self.emit("%s = %s()" % (v, c))
      # several missing attributes on ONE line
      self.emit("%s = (%s)" % (self.fresh(), ", ".join("%s.%s" % (v, self.fresh()) for _ in range(r.randint(2, 4)))))
      self.features.add("same-line-errors")
    elif k < 0.45:
      self.emit("%s = %s + %s" % (self.fresh(), r.choice(["1", "'s'", "None", "[1]"]), r.choice(["'s'", "None", "{}", "1"])))
    elif k < 0.6:
      self.emit("%s = [%s, %s, %s]" % (self.fresh(), self.fresh("u"), self.fresh("u"), self.fresh("u")))
      self.features.add("same-line-errors")
    elif k < 0.75:
      self.emit("%s = len(%s)" % (self.fresh(), r.choice(["1", "None", "1.5"])))
    elif k < 0.9 and self.consts:
      a, b = r.choice(self.consts), r.choice(self.consts)
      self.emit("%s = %s.%s(%s.%s)" % (self.fresh(), a, self.fresh(), b, self.fresh()))
      self.features.add("same-line-errors")
    else:
      self.emit("for %s in %s:" % (self.fresh(), r.choice(["1", "None"])), "  pass")

  def loop_block(self):
    r = self.r
    v = self.fresh()
    self.emit("%s = %s" % (v, r.choice(["None", "0", "[]"])))
    self.emit("for %s in [%s]:" % (self.fresh(), ", ".join(self.value(2) for _ in range(r.randint(2, 4)))))
    self.emit("  %s = %s" % (v, self.value(1)))
    self.emit("  if %s:" % self.fresh("u"), "    %s = %s" % (v, self.value(1)))
    self.features.add("loop-merge")

  def build(self, size):
    r = self.r
    self.typevar_block()
    self.consts_block()
    blocks = []
    for _ in range(r.randint(1, 1 + size)):
      blocks.append(self.class_block)
    for _ in range(r.randint(2, 2 + size)):
      blocks.append(self.func_block)
    for _ in range(r.randint(2, 2 + size)):
      blocks.append(self.error_block)
    for _ in range(r.randint(0, 1)):
      blocks.append(self.loop_block)
    r.shuffle(blocks)
    for b in blocks:
      b()
    if r.random() < 0.3:
      self.consts_block()
    return "\n".join(self.lines) + "\n"


def gen_program(r, size=2):
  g = ProgGen(r)
  src = g.build(size)
  try:
    compile(src, "prog.py", "exec")
  except SyntaxError:
    return gen_program(r, size)
  return src, sorted(g.features)


def gen_unrelated(r):
  """A small unrelated module used as history ('k unrelated analyses in the same process')."""
  g = ProgGen(r)
  g.typevar_block()
  g.consts_block()
  g.class_block()
  g.func_block()
  g.error_block()
  return "\n".join(g.lines) + "\n"
