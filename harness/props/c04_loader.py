"""C04, history part: pytype/load_pytd.py's Loader caches as a state machine.

Generates stub packages (plain modules, packages with and without __init__.pyi, dotted sub-modules, references
into other modules, import cycles, missing modules/classes, a class and a sub-module of the same name, and -
outside the model's dialect - re-exports and star imports) and operation histories (import_name of existing and
missing modules, repeats), drives ONE real Loader through the history and a FRESH real Loader for every single
operation, and
  oracle        : every answer of the reused loader (kind, printed AST, digest of the serialised AST) must equal the
                  fresh loader's answer for the same request  (the property itself, independent of the model);
  correspondence: for universes in the model's dialect, coq/Loader/Model.v's `trace` (answer, key list of _modules,
                  key list of _import_name_cache after every operation) must equal what the real loader shows.
Nothing is written into /repo; the stub trees live under _build/c04/loader.
"""
import hashlib
import json
import logging
import os
import shutil

import common

SCRATCH = os.path.join(common.BUILD, "c04", "loader")
ROOTS = [0, 1, 2, 3]
SUBS = [10, 11, 12]            # later segments AND class ids share this range (so a class can shadow a sub-module)
MISSING_SEG = 19
MISSING_ROOT = 9
FUEL = 40
HEADER = ("From Coq Require Import List Bool Arith.\nFrom PV Require Import Loader.Model.\nImport ListNotations.\n")


def dotted(n):
  return ".".join("n%d" % i for i in n)


def undotted(s):
  return [int(x[1:]) for x in s.split(".")]


# ------------------------------------------------------------------------------------------ generator
def gen_universe(r):
  """{'mods': [{'name', 'pkg', 'init', 'classes', 'refs': [[v, p, c]], 'extra': [lines]}], 'ops': [name]}"""
  mods = {}

  def add(n, pkg):
    mods[tuple(n)] = {"name": list(n), "pkg": pkg, "init": True, "classes": [], "refs": [], "extra": []}

  for root in r.sample(ROOTS, r.randint(2, 4)):
    pkg = r.random() < 0.6
    add([root], pkg)
    if pkg:
      for s in r.sample(SUBS, r.randint(0, 2)):
        sp = r.random() < 0.3
        add([root, s], sp)
        if sp:
          for s2 in r.sample(SUBS, r.randint(0, 1)):
            add([root, s, s2], False)
  names = sorted(mods)
  for n in names:
    m = mods[n]
    m["classes"] = sorted(r.sample(SUBS + [13], r.randint(0, 3)))
    if m["pkg"] and not m["classes"] and r.random() < 0.3:
      m["init"] = False          # a directory without __init__.pyi: an empty package
  # a class of the same name as a sub-module (the shape every `from .x import x` package has)
  for n in names:
    if len(n) >= 2 and r.random() < 0.45:
      par = mods[n[:-1]]
      if par["init"] and n[-1] not in par["classes"]:
        par["classes"] = sorted(par["classes"] + [n[-1]])
  for n in names:
    m = mods[n]
    if not m["init"]:
      continue
    vid = 0
    for _ in range(r.choice([0, 0, 1, 1, 2, 3])):
      k = r.random()
      if k < 0.84:
        p = r.choice(names)
        if p == n:
          continue
        cl = mods[p]["classes"]
        k2 = r.random()
        if cl and k2 < 0.85:
          c = r.choice(cl)
        elif k2 < 0.95:
          c = r.choice(SUBS)
        else:
          c = 14                                   # neither a class nor a sub-module
        p = list(p)
      elif k < 0.93:
        pk = [x for x in names if mods[x]["pkg"]]
        if not pk:
          continue
        p = list(r.choice(pk)) + [MISSING_SEG]     # missing sub-module of an existing package
        c = r.choice(SUBS)
      else:
        p = [MISSING_ROOT] + ([MISSING_SEG] if r.random() < 0.4 else [])
        c = r.choice(SUBS)
      # dialect: per dependency at most one component the dependency does not define as a class
      # (the loop over that set of names runs in hash order)
      tgt = mods.get(tuple(p))
      if tgt is not None and c not in tgt["classes"] and any(
          rp == p and rc not in tgt["classes"] and rc != c for _, rp, rc in m["refs"]):
        continue
      m["refs"].append([vid, p, c])
      vid += 1
  # outside the dialect (oracle only): re-exports and star imports
  flavour = "dialect"
  if r.random() < 0.3:
    flavour = "extended"
    for n in names:
      m = mods[n]
      if not m["init"]:
        continue
      others = [x for x in names if x != n and mods[x]["init"]]
      if others and r.random() < 0.5:
        o = r.choice(others)
        k = r.random()
        if k < 0.4 and mods[o]["classes"]:
          c = r.choice(mods[o]["classes"])
          m["extra"].append("from %s import n%d as r%d" % (dotted(o), c, c))
        elif k < 0.7:
          m["extra"].append("from %s import *" % dotted(o))
        else:
          m["extra"].append("import %s as al%d" % (dotted(o), len(m["extra"])))
          if mods[o]["classes"]:
            m["extra"].append("w%d: al%d.n%d" % (len(m["extra"]), len(m["extra"]) - 1, r.choice(mods[o]["classes"])))
  pool = [list(x) for x in names] * 3 + [[MISSING_ROOT], [r.choice(ROOTS), MISSING_SEG]]
  ops = [r.choice(pool) for _ in range(r.randint(2, 6))]
  if r.random() < 0.5:
    ops.append(r.choice(ops))
  return {"mods": [mods[n] for n in names], "ops": ops, "flavour": flavour}


def render(u, root):
  shutil.rmtree(root, ignore_errors=True)
  os.makedirs(root)
  for m in u["mods"]:
    parts = ["n%d" % i for i in m["name"]]
    if m["pkg"]:
      os.makedirs(os.path.join(root, *parts), exist_ok=True)
      if not m["init"]:
        continue
      path = os.path.join(root, *parts, "__init__.pyi")
    else:
      os.makedirs(os.path.join(root, *parts[:-1]), exist_ok=True)
      path = os.path.join(root, *parts) + ".pyi"
    lines = []
    seen = []
    for _, p, _ in m["refs"]:
      if p not in seen:
        seen.append(p)
        lines.append("import %s" % dotted(p))
    lines += [x for x in m["extra"] if x.startswith(("from", "import"))]
    for c in m["classes"]:
      lines.append("class n%d: ..." % c)
    for v, p, c in m["refs"]:
      lines.append("v%d: %s.n%d" % (v, dotted(p), c))
    lines += [x for x in m["extra"] if not x.startswith(("from", "import"))]
    with open(path, "w") as f:
      f.write("\n".join(lines) + "\n")


def in_dialect(u):
  if u.get("flavour") != "dialect":
    return False
  byname = {tuple(m["name"]): m for m in u["mods"]}
  for m in u["mods"]:
    if not m["pkg"] and any(tuple(x["name"][:len(m["name"])]) == tuple(m["name"]) and x is not m for x in u["mods"]):
      return False
    if len(m["name"]) > 1 and tuple(m["name"][:-1]) not in byname:
      return False
    for _, p, c in m["refs"]:
      if p == m["name"] or p[0] not in ROOTS + [MISSING_ROOT] or any(x in ROOTS for x in p[1:] + [c]):
        return False
  return True


# ------------------------------------------------------------------------------------------ real loader
def _new_loader(root):
  from pytype import config, load_pytd  # pylint: disable=import-outside-toplevel
  o = config.Options.create(python_version=(3, 12), pythonpath=root, module_name="main", typeshed=False)
  return load_pytd.Loader(o)


def _project(ast, pkg):
  from pytype.pytd import pytd  # pylint: disable=import-outside-toplevel
  pre = ast.name + "."
  classes = [c.name[len(pre):] for c in ast.classes]
  refs = []
  for c in ast.constants:
    t = c.type
    if isinstance(t, pytd.ClassType):
      refs.append([c.name[len(pre):], "cls", t.name, t.cls is not None])
    elif isinstance(t, pytd.NamedType):
      refs.append([c.name[len(pre):], "unres", t.name, False])
    else:
      refs.append([c.name[len(pre):], type(t).__name__, getattr(t, "name", ""), False])
  return {"pkg": pkg, "classes": classes, "refs": refs}


def _answer(loader, name):
  """One import_name on the real loader -> observation (no serialisation here: it clears class pointers)."""
  from pytype import load_pytd  # pylint: disable=import-outside-toplevel
  from pytype.pytd import pytd_utils, visitors  # pylint: disable=import-outside-toplevel
  try:
    ast = loader.import_name(name)
  except (load_pytd.BadDependencyError, visitors.ContainerError, KeyError) as e:
    return {"kind": "err", "error": "%s: %s" % (type(e).__name__, e)}, None
  if ast is None:
    return {"kind": "none"}, None
  mod = loader._modules.get(name)  # pylint: disable=protected-access
  return {"kind": "ok", "text": pytd_utils.Print(ast), "proj": _project(ast, bool(mod and mod.is_package()))}, ast


def _digest(ast):
  from pytype.imports import pickle_utils  # pylint: disable=import-outside-toplevel
  return hashlib.sha256(pickle_utils.Serialize(ast)).hexdigest()[:16]


def _keys(loader):
  ms = [k for k in loader._modules._modules if k not in ("builtins", "typing")]  # pylint: disable=protected-access
  ch = [[k, v is not None] for k, v in loader._import_name_cache.items()]  # pylint: disable=protected-access
  return ms, ch


def run_real(u, root):
  """-> (reused: [obs], fresh: [obs]); obs = answer + keys (+ digest for ok answers)."""
  render(u, root)
  reused, keep = [], []
  ld = _new_loader(root)
  for n in u["ops"]:
    a, ast = _answer(ld, dotted(n))
    a["mods"], a["cache"] = _keys(ld)
    reused.append(a)
    keep.append(ast)
  for a, ast in zip(reused, keep):        # after the whole history: serialising clears class pointers in place
    if ast is not None:
      a["digest"] = _digest(ast)
  fresh = []
  for n in u["ops"]:
    ld = _new_loader(root)
    a, ast = _answer(ld, dotted(n))
    a["mods"], a["cache"] = _keys(ld)
    if ast is not None:
      a["digest"] = _digest(ast)
    fresh.append(a)
  return reused, fresh


def same_answer(a, b):
  return a["kind"] == b["kind"] and a.get("text") == b.get("text") and a.get("digest") == b.get("digest") and \
      (a["kind"] != "err" or a["error"].split(":")[0] == b["error"].split(":")[0])


def kinds(a, b):
  return "%s-fresh-vs-%s-reused" % (b["kind"], a["kind"])


def classify(u, i, reused, fresh):
  """Fingerprint of a history dependence, computed on the SHRUNK universe from its structure."""
  a, b = reused[i], fresh[i]
  byname = {tuple(m["name"]): m for m in u["mods"]}
  if i > 0 and any(k == dotted(u["ops"][i]) for k, _ in reused[i - 1]["cache"]):
    # answered from _import_name_cache: never history dependent on the unchanged tree (cached_answer_is_repeated)
    return "loader-history:memoised-answer-differs-from-a-fresh-loader:" + kinds(a, b)
  if any(len(n) >= 2 and n[:-1] in byname and n[-1] in byname[n[:-1]]["classes"] for n in byname):
    return "loader-history:package-class-and-submodule-share-a-name:" + kinds(a, b)
  if b["kind"] == "err" and a["kind"] == "ok" and i > 0 and dotted(u["ops"][i]) in reused[i - 1]["mods"] and \
      not any(k == dotted(u["ops"][i]) for k, _ in reused[i - 1]["cache"]) and any(r["kind"] == "err" for r in reused[:i]):
    return "loader-history:module-loaded-inside-a-failed-import-stays-cached"
  return "loader-history:%s:%s" % (kinds(a, b), features(u))


def features(u):
  f = set()
  for m in u["mods"]:
    if m["refs"]:
      f.add("refs")
    for x in m["extra"]:
      if x.startswith("from") and x.endswith("*"):
        f.add("star")
      elif x.startswith("from"):
        f.add("reexport")
      elif x.startswith("import"):
        f.add("modalias")
  return "+".join(sorted(f)) or "plain"


# ------------------------------------------------------------------------------------------ model side
def coq_name(n):
  return "[" + ";".join(str(i) for i in n) + "]"


def coq_universe(u):
  out = []
  for m in u["mods"]:
    refs = ";".join("(%d,(%s,%d))" % (v, coq_name(p), c) for v, p, c in (m["refs"] if m["init"] else []))
    cls = ";".join(str(c) for c in (m["classes"] if m["init"] else []))
    out.append("(%s, mkRaw %s [%s] [%s])" % (coq_name(m["name"]), "true" if m["pkg"] else "false", cls, refs))
  return "[" + ";".join(out) + "]"


def coq_obs(a):
  if a["kind"] == "none":
    r = "ONone"
  elif a["kind"] == "err":
    r = "OErr"
  else:
    pj = a["proj"]
    refs = []
    for v, k, nm, _ in pj["refs"]:
      n = undotted(nm)
      refs.append("(%s,%s)" % (v[1:], "TCls %s %d" % (coq_name(n[:-1]), n[-1]) if k == "cls" else "TUnres %s" % coq_name(n)))
    r = "OOk (mkEntry %s [%s] [%s])" % ("true" if pj["pkg"] else "false",
                                         ";".join(c[1:] for c in pj["classes"]), ";".join(refs))
  ms = "[" + ";".join(coq_name(undotted(k)) for k in a["mods"]) + "]"
  ch = "[" + ";".join("(%s,%s)" % (coq_name(undotted(k)), "true" if v else "false") for k, v in a["cache"]) + "]"
  return "(%s, %s, %s)" % (r, ms, ch)


CHECKER = """
Definition target_eqb (a b : target) : bool :=
  match a, b with
  | TUnres x, TUnres y => name_eqb x y
  | TCls p c, TCls p' c' => name_eqb p p' && Nat.eqb c c'
  | _, _ => false
  end.
Definition nats_eqb (a b : list nat) : bool := name_eqb a b.
Fixpoint list_eqb {A B} (f : A -> B -> bool) (a : list A) (b : list B) : bool :=
  match a, b with [], [] => true | x :: s, y :: t => f x y && list_eqb f s t | _, _ => false end.
Definition entry_eqb (a b : entry) : bool :=
  Bool.eqb (e_pkg a) (e_pkg b) && nats_eqb (e_classes a) (e_classes b) &&
  list_eqb (fun x y => Nat.eqb (fst x) (fst y) && target_eqb (snd x) (snd y)) (e_refs a) (e_refs b).
Definition ores_eqb (a b : ores) : bool :=
  match a, b with ONone, ONone => true | OErr, OErr => true | OOk x, OOk y => entry_eqb x y | _, _ => false end.
Definition obs_eqb (a b : ores * list name * list (name * bool)) : bool :=
  ores_eqb (fst (fst a)) (fst (fst b)) && list_eqb name_eqb (snd (fst a)) (snd (fst b)) &&
  list_eqb (fun x y => name_eqb (fst x) (fst y) && Bool.eqb (snd x) (snd y)) (snd a) (snd b).
Definition ans_eqb (a : ores) (b : ores * list name * list (name * bool)) : bool := ores_eqb a (fst (fst b)).
(* per case: [trace agrees with the reused real loader; fresh_answers agree with the fresh real loaders;
              the model itself is history independent on this case] *)
Definition check (U : universe) (ops : list name) (reused fresh : list (ores * list name * list (name * bool))) :=
  [list_eqb obs_eqb (trace %d U Model.fresh ops) reused;
   list_eqb ans_eqb (fresh_answers %d U ops) fresh;
   list_eqb ores_eqb (run %d U Model.fresh ops) (fresh_answers %d U ops)].
""" % (FUEL, FUEL, FUEL, FUEL)


def cases_v(cases):
  body = [HEADER, CHECKER]
  for u, reused, fresh in cases:
    body.append("Eval vm_compute in (check %s [%s] [%s] [%s])." % (
        coq_universe(u), ";".join(coq_name(n) for n in u["ops"]),
        ";".join(coq_obs(a) for a in reused), ";".join(coq_obs(a) for a in fresh)))
  return "\n".join(body) + "\n"


def model_trace_v(u):
  return HEADER + "Eval vm_compute in (trace %d %s Model.fresh [%s]).\n" % (
      FUEL, coq_universe(u), ";".join(coq_name(n) for n in u["ops"]))


# ------------------------------------------------------------------------------------------ the leg
def corpus_cases():
  d = os.path.join(common.ROOT, "corpus", "C04") if hasattr(common, "ROOT") else \
      os.path.join(os.path.dirname(common.BUILD), "corpus", "C04")
  out = []
  if os.path.isdir(d):
    for f in sorted(os.listdir(d)):
      if f.startswith("loader_") and f.endswith(".json"):
        out.append(json.load(open(os.path.join(d, f)))["universe"])
  return out


def shrink(u, still_fails):
  """Greedy removal of operations, modules, references, classes and extra lines."""
  changed = True
  while changed:
    changed = False
    for i in range(len(u["ops"]) - 1, -1, -1):
      v = dict(u, ops=u["ops"][:i] + u["ops"][i + 1:])
      if len(v["ops"]) >= 1 and still_fails(v):
        u, changed = v, True
    for i in range(len(u["mods"]) - 1, -1, -1):
      v = dict(u, mods=u["mods"][:i] + u["mods"][i + 1:])
      if still_fails(v):
        u, changed = v, True
    for i, m in enumerate(u["mods"]):
      for key in ("refs", "classes", "extra"):
        for j in range(len(m[key]) - 1, -1, -1):
          m2 = dict(m, **{key: m[key][:j] + m[key][j + 1:]})
          v = dict(u, mods=u["mods"][:i] + [m2] + u["mods"][i + 1:])
          if still_fails(v):
            u, m, changed = v, m2, True
  return u


def first_difference(u, root):
  reused, fresh = run_real(u, root)
  for i in range(len(u["ops"])):
    if not same_answer(reused[i], fresh[i]):
      return i, reused, fresh
  return None, reused, fresh


def run_leg(res, violation_once, n_universes, max_shrinks=8):
  """Returns statistics; registers obligations and violations on res."""
  lg = logging.getLogger("pytype")
  old_level = lg.level
  lg.setLevel(logging.CRITICAL)          # "Couldn't import module ..." for every missing module otherwise
  try:
    return _run_leg(res, violation_once, n_universes, max_shrinks)
  finally:
    lg.setLevel(old_level)


def _run_leg(res, violation_once, n_universes, max_shrinks):
  r = common.rng(res.seed, "c04-loader")
  root = os.path.join(SCRATCH, "p%d" % os.getpid())
  os.makedirs(SCRATCH, exist_ok=True)
  universes = corpus_cases() + [gen_universe(r) for _ in range(n_universes)]
  stats = {"universes": len(universes), "operations": 0, "in_dialect": 0, "answers": {"ok": 0, "none": 0, "err": 0},
           "with_cycle_or_missing": 0, "history_differences": 0, "examined": 0, "not_examined": 0, "known_shape": 0, "shapes": {}}
  coarse_seen = set()
  model_cases = []
  reported = set()

  def report(u, kd):
    def still(v):
      j, a, b = first_difference(v, root)
      return j is not None and kinds(a[j], b[j]) == kd
    small = shrink(u, still)
    j, a, b = first_difference(small, root)
    fp = classify(small, j, a, b)
    what = ("Loader.import_name(%r) after the history %s answers %s, a fresh loader answers %s" % (
        dotted(small["ops"][j]), [dotted(x) for x in small["ops"][:j]],
        a[j].get("error") or a[j]["kind"], b[j].get("error") or b[j]["kind"]))
    if fp not in reported:
      reported.add(fp)
      violation_once(res, fp, what, {"kind": "loader", "universe": small})
    return fp

  for u in universes:
    i, reused, fresh = first_difference(u, root)
    stats["operations"] += len(u["ops"])
    for a in reused:
      stats["answers"][a["kind"]] += 1
    res.count(("loader", json.dumps(u, sort_keys=True)) if len(u["ops"]) >= 2 else None)
    if i is not None:
      stats["history_differences"] += 1
      coarse = (kinds(reused[i], fresh[i]), features(u))
      if coarse in coarse_seen and stats["examined"] >= max_shrinks:
        stats["not_examined"] += 1          # same request kinds and stub features as an examined one; budget used up
      else:
        coarse_seen.add(coarse)
        stats["examined"] += 1
        fp = report(u, kinds(reused[i], fresh[i]))
        stats["shapes"][fp] = stats["shapes"].get(fp, 0) + 1
        if fp in res.known:
          stats["known_shape"] += 1
    if in_dialect(u):
      stats["in_dialect"] += 1
      model_cases.append((u, reused, fresh))
  shutil.rmtree(root, ignore_errors=True)
  res.obligation("oracle:reused-loader-answers-like-a-fresh-loader",
                 stats["examined"] == stats["known_shape"],
                 "%d of %d histories differ; %d examined (shrunk and classified), %d of them of a listed shape" % (
                     stats["history_differences"], len(universes), stats["examined"], stats["known_shape"]))
  # model
  per_file = 60
  files = [("ld%03d" % k, cases_v(model_cases[k:k + per_file])) for k in range(0, len(model_cases), per_file)]
  out = common.run_cases_parallel(files, subdir="c04ld_p%d" % os.getpid())
  bad, model_dep, broken = [], 0, []
  idx = 0
  for name, _ in files:
    ok, text = out[name]
    terms = common.parse_coq_eval(text) if ok else []
    chunk = model_cases[idx:idx + per_file]
    if not ok or len(terms) != len(chunk):
      broken.append((name, text[-600:]))
    else:
      for (u, reused, fresh), t in zip(chunk, terms):
        flags = [x.strip() == "true" for x in t.strip("[] ").split(";")]
        if not (flags[0] and flags[1]):
          bad.append((u, flags))
        if not flags[2]:
          model_dep += 1
    idx += per_file
  stats["model_cases"] = len(model_cases)
  stats["model_history_dependent_cases"] = model_dep
  detail = ""
  if broken:
    detail = "cases file failed: %s" % (broken[0],)
  elif bad:
    u, flags = bad[0]
    o = common.run_cases_parallel([("ldbad", model_trace_v(u))], subdir="c04ldb_p%d" % os.getpid())["ldbad"][1]
    detail = "model vs real loader differ (trace ok=%s, fresh ok=%s) on %s; model trace: %s" % (
        flags[0], flags[1], json.dumps(u), " ".join(o.split())[:1500])
  res.obligation("correspondence:loader-model-vs-load_pytd.Loader", not bad and not broken, detail[:3000])
  stats["model_mismatches"] = len(bad)
  return stats


def replay(rp):
  common.bootstrap_pytype()
  u = rp["universe"]
  root = os.path.join(SCRATCH, "replay%d" % os.getpid())
  i, reused, fresh = first_difference(u, root)
  for m in u["mods"]:
    print("module", dotted(m["name"]), "package" if m["pkg"] else "", "classes", m["classes"],
          "refs", [(v, dotted(p), c) for v, p, c in m["refs"]], m["extra"])
  for k, n in enumerate(u["ops"]):
    print("import_name(%s): reused -> %s | fresh -> %s" % (
        dotted(n), reused[k].get("error") or reused[k].get("text", reused[k]["kind"]).replace("\n", " / "),
        fresh[k].get("error") or fresh[k].get("text", fresh[k]["kind"]).replace("\n", " / ")))
  shutil.rmtree(root, ignore_errors=True)
  return 1 if i is not None else 0
