"""C01 helper: the class fragment L1 (coq/Vm/ClassModel.v) on the harness side.

program := {"classes": [cls], "body": [top]}
cls     := {"bases": [int], "cattrs": [(a, expr)], "meths": [(m, [param], [lstmt])]}      (m = 0 is __init__)
top     := ('def', f, [param], [L0 stmt]) | ('stmt', lstmt)
lstmt   := ('assign', x, e) | ('get', x, o, a) | ('set', o, a, e) | ('new', on, c, [e]) | ('call', x, o, m, [e])
         | ('super', x, m, [e]) | ('if', c, [lstmt], [lstmt]) | ('pass',) | ('return', e)
o       := 'self' | int (module-level object name, rendered o<i>)
Expressions are L0 expressions (c01_l0).  Classes are rendered K<i>, attributes a<i>, methods m<i>.
"""
import ast

import c01_l0 as L0


def r_o(o):
  return "self" if o == "self" else "o%d" % o


def r_m(m):
  return "__init__" if m == 0 else "m%d" % m


def r_args(es):
  return ", ".join(L0.r_expr(e) for e in es)


def r_lblock(ss, ind, out):
  if not ss:
    out.append(ind + "pass")
  for s in ss:
    r_lstmt(s, ind, out)


def r_lstmt(s, ind, out):
  t = s[0]
  if t == "assign":
    out.append("%sn%d = %s" % (ind, s[1], L0.r_expr(s[2])))
  elif t == "get":
    out.append("%sn%d = %s.a%d" % (ind, s[1], r_o(s[2]), s[3]))
  elif t == "set":
    out.append("%s%s.a%d = %s" % (ind, r_o(s[1]), s[2], L0.r_expr(s[3])))
  elif t == "new":
    out.append("%so%d = K%d(%s)" % (ind, s[1], s[2], r_args(s[3])))
  elif t == "call":
    out.append("%sn%d = %s.%s(%s)" % (ind, s[1], r_o(s[2]), r_m(s[3]), r_args(s[4])))
  elif t == "super":
    out.append("%sn%d = super().%s(%s)" % (ind, s[1], r_m(s[2]), r_args(s[3])))
  elif t == "if":
    out.append("%sif %s:" % (ind, L0.r_expr(s[1])))
    r_lblock(s[2], ind + "  ", out)
    if s[3]:
      out.append(ind + "else:")
      r_lblock(s[3], ind + "  ", out)
  elif t == "pass":
    out.append(ind + "pass")
  elif t == "return":
    out.append("%sreturn %s" % (ind, L0.r_expr(s[1])))
  else:
    raise ValueError(s)


def render(prog):
  out = []
  for i, c in enumerate(prog["classes"]):
    out.append("class K%d%s:" % (i, "(" + ", ".join("K%d" % b for b in c["bases"]) + ")" if c["bases"] else ""))
    if not c["cattrs"] and not c["meths"]:
      out.append("  pass")
    for a, e in c["cattrs"]:
      out.append("  a%d = %s" % (a, L0.r_expr(e)))
    for m, params, body in c["meths"]:
      out.append("  def %s(%s):" % (r_m(m), ", ".join(["self"] + ["n%d" % p for p in params])))
      r_lblock(body, "    ", out)
  for t in prog["body"]:
    if t[0] == "def":
      L0.r_stmt(t, "", out)
    else:
      r_lstmt(t[1], "", out)
  return "\n".join(out) + "\n"


# ---------------------------------------------------------------------------------------
# generator

AMBIG_T = [("int", 100), ("int", 13), ("float", 5)]          # truthy at run time, undecided abstractly
AMBIG_F = [("float", 0)]                                      # falsy at run time, undecided abstractly
LITS = [("int", 1), ("int", 0), ("int", 100), ("float", 3), ("float", 0), ("str", 1), ("str", 0), ("str", 2),
        ("none",), ("bool", True), ("bool", False), ("bytes", 1)]


class Gen:
  def __init__(self, r):
    self.r = r
    self.next_name = 2

  def lit(self):
    return self.r.choice(LITS)

  def atom(self, names):
    if names and self.r.random() < 0.45:
      return ("name", self.r.choice(names))
    return self.lit()

  def expr(self, names, rich):
    """rich: inside a function frame (tests may be decided abstractly); otherwise only undecidable-free shapes"""
    k = self.r.random()
    if k < 0.5:
      return self.atom(names)
    if k < 0.62:
      return ("list", [self.atom(names) for _ in range(self.r.randint(0, 2))])
    if k < 0.7:
      return ("tuple", [self.atom(names) for _ in range(self.r.randint(1, 2))])
    if not rich or not names:
      return self.atom(names)
    c = ("name", self.r.choice(names))
    if k < 0.8:
      return ("ifexp", c, self.atom(names), self.atom(names))
    if k < 0.86:
      return ("isnone", c)
    if k < 0.92:
      return ("or", c, self.atom(names))
    if k < 0.96:
      return ("and", c, self.atom(names))
    return ("not", c)

  def fresh(self):
    self.next_name += 1
    return self.next_name - 1

  def method_body(self, cls_i, m, params, is_root, arity, attrs_set, n_meths):
    r = self.r
    names = list(params)
    body = []
    if not is_root and r.random() < (0.8 if m == 0 else 0.6):
      x = 40 + len(body)
      body.append(("super", x, m, [self.atom(names) for _ in range(arity[m])]))
      if m != 0:
        names.append(x)
    for _ in range(r.randint(1, 3)):
      k = r.random()
      if m == 0 and k < 0.6:
        a = r.choice([0, 1, 0, 1, 2])
        e = self.expr(names, True)
        if r.random() < 0.25 and names:
          body.append(("if", ("name", r.choice(names)), [("set", "self", a, e)],
                       [("set", "self", a, self.expr(names, True))]))
        else:
          body.append(("set", "self", a, e))
        attrs_set.add(a)
      elif k < 0.5:
        x = 40 + len(body) + 1
        body.append(("get", x, "self", r.choice([0, 1, 2, 3]) if r.random() < 0.1 else r.choice([0, 1])))
        names.append(x)
      elif k < 0.65 and m != 0 and m < n_meths:
        m2 = r.randint(m + 1, n_meths)
        x = 40 + len(body) + 1
        body.append(("call", x, "self", m2, [self.atom(names) for _ in range(arity[m2])]))
        names.append(x)
      elif k < 0.8:
        x = 40 + len(body) + 1
        body.append(("assign", x, self.expr(names, True)))
        names.append(x)
      elif names and m != 0:
        body.append(("if", ("name", r.choice(names)), [("return", self.expr(names, True))], []))
    if m == 0:
      if is_root:
        for a in (0, 1):
          if not any(s[0] == "set" and s[2] == a for s in body):
            body.insert(0, ("set", "self", a, self.expr(list(params), True)))
    else:
      body.append(("return", self.expr(names, True)))
    return body

  def program(self):
    r = self.r
    n_meths = r.randint(1, 3)
    arity = {0: r.randint(0, 2)}
    for m in range(1, n_meths + 1):
      arity[m] = r.randint(0, 1)
    classes = []
    if r.random() < 0.5:
      shape = [[], [0], [0], [1, 2]]                      # the diamond
      if r.random() < 0.4:
        shape.append([r.choice([1, 2, 3])])
    else:
      shape = [[]]
      for i in range(1, r.randint(2, 4)):
        k = r.random()
        if k < 0.2:
          shape.append([])
        elif k < 0.8 or i < 2:
          shape.append([r.randrange(i)])
        else:
          shape.append(r.sample(range(i), 2))
    for i, bases in enumerate(shape):
      is_root = not bases
      cattrs = []
      for a in (2, 3):
        if r.random() < (0.5 if is_root else 0.25):
          cattrs.append((a, self.lit() if r.random() < 0.8 else ("list", [self.lit()])))
      meths = []
      attrs_set = set()
      for m in range(0, n_meths + 1):
        if is_root or r.random() < 0.55:
          params = [20 + j for j in range(arity[m])]
          meths.append((m, params, self.method_body(i, m, params, is_root, arity, attrs_set, n_meths)))
      classes.append({"bases": bases, "cattrs": cattrs, "meths": meths})
    body = []
    tf = r.choice(AMBIG_T + AMBIG_F)
    body.append(("stmt", ("assign", 0, tf)))
    body.append(("stmt", ("assign", 1, r.choice(AMBIG_T + AMBIG_F))))
    names = [0, 1]
    objs = []

    def fresh(depth=0):
      self.next_name += 1
      if depth == 0:
        names.append(self.next_name - 1)      # names bound inside a branch are not read later (NameError)
      return self.next_name - 1

    def stmt(depth):
      k = r.random()
      if not objs or k < 0.18:
        o = len(objs) + 1 if depth == 0 or not objs else r.choice(objs)
        c = r.randrange(len(classes))
        s = ("new", o, c, [self.atom(names) for _ in range(arity[0])])
        if o not in objs:
          objs.append(o)
        return s
      o = r.choice(objs)
      if k < 0.36:
        return ("get", fresh(depth), o, r.choice([0, 1, 0, 1, 0, 1, 2, 3]))
      if k < 0.52:
        return ("set", o, r.choice([0, 1]), self.expr(names, False))
      if k < 0.78:
        m = r.randint(1, n_meths)
        return ("call", fresh(depth), o, m, [self.atom(names) for _ in range(arity[m])])
      if k < 0.86:
        return ("assign", fresh(depth), self.expr(names, False))
      if depth < 2:
        c = ("name", r.choice([0, 1]))
        if r.random() < 0.3:
          c = ("not", c)
        th = [stmt(depth + 1) for _ in range(r.randint(1, 2))]
        el = [stmt(depth + 1) for _ in range(r.randint(0, 2))]
        return ("if", c, th, el)
      return ("pass",)

    for _ in range(r.randint(4, 10)):
      body.append(("stmt", stmt(0)))
    return {"classes": classes, "body": body}


def generate(r):
  return Gen(r).program()


# ---------------------------------------------------------------------------------------
# what to observe

def walk_lstmts(ss):
  for s in ss:
    yield s
    if s[0] == "if":
      yield from walk_lstmts(s[2])
      yield from walk_lstmts(s[3])


def ancestors(prog, c):
  """reflexive-transitive base classes of class c"""
  out, todo = set(), [c]
  while todo:
    k = todo.pop()
    if k not in out:
      out.add(k)
      todo.extend(prog["classes"][k]["bases"])
  return out


def repeated_method_call(prog):
  """is some method name called at two call sites (module level or inside methods)?  pytype's call cache
  (InterpreterFunction._call_cache, not modelled) can then answer the second call with the first one's bindings"""
  seen = set()
  blocks = [[t[1] for t in prog["body"] if t[0] == "stmt"]]
  blocks += [b for c in prog["classes"] for _, _, b in c["meths"]]
  for b in blocks:
    for s in walk_lstmts(b):
      if s[0] in ("call", "super"):
        m = s[3] if s[0] == "call" else s[2]
        if m != 0 and m in seen:
          return True
        seen.add(m)
  return False


def observed(prog):
  """(value names assigned at module level, object names, (class, attr) pairs, (class, method) pairs)"""
  names, onames = set(), set()
  for t in prog["body"]:
    if t[0] != "stmt":
      continue
    for s in walk_lstmts([t[1]]):
      if s[0] in ("assign", "get", "call"):
        names.add(s[1])
      elif s[0] == "new":
        onames.add(s[1])
  attrs = [(c, a) for c in range(len(prog["classes"])) for a in range(4)]
  meths = [(i, m) for i, c in enumerate(prog["classes"]) for m, _, _ in c["meths"]]
  return sorted(names), sorted(onames), attrs, meths


# ---------------------------------------------------------------------------------------
# CPython reference run

def run_cpython(src, n_classes):
  g = {}
  try:
    exec(compile(src, "<l1>", "exec"), g)  # pylint: disable=exec-used
  except Exception as e:  # pylint: disable=broad-except
    return None, None, type(e).__name__ + ": " + str(e)
  classes = {g["K%d" % i]: i for i in range(n_classes)}
  vals, objs = {}, {}
  for k, v in g.items():
    if k.startswith("n") and k[1:].isdigit():
      vals[int(k[1:])] = v
    elif k.startswith("o") and k[1:].isdigit():
      objs[int(k[1:])] = (classes[type(v)], {int(a[1:]): w for a, w in vars(v).items()})
  return vals, objs, None


# ---------------------------------------------------------------------------------------
# Coq printing

def c_o(o):
  return "OSelf" if o == "self" else "(OName %d)" % o


def c_exprs(es):
  return L0.c_list(L0.c_expr(e) for e in es)


def c_lstmt(s):
  t = s[0]
  if t == "assign":
    return "(LAssign %d %s)" % (s[1], L0.c_expr(s[2]))
  if t == "get":
    return "(LGet %d %s %d)" % (s[1], c_o(s[2]), s[3])
  if t == "set":
    return "(LSet %s %d %s)" % (c_o(s[1]), s[2], L0.c_expr(s[3]))
  if t == "new":
    return "(LNew %d %d %s)" % (s[1], s[2], c_exprs(s[3]))
  if t == "call":
    return "(LCall %d %s %d %s)" % (s[1], c_o(s[2]), s[3], c_exprs(s[4]))
  if t == "super":
    return "(LSuper %d %d %s)" % (s[1], s[2], c_exprs(s[3]))
  if t == "if":
    return "(LIf %s %s %s)" % (L0.c_expr(s[1]), L0.c_list(c_lstmt(x) for x in s[2]),
                               L0.c_list(c_lstmt(x) for x in s[3]))
  if t == "pass":
    return "LPass"
  if t == "return":
    return "(LReturn %s)" % L0.c_expr(s[1])
  raise ValueError(s)


def c_prog(prog):
  cs = []
  for c in prog["classes"]:
    cs.append("(mkclass %s %s %s)" % (
        L0.c_list(str(b) for b in c["bases"]),
        L0.c_list("(%d, %s)" % (a, L0.c_expr(e)) for a, e in c["cattrs"]),
        L0.c_list("(%d, (%s, %s))" % (m, L0.c_list(str(p) for p in ps), L0.c_list(c_lstmt(x) for x in b))
                  for m, ps, b in c["meths"])))
  tops = []
  for t in prog["body"]:
    if t[0] == "def":
      s = L0.norm_stmt(t)
      tops.append("(LDef %d %s %s)" % (s[1], L0.c_list(str(x) for x in s[2]), L0.c_list(L0.c_stmt(x) for x in s[3])))
    else:
      tops.append("(LStmt %s)" % c_lstmt(t[1]))
  return "(mkprog %s %s)" % (L0.c_list(cs), L0.c_list(tops))


def cases_file(cases, fuel=8):
  """cases: list of (prog, names, onames, attrs, meths)"""
  out = ["From Coq Require Import List ZArith.", "From PV Require Import Vm.Model Vm.ClassModel.",
         "Import ListNotations.", "Open Scope nat_scope."]
  for prog, names, onames, attrs, meths in cases:
    out.append("Eval vm_compute in (lreport %s %s %s %s %s %d)." % (
        c_prog(prog), L0.c_list(str(n) for n in names), L0.c_list(str(n) for n in onames),
        L0.c_list("(%d, %d)" % ca for ca in attrs), L0.c_list("(%d, %d)" % cm for cm in meths), fuel))
  return "\n".join(out) + "\n"


# ---------------------------------------------------------------------------------------
# the stub

def norm_ty(t):
  """type variables of the printed signature (`_T0`) stand for the Any argument of the canonical call"""
  k = t[0]
  if k == "base":
    if t[1] in ("list", "set"):
      return ("gen", t[1], (("any",),))            # a bare container name is printed for list[Any]
    if t[1] == "dict":
      return ("gen", "dict", (("any",), ("any",)))
    if t[1] == "tuple":
      return ("homtuple", ("any",))
    return ("any",) if t[1].startswith("_T") else t
  if k == "gen":
    return ("gen", t[1], tuple(norm_ty(x) for x in t[2]))
  if k == "tuple":
    return ("tuple", tuple(norm_ty(x) for x in t[1]))
  if k == "homtuple":
    return ("homtuple", norm_ty(t[1]))
  if k == "union":
    return L0.mk_union([norm_ty(x) for x in t[1]])
  return t


def parse_stub(pyi):
  """-> (consts {name: ty}, classes {K: ({attr: ty}, {method: return ty})})"""
  consts, classes = {}, {}
  tree = ast.parse(pyi)
  for node in tree.body:
    if isinstance(node, ast.AnnAssign) and isinstance(node.target, ast.Name):
      consts[node.target.id] = norm_ty(L0.parse_type_expr(node.annotation))
    elif isinstance(node, ast.ClassDef):
      attrs, meths = {}, {}
      for b in node.body:
        if isinstance(b, ast.AnnAssign) and isinstance(b.target, ast.Name):
          attrs[b.target.id] = norm_ty(L0.parse_type_expr(b.annotation))
        elif isinstance(b, ast.FunctionDef):
          meths[b.name] = norm_ty(L0.parse_type_expr(b.returns)) if b.returns is not None else ("any",)
      classes[node.name] = (attrs, meths)
  return consts, classes
