"""Generator of syntactically valid Python 3.12 programs with rich control flow for C16.

The programs are only compiled (never run), so names need not be bound.  Every random choice comes from the
`random.Random` passed in.  Function kinds are fixed up front (plain / generator / async / async generator) so
that yield / await / return-with-value are only generated where the compiler accepts them.
"""

NAMES = ["a", "b", "c", "d", "e", "x", "y", "z"]


class Ctx:
  __slots__ = ("kind", "in_loop", "in_func", "no_jump")

  def __init__(self, kind=None, in_loop=False, in_func=False, no_jump=False):
    self.kind = kind          # None (module/class) | "plain" | "gen" | "async" | "asyncgen"
    self.in_loop = in_loop
    self.in_func = in_func
    self.no_jump = no_jump    # inside except*: no break/continue/return

  def loop(self):
    return Ctx(self.kind, True, self.in_func, self.no_jump)

  def star(self):
    return Ctx(self.kind, False, self.in_func, True)

  @property
  def is_async(self):
    return self.kind in ("async", "asyncgen")


class Gen:
  """One program."""

  def __init__(self, r, max_depth=4):
    self.r = r
    self.max_depth = max_depth
    self.nfun = 0
    self.in_comp = 0
    self.npat = 0
    self.cleanup_depth = 0    # nesting of finally / with (CPython duplicates their exit code on every path)

  # ---- expressions
  def name(self):
    return self.r.choice(NAMES)

  def atom(self):
    k = self.r.random()
    if k < 0.5:
      return self.name()
    if k < 0.7:
      return str(self.r.randint(0, 9))
    if k < 0.8:
      return self.r.choice(["None", "True", "False", "'s'", "b'b'", "1.5"])
    if k < 0.9:
      return "%s.%s" % (self.name(), self.r.choice(["p", "q"]))
    return "%s[%s]" % (self.name(), self.r.randint(0, 3))

  def expr(self, ctx, depth=0):
    r = self.r
    if depth >= 3:
      return self.atom()
    k = r.random()
    e = lambda: self.expr(ctx, depth + 1)
    if k < 0.25:
      return self.atom()
    if k < 0.35:
      return "%s %s %s" % (e(), r.choice(["+", "-", "*", "//", "%", "&", "|"]), e())
    if k < 0.45:
      return "(%s %s %s)" % (e(), r.choice(["and", "or"]), e())
    if k < 0.50:
      return "(not %s)" % e()
    if k < 0.58:
      ops = [r.choice(["<", "<=", "==", "!=", "is", "is not", "in", "not in"]) for _ in range(r.randint(1, 3))]
      return "(" + e() + "".join(" %s %s" % (o, e()) for o in ops) + ")"
    if k < 0.66:
      return "(%s if %s else %s)" % (e(), e(), e())
    if k < 0.76:
      args = [e() for _ in range(r.randint(0, 3))]
      if r.random() < 0.2:
        args.append("*" + self.name())
      if r.random() < 0.2:
        args.append("k=" + e())
      if r.random() < 0.1:
        args.append("**" + self.name())
      return "%s(%s)" % (r.choice(["g", "h", self.name() + ".m"]), ", ".join(args))
    if k < 0.84:
      return self.comprehension(ctx, depth)
    if k < 0.87:
      return "(lambda %s: %s)" % (r.choice(["", "u", "u, v=1", "*u", "u, /, v", "**kw"]),
                                  self.expr(Ctx("plain", False, True), depth + 1))
    if k < 0.90 and not self.in_comp:
      return "(%s := %s)" % (self.name(), e())
    if k < 0.93:
      return "f'{%s}-{%s!r:>{%s}}'" % (self.name(), self.name(), self.name())
    if k < 0.96:
      return r.choice(["[%s, *%s]", "(%s, %s)", "{%s: %s}", "{%s, %s}"]) % (e(), self.name())
    if ctx.is_async and k < 0.99:
      return "(await %s)" % e()
    if ctx.kind in ("gen", "asyncgen") and depth == 0:
      return "(yield %s)" % self.atom()
    return self.atom()

  def comprehension(self, ctx, depth):
    self.in_comp += 1
    try:
      return self._comprehension(ctx, depth)
    finally:
      self.in_comp -= 1

  def _comprehension(self, ctx, depth):
    r = self.r
    n = r.randint(1, 2)
    clauses = []
    for _ in range(n):
      is_async = ctx.is_async and r.random() < 0.35
      c = "%sfor %s in %s" % ("async " if is_async else "", r.choice(["u", "v", "(u, v)", "w"]),
                             self.expr(ctx, depth + 2))
      for _ in range(r.choice([0, 0, 1, 2])):
        c += " if %s" % self.expr(ctx, depth + 2)
      clauses.append(c)
    body = self.expr(ctx, depth + 2)
    if ctx.is_async and r.random() < 0.2:
      body = "await " + body
    kind = r.randint(0, 3)
    tail = " ".join(clauses)
    if kind == 0:
      return "[%s %s]" % (body, tail)
    if kind == 1:
      return "{%s %s}" % (body, tail)
    if kind == 2:
      return "{%s: %s %s}" % (body, self.atom(), tail)
    return "(%s %s)" % (body, tail)

  # ---- statements
  def block(self, ctx, depth, ind, lo=1, hi=3):
    out = []
    for _ in range(self.r.randint(lo, hi)):
      out.extend(self.stmt(ctx, depth, ind))
    return out

  def pattern(self, depth=0, capture=True):
    r = self.r
    k = r.random()
    if depth >= 2 or k < 0.3:
      return r.choice(["0", "1", "'s'", "None", "True", "K.c"])
    if k < 0.45 and capture:
      self.npat += 1
      star = r.choice(["_", "rest%d" % self.npat])
      return "[%s, *%s]" % (self.pattern(depth + 1, capture), star)
    if k < 0.55:
      return "{'k': %s}" % self.pattern(depth + 1, capture)
    if k < 0.65:
      return "C(%s, f=%s)" % (self.pattern(depth + 1, capture), self.pattern(depth + 1, capture))
    if k < 0.80:
      return "%s | %s" % (self.pattern(depth + 1, False), self.pattern(depth + 1, False))
    if k < 0.90 and capture:
      self.npat += 1
      return "(%s, %s) as t%d" % (self.pattern(depth + 1, False), self.pattern(depth + 1, False), self.npat)
    return "[%s, %s]" % (self.pattern(depth + 1, False), self.pattern(depth + 1, False))

  def stmt(self, ctx, depth, ind):
    r = self.r
    p = "  " * ind
    deep = depth >= self.max_depth
    k = r.random()
    E = lambda: self.expr(ctx)
    B = lambda c=ctx, lo=1, hi=(3 if depth < 2 else 2): self.block(c, depth + 1, ind + 1, lo, hi)
    if deep or k < 0.16:
      j = r.random()
      if j < 0.4:
        return [p + "%s = %s" % (r.choice([self.name(), "%s, %s" % (self.name(), self.name()),
                                           "%s, *%s" % (self.name(), self.name()), self.name() + ".p",
                                           self.name() + "[0]"]), E())]
      if j < 0.55:
        return [p + "%s %s= %s" % (self.name(), r.choice(["+", "-", "*", "|"]), E())]
      if j < 0.8:
        return [p + E()]
      if j < 0.86:
        return [p + "assert %s, %s" % (E(), E())]
      if j < 0.9:
        return [p + "del %s" % self.name()]
      if j < 0.94:
        return [p + "%s: int = %s" % (self.name(), E())]
      return [p + "pass"]
    if k < 0.28:
      out = [p + "if %s:" % E()] + B()
      for _ in range(r.choice([0, 0, 1, 2])):
        out += [p + "elif %s:" % E()] + B()
      if r.random() < 0.5:
        out += [p + "else:"] + B()
      return out
    if k < 0.36:
      out = [p + "while %s:" % r.choice([E(), "True", "1", E()])] + B(ctx.loop())
      if r.random() < 0.3:
        out += [p + "else:"] + B()
      return out
    if k < 0.46:
      out = [p + "for %s in %s:" % (r.choice([self.name(), "%s, %s" % (self.name(), self.name())]), E())] + B(ctx.loop())
      if r.random() < 0.3:
        out += [p + "else:"] + B()
      return out
    if k < 0.65 and self.cleanup_depth >= 2:
      k = 0.2                  # too deep for another finally/with: emit an if instead
      out = [p + "if %s:" % E()] + B()
      return out
    if k < 0.58:
      self.cleanup_depth += 1
      try:
        return self.try_stmt(ctx, depth, ind, B, E)
      finally:
        self.cleanup_depth -= 1
    if k < 0.65:
      self.cleanup_depth += 1
      try:
        items = ", ".join("%s%s" % (E(), r.choice(["", " as " + self.name()])) for _ in range(r.randint(1, 3)))
        return [p + "%swith %s:" % ("async " if ctx.is_async and r.random() < 0.5 else "", items)] + B()
      finally:
        self.cleanup_depth -= 1
    if k < 0.70:
      return self.match_stmt(ctx, depth, ind, E)
    return self.stmt_tail(ctx, depth, ind, k, B, E)

  def try_stmt(self, ctx, depth, ind, B, E):
    r = self.r
    p = "  " * ind
    if True:
      j = r.random()
      out = [p + "try:"] + B()
      if j < 0.15:
        return out + [p + "finally:"] + B()
      if j < 0.27:
        # except* : no break/continue/return in the handlers
        for _ in range(r.randint(1, 2)):
          out += [p + "except* %s%s:" % (r.choice(["E1", "(E1, E2)", "E3"]), r.choice(["", " as ex"]))] + B(ctx.star())
        if r.random() < 0.3:
          out += [p + "else:"] + B()
        if r.random() < 0.3:
          out += [p + "finally:"] + B()
        return out
      for _ in range(r.randint(1, 3)):
        out += [p + "except %s%s:" % (r.choice(["E1", "(E1, E2)", "E3", "Exception"]), r.choice(["", " as ex"]))] + B()
      if r.random() < 0.2:
        out += [p + "except:"] + B()
      if r.random() < 0.3:
        out += [p + "else:"] + B()
      if r.random() < 0.4:
        out += [p + "finally:"] + B()
      return out

  def match_stmt(self, ctx, depth, ind, E):
    r = self.r
    p = "  " * ind
    if True:
      out = [p + "match %s:" % E()]
      n = r.randint(1, 4)
      for i in range(n):
        last = i == n - 1
        pat = self.pattern()
        if last and r.random() < 0.5:
          pat = r.choice(["_", "other"])
        guard = " if %s" % E() if r.random() < 0.3 else ""
        out += [p + "  case %s%s:" % (pat, guard)] + self.block(ctx, depth + 2, ind + 2)
      return out

  def stmt_tail(self, ctx, depth, ind, k, B, E):
    r = self.r
    p = "  " * ind
    if k < 0.76 and ctx.in_loop and not ctx.no_jump:
      return [p + r.choice(["break", "continue", "continue"])]
    if k < 0.80 and ctx.in_func and not ctx.no_jump:
      if ctx.kind == "asyncgen" or r.random() < 0.3:
        return [p + "return"]
      return [p + "return " + E()]
    if k < 0.84:
      return [p + r.choice(["raise", "raise %s" % E(), "raise %s from %s" % (E(), E())])]
    if k < 0.88 and ctx.is_async:
      j = r.random()
      if j < 0.55:
        out = [p + "async for %s in %s:" % (self.name(), E())] + B(ctx.loop())
        if r.random() < 0.3:
          out += [p + "else:"] + B()
        return out
      if j < 0.8:
        return [p + "%s = await %s" % (self.name(), E())]
      return [p + "await %s" % E()]
    if k < 0.91 and ctx.kind in ("gen", "asyncgen"):
      if ctx.kind == "gen" and r.random() < 0.4:
        return [p + "%s = yield from %s" % (self.name(), E())]
      return [p + r.choice(["yield", "yield %s" % E(), "%s = yield %s" % (self.name(), E())])]
    if k < 0.97 and depth < self.max_depth - 1:
      return self.funcdef(ctx, depth, ind)
    if k < 0.99 and depth < self.max_depth - 1:
      self.nfun += 1
      out = [p + "class C%d%s:" % (self.nfun, r.choice(["", "(B)", "(B, metaclass=M)"]))]
      return out + self.block(Ctx(None, False, False), depth + 1, ind + 1)
    return [p + "%s = %s" % (self.name(), E())]

  def funcdef(self, ctx, depth, ind):
    r = self.r
    p = "  " * ind
    self.nfun += 1
    kind = r.choice(["plain", "plain", "gen", "async", "async", "asyncgen"])
    args = r.choice(["", "a", "a, b=1", "a, *b, c=2, **d", "a, /, b, *, c", "self"])
    deco = [p + "@" + r.choice(["dec", "dec(1)", "a.b"])] if r.random() < 0.2 else []
    head = p + "%sdef f%d(%s)%s:" % ("async " if kind in ("async", "asyncgen") else "", self.nfun, args,
                                    r.choice(["", "", " -> int"]))
    body = self.block(Ctx(kind, False, True), depth + 1, ind + 1, 1, 4)
    if kind in ("gen", "asyncgen"):
      body.append("  " * (ind + 1) + "yield " + self.atom())
    return deco + [head] + body


def program(r, size=None):
  g = Gen(r, max_depth=r.choice([2, 3, 3, 4]))
  ctx = Ctx(None, False, False)
  out = []
  for _ in range(size or r.randint(1, 4)):
    if r.random() < 0.6:
      out.extend(g.funcdef(ctx, 0, 0))
    else:
      out.extend(g.stmt(ctx, 0, 0))
  return "\n".join(out) + "\n"


# ---------------------------------------------------------------------------------------------------
# LARGE code objects: force EXTENDED_ARG wherever it can occur (name / attribute / constant / local indices
# >= 256, jump distances > 255 code units) and put every kind of instruction with inline cache entries at the END
# of try / with / loop / match ranges, with small and with >= 256 opargs.

# statements whose last emitted instruction(s) carry inline caches; {A} fresh attribute, {G} fresh global,
# {L} local, {K} fresh constant
TAILS_FUNC = [
    "return o.{A}",                    # LOAD_ATTR
    "return {G}",                      # LOAD_GLOBAL
    "return {G}({L})",                 # CALL
    "return o.{A}({L}, {K})",          # LOAD_ATTR(method) + CALL
    "return {L} + {G}",                # BINARY_OP
    "return {L} < o.{A}",              # COMPARE_OP
    "return {L}[{G}]",                 # BINARY_SUBSCR
    "return {L}[1:{K}]",               # BINARY_SLICE
    "return {L} in {G}",               # CONTAINS_OP
    "return {L} is not {G}",           # IS_OP
    "return -o.{A}",                   # UNARY
    "return [*{L}, {G}]",              # LIST_EXTEND / LIST_APPEND
    "return f'{{{L}}}{{o.{A}!r}}'",    # FORMAT_VALUE / BUILD_STRING
    "return {K}",                      # RETURN_CONST / LOAD_CONST with big index
    "return ({L}, o.{A}, {K})",        # BUILD_TUPLE
]
TAILS_ANY = [
    "o.{A} = {L}",                     # STORE_ATTR
    "{L}[{G}] = {K}",                  # STORE_SUBSCR
    "{G}.{A}",                         # LOAD_GLOBAL, LOAD_ATTR, POP_TOP
    "{G}({K})",                        # CALL, POP_TOP
    "del o.{A}",                       # DELETE_ATTR
    "del {L}[{G}]",                    # DELETE_SUBSCR
    "raise {G}(o.{A})",                # CALL + RAISE_VARARGS
    "raise {G}",                       # LOAD_GLOBAL + RAISE_VARARGS
    "{L}, {L}x = o.{A}",               # UNPACK_SEQUENCE
    "{L} += o.{A}",                    # BINARY_OP (inplace) + STORE
    "assert o.{A}, {G}",               # LOAD_ASSERTION_ERROR ... RAISE
    "import {G}",                      # IMPORT_NAME
    "from {G} import {A}",             # IMPORT_FROM
    "{L} = o.{A} if {G} else {K}",     # conditional: jumps inside the range
    "{L} = [u.{A} for u in {G} if u]", # inlined comprehension: FOR_ITER with cache inside the range
    "{L} = lambda: o.{A}",             # MAKE_FUNCTION
]
TAILS_GEN = ["yield o.{A}", "{L} = yield {G}", "yield from o.{A}"]
TAILS_ASYNC = ["await o.{A}", "return await {G}({L})", "{L} = [u async for u in o.{A}]"]

WRAPPERS = ["try-except", "try-finally", "try-except-else-finally", "try-except-star", "with", "with-as-multi",
            "for-try", "while-try", "match-try", "try-in-try", "try-in-except", "try-in-finally", "if-try-branch",
            "handler-return-then-branch", "try-for-else", "try-while-break"]


ASYNC_WRAPPERS = ["try-async-for", "try-stmt-async-for-stmt", "async-for-try", "async-with-try-async-for"]


class BigGen:
  """One large function / module body."""

  def __init__(self, r):
    self.r = r
    self.n = 0

  def fresh(self, p):
    self.n += 1
    return "%s%d" % (p, self.n)

  def tail(self, kind, tails, big):
    t = self.r.choice(tails)
    # big: fresh names (index >= 256 after the prelude); small: the first few names of the code object
    if big:
      return t.format(A=self.fresh("a"), G=self.fresh("g"), L=self.fresh("v"), K=str(100000 + self.n))
    return t.format(A="a0", G="g0", L="v0", K="1")

  def prelude(self, n, ind):
    p = "  " * ind
    out = []
    for _ in range(n):
      i = self.fresh("")
      out.append(p + "v%s = g%s.a%s + %d" % (i, i, i, 1000 + self.n))
    return out

  def wrap(self, w, body, ind, in_func, exit_stmt):
    """`body` is a list of unindented statement texts that becomes the END of the protected range."""
    r = self.r
    p = "  " * ind
    q = p + "  "
    c = self.fresh("c")
    B = lambda k=1: ["  " * (ind + k) + s for s in body]
    pre = [q + "%s.%s()" % (self.fresh("g"), self.fresh("m"))] if r.random() < 0.5 else []
    h = exit_stmt
    if w == "try-except":
      return [p + "try:"] + pre + B() + [p + "except %s:" % self.fresh("E"), q + r.choice(["pass", h, "raise"])]
    if w == "try-finally":
      return [p + "try:"] + pre + B() + [p + "finally:", q + "%s()" % self.fresh("g")]
    if w == "try-except-else-finally":
      return [p + "try:"] + pre + B() + [p + "except (%s, %s) as ex:" % (self.fresh("E"), self.fresh("E")), q + h,
                                         p + "else:", q + "%s = 1" % self.fresh("v"),
                                         p + "finally:", q + "%s()" % self.fresh("g")]
    if w == "try-except-star":
      return [p + "try:"] + pre + B() + [p + "except* %s:" % self.fresh("E"), q + "pass"]
    if w == "with":
      return [p + "with %s:" % self.fresh("g")] + pre + B()
    if w == "with-as-multi":
      return [p + "with %s() as %s, o.%s as %s:" % (self.fresh("g"), self.fresh("v"), self.fresh("a"), self.fresh("v"))] \
          + pre + B()
    if w == "for-try":
      return [p + "for %s in %s:" % (self.fresh("v"), self.fresh("g")), q + "try:"] + B(2) + \
             [q + "except %s:" % self.fresh("E"), q + "  " + r.choice(["continue", "break", "pass"])]
    if w == "while-try":
      return [p + "while %s:" % c, q + "try:"] + B(2) + [q + "finally:", q + "  %s -= 1" % c]
    if w == "match-try":
      return [p + "match %s:" % self.fresh("g"), q + "case [%s, *_]:" % self.fresh("v"), q + "  try:"] + B(3) + \
             [q + "  except %s:" % self.fresh("E"), q + "    pass", q + "case {'k': %s}:" % self.fresh("v")] + B(2) + \
             [q + "case _:", q + "  pass"]
    if w == "try-in-try":
      return [p + "try:", q + "try:"] + B(2) + [q + "except %s:" % self.fresh("E"), q + "  " + h,
                                                 p + "except %s:" % self.fresh("E"), q + "raise"]
    if w == "try-in-except":
      return [p + "try:", q + "%s()" % self.fresh("g"), p + "except %s:" % self.fresh("E"), q + "try:"] + B(2) + \
             [q + "except %s:" % self.fresh("E"), q + "  pass"]
    if w == "try-in-finally":
      return [p + "try:", q + "%s()" % self.fresh("g"), p + "finally:", q + "try:"] + B(2) + \
             [q + "except %s:" % self.fresh("E"), q + "  pass"]
    if w == "if-try-branch":
      # the try body STARTS with a branch and follows a join: block = [SETUP_EXCEPT_311 ... jump]
      return [p + "if %s:" % c, q + "%s()" % self.fresh("g"), p + "try:", q + "if %s.%s:" % (self.fresh("g"), self.fresh("a"))] + \
             B(2) + [q + "%s()" % self.fresh("g"), p + "except %s:" % self.fresh("E"), q + h]
    if w == "handler-return-then-branch":
      # handlers leave (return/raise); the statement after the try starts with a branch
      return [p + "try:"] + pre + B() + [p + "except %s:" % self.fresh("E"), q + h,
                                         p + "except %s:" % self.fresh("E"), q + "raise %s" % self.fresh("E"),
                                         p + "if %s and %s:" % (self.fresh("g"), self.fresh("g")), q + "%s()" % self.fresh("g"),
                                         p + "try:", q + "while %s:" % self.fresh("g")] + B(2) + \
             [p + "except %s:" % self.fresh("E"), q + h]
    if w == "try-for-else":
      return [p + "try:", q + "for %s in o.%s:" % (self.fresh("v"), self.fresh("a")), q + "  if %s: break" % self.fresh("g"),
              q + "else:"] + B(2) + [p + "except %s:" % self.fresh("E"), q + "pass"]
    if w == "try-while-break":
      return [p + "try:", q + "while True:", q + "  if %s: break" % self.fresh("g")] + B(2) + \
             [p + "except %s:" % self.fresh("E"), q + h]
    # async-only: the loop header GET_AITER / GET_ANEXT is the FIRST or the LAST thing of a protected range, so the
    # synthetic SETUP_EXCEPT_311 / POP_BLOCK sit directly next to the opcodes the 3.12 async-for surgery special-cases
    if w == "try-async-for":
      return [p + "try:", q + "async for %s in o.%s:" % (self.fresh("v"), self.fresh("a"))] + B(2) + \
             [p + "except %s:" % self.fresh("E"), q + h]
    if w == "try-stmt-async-for-stmt":
      return [p + "try:", q + "%s = 0" % self.fresh("v"), q + "async for %s in o.%s:" % (self.fresh("v"), self.fresh("a"))] + B(2) + \
             [q + "%s()" % self.fresh("g"), p + "except (%s, %s):" % (self.fresh("E"), self.fresh("E")), q + h, p + "finally:", q + "%s()" % self.fresh("g")]
    if w == "async-for-try":
      return [p + "async for %s in o.%s:" % (self.fresh("v"), self.fresh("a")), q + "try:"] + B(2) + \
             [q + "except %s:" % self.fresh("E"), q + "  " + r.choice(["continue", "break", "pass"])]
    if w == "async-with-try-async-for":
      return [p + "async with o.%s as %s:" % (self.fresh("a"), self.fresh("v")), q + "try:",
              q + "  async for %s in %s:" % (self.fresh("v"), self.fresh("g"))] + B(3) + [q + "finally:", q + "  %s()" % self.fresh("g")]
    raise ValueError(w)

  def function(self, name, kind, big, wrappers):
    r = self.r
    head = {"plain": "def %s(o, v0):", "gen": "def %s(o, v0):", "async": "async def %s(o, v0):",
            "method": "def %s(o, v0):"}[kind] % name
    out = [head]
    if big:
      out += self.prelude(r.randint(300, 330), 1)
    tails = TAILS_FUNC + TAILS_ANY + (TAILS_GEN if kind == "gen" else []) + (TAILS_ASYNC if kind == "async" else [])
    exit_stmt = r.choice(["return", "return o.%s" % self.fresh("a"), "raise"]) if kind != "gen" else "return"
    # an enclosing loop / long if-elif chain so that the jumps over the constructs exceed 255 code units
    out.append("  while %s:" % self.fresh("g"))
    first = True
    for w in wrappers:
      for t in r.sample(tails, 3):
        body = [t.format(A=self.fresh("a"), G=self.fresh("g"), L=self.fresh("v"), K=str(100000 + self.n))
                if big else t.format(A="a0", G="g0", L="v0", K="1")]
        if "global " in body[0] and not big:
          body = ["o.a0 = v0"]
        out.append("    %s %s:" % ("if" if first else "elif", self.fresh("g")))
        first = False
        out += self.wrap(w, body, 3, True, exit_stmt)
    out.append("    else:")
    out.append("      break")
    if kind == "gen":
      out.append("  yield v0")
    out.append("  return v0" if kind != "gen" else "  return")
    return out


def big_program(r, big=True):
  """A module with one large function per few wrappers (plain / generator / async), optionally a large module body."""
  g = BigGen(r)
  ws = list(WRAPPERS)
  r.shuffle(ws)
  out = []
  k = 0
  for kind in ("plain", "gen", "async"):
    take = ws[k:k + 5] if kind == "plain" else r.sample(WRAPPERS, 3)
    if kind == "async":
      take = take + r.sample(ASYNC_WRAPPERS, 2)
    k += 5
    out += g.function("big_%s" % kind, kind, big, take)
    out.append("")
  # the remaining wrappers in a second plain function
  out += g.function("big_rest", "plain", big, ws[5:])
  out.append("")
  if r.random() < 0.5:
    # large module body: STORE_NAME / LOAD_NAME with indices >= 256
    if big:
      out += g.prelude(300, 0)
    for w in r.sample(WRAPPERS, 4):
      t = r.choice(TAILS_ANY)
      body = [t.format(A=g.fresh("a"), G=g.fresh("g"), L=g.fresh("v"), K=str(100000 + g.n))]
      if "global " in body[0]:
        body = ["o.%s = 1" % g.fresh("a")]
      if w in ("for-try",):
        out += g.wrap(w, body, 0, False, "pass")
      else:
        out += g.wrap(w, body, 0, False, "raise")
  return "\n".join(out) + "\n"


# ---------------------------------------------------------------------------------------------------
# adjacent and nested exception ranges: the synthetic POP_BLOCK of one entry sits right next to the synthetic
# SETUP_EXCEPT_311 of the following one (try in try followed by a statement, try in a loop in a try, with in try,
# consecutive try statements), with last body statements of every inline-cache width (pass / assignment / call /
# attribute / subscript / binary op / await).

LAST_STMTS = ["pass", "{v} = {w}", "{v} = 1", "{g}()", "{g}({w})", "o.{a}", "o.{a} = {w}", "{v} = o.{a}", "{v}[{w}]",
              "{v} = {w} + 1", "{v} += 1", "{v} = {w} < 2", "del {v}", "{v}, {w} = {w}, {v}", "o.{a}({w})",
              "{v} = [{w}]", "{v} = {g}", "return", "return {w}", "raise", "raise {g}", "continue", "break",
              "assert {w}", "{v} = {w} if {g} else 0", "{v} = -{w}", "global {g}x"]


def adjacent_ranges_program(r, n_funcs=6):
  k = [0]

  def nm(p):
    k[0] += 1
    return "%s%d" % (p, k[0])

  def last(ind, in_loop, is_async):
    while True:
      t = r.choice(LAST_STMTS + (["await {g}()", "{v} = await {w}"] if is_async else []))
      if t in ("continue", "break") and not in_loop:
        continue
      if t.startswith("global"):
        continue
      return "  " * ind + t.format(v=nm("v"), w=r.choice(["a", "b", "o"]), g=nm("g"), a=nm("a"))

  def handler(ind, in_loop):
    return "  " * ind + r.choice(["pass", "raise", "return", "return 1", nm("g") + "()"] +
                                 (["continue", "break"] if in_loop else []))

  def try_stmt(ind, depth, in_loop, is_async):
    """try whose body is [optional stmts] + optional nested construct + a last statement"""
    p = "  " * ind
    out = [p + "try:"]
    shape = r.choice(["plain", "nested-first", "nested-last", "nested-mid", "loop", "with", "two-nested"]) \
        if depth < 3 else "plain"
    if shape == "plain":
      if r.random() < 0.5:
        while True:
          st = last(ind + 1, in_loop, is_async)
          if st.strip().split()[0] not in ("return", "raise", "continue", "break"):
            break
        out.append(st)
      out.append(last(ind + 1, in_loop, is_async))
    elif shape == "nested-first":
      out += try_stmt(ind + 1, depth + 1, in_loop, is_async)
      out.append(last(ind + 1, in_loop, is_async))          # a statement of the outer try directly after the inner
    elif shape == "nested-last":
      out.append("  " * (ind + 1) + nm("g") + "()")
      out += try_stmt(ind + 1, depth + 1, in_loop, is_async)
    elif shape == "nested-mid":
      out.append("  " * (ind + 1) + "%s = 1" % nm("v"))
      out += try_stmt(ind + 1, depth + 1, in_loop, is_async)
      out.append(last(ind + 1, in_loop, is_async))
    elif shape == "two-nested":
      out += try_stmt(ind + 1, depth + 1, in_loop, is_async)
      out += try_stmt(ind + 1, depth + 1, in_loop, is_async)
    elif shape == "loop":
      out.append("  " * (ind + 1) + r.choice(["for %s in a:" % nm("v"), "while %s:" % nm("g")]))
      out += try_stmt(ind + 2, depth + 1, True, is_async)
      if r.random() < 0.5:
        out.append(last(ind + 2, True, is_async))
      if r.random() < 0.5:
        out.append(last(ind + 1, in_loop, is_async))
    else:
      out.append("  " * (ind + 1) + "%swith %s%s:" % ("async " if is_async and r.random() < 0.4 else "", nm("g"),
                                                    r.choice(["", " as " + nm("v")])))
      if r.random() < 0.5:
        out += try_stmt(ind + 2, depth + 1, in_loop, is_async)
      out.append(last(ind + 2, in_loop, is_async))
      if r.random() < 0.5:
        out.append(last(ind + 1, in_loop, is_async))
    j = r.random()
    if j < 0.25:
      out += [p + "finally:", "  " * (ind + 1) + nm("g") + "()"]
    else:
      for _ in range(r.randint(1, 2)):
        out += [p + "except %s%s:" % (nm("E"), r.choice(["", " as ex"])), handler(ind + 1, in_loop)]
      if j < 0.4:
        out += [p + "else:", last(ind + 1, in_loop, is_async)]
      if j > 0.8:
        out += [p + "finally:", "  " * (ind + 1) + "%s = 0" % nm("v")]
    return out

  out = []
  for i in range(n_funcs):
    is_async = r.random() < 0.3
    out.append("%sdef adj%d(o, a, b):" % ("async " if is_async else "", i))
    for _ in range(r.randint(1, 3)):                           # consecutive try statements
      out += try_stmt(1, 0, False, is_async)
    out.append("  return a")
    out.append("")
  return "\n".join(out) + "\n"
