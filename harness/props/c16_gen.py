"""Generator of syntactically valid Python 3.12 programs with rich control flow for C16.

The programs are only compiled (never run), so names need not be bound.  Every random choice comes from the
`random.Random` passed in.  Function kinds are fixed up front (plain / generator / async / async generator) so
that yield / await / return-with-value are only generated where the compiler accepts them.
"""

NAMES = ["a", "b", "c", "d", "e", "x", "y", "z"]


class Ctx:
  __slots__ = ("kind", "in_loop", "in_func", "no_jump")

  def __init__(self, kind=None, in_loop=False, in_func=False, no_jump=False):
    self.kind = kind          # None (module/class) | "plain" | "gen" | "async" | "asyncgen"
    self.in_loop = in_loop
    self.in_func = in_func
    self.no_jump = no_jump    # inside except*: no break/continue/return

  def loop(self):
    return Ctx(self.kind, True, self.in_func, self.no_jump)

  def star(self):
    return Ctx(self.kind, False, self.in_func, True)

  @property
  def is_async(self):
    return self.kind in ("async", "asyncgen")


class Gen:
  """One program."""

  def __init__(self, r, max_depth=4):
    self.r = r
    self.max_depth = max_depth
    self.nfun = 0
    self.in_comp = 0
    self.npat = 0
    self.cleanup_depth = 0    # nesting of finally / with (CPython duplicates their exit code on every path)

  # ---- expressions
  def name(self):
    return self.r.choice(NAMES)

  def atom(self):
    k = self.r.random()
    if k < 0.5:
      return self.name()
    if k < 0.7:
      return str(self.r.randint(0, 9))
    if k < 0.8:
      return self.r.choice(["None", "True", "False", "'s'", "b'b'", "1.5"])
    if k < 0.9:
      return "%s.%s" % (self.name(), self.r.choice(["p", "q"]))
    return "%s[%s]" % (self.name(), self.r.randint(0, 3))

  def expr(self, ctx, depth=0):
    r = self.r
    if depth >= 3:
      return self.atom()
    k = r.random()
    e = lambda: self.expr(ctx, depth + 1)
    if k < 0.25:
      return self.atom()
    if k < 0.35:
      return "%s %s %s" % (e(), r.choice(["+", "-", "*", "//", "%", "&", "|"]), e())
    if k < 0.45:
      return "(%s %s %s)" % (e(), r.choice(["and", "or"]), e())
    if k < 0.50:
      return "(not %s)" % e()
    if k < 0.58:
      ops = [r.choice(["<", "<=", "==", "!=", "is", "is not", "in", "not in"]) for _ in range(r.randint(1, 3))]
      return "(" + e() + "".join(" %s %s" % (o, e()) for o in ops) + ")"
    if k < 0.66:
      return "(%s if %s else %s)" % (e(), e(), e())
    if k < 0.76:
      args = [e() for _ in range(r.randint(0, 3))]
      if r.random() < 0.2:
        args.append("*" + self.name())
      if r.random() < 0.2:
        args.append("k=" + e())
      if r.random() < 0.1:
        args.append("**" + self.name())
      return "%s(%s)" % (r.choice(["g", "h", self.name() + ".m"]), ", ".join(args))
    if k < 0.84:
      return self.comprehension(ctx, depth)
    if k < 0.87:
      return "(lambda %s: %s)" % (r.choice(["", "u", "u, v=1", "*u", "u, /, v", "**kw"]),
                                  self.expr(Ctx("plain", False, True), depth + 1))
    if k < 0.90 and not self.in_comp:
      return "(%s := %s)" % (self.name(), e())
    if k < 0.93:
      return "f'{%s}-{%s!r:>{%s}}'" % (self.name(), self.name(), self.name())
    if k < 0.96:
      return r.choice(["[%s, *%s]", "(%s, %s)", "{%s: %s}", "{%s, %s}"]) % (e(), self.name())
    if ctx.is_async and k < 0.99:
      return "(await %s)" % e()
    if ctx.kind in ("gen", "asyncgen") and depth == 0:
      return "(yield %s)" % self.atom()
    return self.atom()

  def comprehension(self, ctx, depth):
    self.in_comp += 1
    try:
      return self._comprehension(ctx, depth)
    finally:
      self.in_comp -= 1

  def _comprehension(self, ctx, depth):
    r = self.r
    n = r.randint(1, 2)
    clauses = []
    for _ in range(n):
      is_async = ctx.is_async and r.random() < 0.35
      c = "%sfor %s in %s" % ("async " if is_async else "", r.choice(["u", "v", "(u, v)", "w"]),
                             self.expr(ctx, depth + 2))
      for _ in range(r.choice([0, 0, 1, 2])):
        c += " if %s" % self.expr(ctx, depth + 2)
      clauses.append(c)
    body = self.expr(ctx, depth + 2)
    if ctx.is_async and r.random() < 0.2:
      body = "await " + body
    kind = r.randint(0, 3)
    tail = " ".join(clauses)
    if kind == 0:
      return "[%s %s]" % (body, tail)
    if kind == 1:
      return "{%s %s}" % (body, tail)
    if kind == 2:
      return "{%s: %s %s}" % (body, self.atom(), tail)
    return "(%s %s)" % (body, tail)

  # ---- statements
  def block(self, ctx, depth, ind, lo=1, hi=3):
    out = []
    for _ in range(self.r.randint(lo, hi)):
      out.extend(self.stmt(ctx, depth, ind))
    return out

  def pattern(self, depth=0, capture=True):
    r = self.r
    k = r.random()
    if depth >= 2 or k < 0.3:
      return r.choice(["0", "1", "'s'", "None", "True", "K.c"])
    if k < 0.45 and capture:
      self.npat += 1
      star = r.choice(["_", "rest%d" % self.npat])
      return "[%s, *%s]" % (self.pattern(depth + 1, capture), star)
    if k < 0.55:
      return "{'k': %s}" % self.pattern(depth + 1, capture)
    if k < 0.65:
      return "C(%s, f=%s)" % (self.pattern(depth + 1, capture), self.pattern(depth + 1, capture))
    if k < 0.80:
      return "%s | %s" % (self.pattern(depth + 1, False), self.pattern(depth + 1, False))
    if k < 0.90 and capture:
      self.npat += 1
      return "(%s, %s) as t%d" % (self.pattern(depth + 1, False), self.pattern(depth + 1, False), self.npat)
    return "[%s, %s]" % (self.pattern(depth + 1, False), self.pattern(depth + 1, False))

  def stmt(self, ctx, depth, ind):
    r = self.r
    p = "  " * ind
    deep = depth >= self.max_depth
    k = r.random()
    E = lambda: self.expr(ctx)
    B = lambda c=ctx, lo=1, hi=(3 if depth < 2 else 2): self.block(c, depth + 1, ind + 1, lo, hi)
    if deep or k < 0.16:
      j = r.random()
      if j < 0.4:
        return [p + "%s = %s" % (r.choice([self.name(), "%s, %s" % (self.name(), self.name()),
                                           "%s, *%s" % (self.name(), self.name()), self.name() + ".p",
                                           self.name() + "[0]"]), E())]
      if j < 0.55:
        return [p + "%s %s= %s" % (self.name(), r.choice(["+", "-", "*", "|"]), E())]
      if j < 0.8:
        return [p + E()]
      if j < 0.86:
        return [p + "assert %s, %s" % (E(), E())]
      if j < 0.9:
        return [p + "del %s" % self.name()]
      if j < 0.94:
        return [p + "%s: int = %s" % (self.name(), E())]
      return [p + "pass"]
    if k < 0.28:
      out = [p + "if %s:" % E()] + B()
      for _ in range(r.choice([0, 0, 1, 2])):
        out += [p + "elif %s:" % E()] + B()
      if r.random() < 0.5:
        out += [p + "else:"] + B()
      return out
    if k < 0.36:
      out = [p + "while %s:" % r.choice([E(), "True", "1", E()])] + B(ctx.loop())
      if r.random() < 0.3:
        out += [p + "else:"] + B()
      return out
    if k < 0.46:
      out = [p + "for %s in %s:" % (r.choice([self.name(), "%s, %s" % (self.name(), self.name())]), E())] + B(ctx.loop())
      if r.random() < 0.3:
        out += [p + "else:"] + B()
      return out
    if k < 0.65 and self.cleanup_depth >= 2:
      k = 0.2                  # too deep for another finally/with: emit an if instead
      out = [p + "if %s:" % E()] + B()
      return out
    if k < 0.58:
      self.cleanup_depth += 1
      try:
        return self.try_stmt(ctx, depth, ind, B, E)
      finally:
        self.cleanup_depth -= 1
    if k < 0.65:
      self.cleanup_depth += 1
      try:
        items = ", ".join("%s%s" % (E(), r.choice(["", " as " + self.name()])) for _ in range(r.randint(1, 3)))
        return [p + "%swith %s:" % ("async " if ctx.is_async and r.random() < 0.5 else "", items)] + B()
      finally:
        self.cleanup_depth -= 1
    if k < 0.70:
      return self.match_stmt(ctx, depth, ind, E)
    return self.stmt_tail(ctx, depth, ind, k, B, E)

  def try_stmt(self, ctx, depth, ind, B, E):
    r = self.r
    p = "  " * ind
    if True:
      j = r.random()
      out = [p + "try:"] + B()
      if j < 0.15:
        return out + [p + "finally:"] + B()
      if j < 0.27:
        # except* : no break/continue/return in the handlers
        for _ in range(r.randint(1, 2)):
          out += [p + "except* %s%s:" % (r.choice(["E1", "(E1, E2)", "E3"]), r.choice(["", " as ex"]))] + B(ctx.star())
        if r.random() < 0.3:
          out += [p + "else:"] + B()
        if r.random() < 0.3:
          out += [p + "finally:"] + B()
        return out
      for _ in range(r.randint(1, 3)):
        out += [p + "except %s%s:" % (r.choice(["E1", "(E1, E2)", "E3", "Exception"]), r.choice(["", " as ex"]))] + B()
      if r.random() < 0.2:
        out += [p + "except:"] + B()
      if r.random() < 0.3:
        out += [p + "else:"] + B()
      if r.random() < 0.4:
        out += [p + "finally:"] + B()
      return out

  def match_stmt(self, ctx, depth, ind, E):
    r = self.r
    p = "  " * ind
    if True:
      out = [p + "match %s:" % E()]
      n = r.randint(1, 4)
      for i in range(n):
        last = i == n - 1
        pat = self.pattern()
        if last and r.random() < 0.5:
          pat = r.choice(["_", "other"])
        guard = " if %s" % E() if r.random() < 0.3 else ""
        out += [p + "  case %s%s:" % (pat, guard)] + self.block(ctx, depth + 2, ind + 2)
      return out

  def stmt_tail(self, ctx, depth, ind, k, B, E):
    r = self.r
    p = "  " * ind
    if k < 0.76 and ctx.in_loop and not ctx.no_jump:
      return [p + r.choice(["break", "continue", "continue"])]
    if k < 0.80 and ctx.in_func and not ctx.no_jump:
      if ctx.kind == "asyncgen" or r.random() < 0.3:
        return [p + "return"]
      return [p + "return " + E()]
    if k < 0.84:
      return [p + r.choice(["raise", "raise %s" % E(), "raise %s from %s" % (E(), E())])]
    if k < 0.88 and ctx.is_async:
      j = r.random()
      if j < 0.55:
        out = [p + "async for %s in %s:" % (self.name(), E())] + B(ctx.loop())
        if r.random() < 0.3:
          out += [p + "else:"] + B()
        return out
      if j < 0.8:
        return [p + "%s = await %s" % (self.name(), E())]
      return [p + "await %s" % E()]
    if k < 0.91 and ctx.kind in ("gen", "asyncgen"):
      if ctx.kind == "gen" and r.random() < 0.4:
        return [p + "%s = yield from %s" % (self.name(), E())]
      return [p + r.choice(["yield", "yield %s" % E(), "%s = yield %s" % (self.name(), E())])]
    if k < 0.97 and depth < self.max_depth - 1:
      return self.funcdef(ctx, depth, ind)
    if k < 0.99 and depth < self.max_depth - 1:
      self.nfun += 1
      out = [p + "class C%d%s:" % (self.nfun, r.choice(["", "(B)", "(B, metaclass=M)"]))]
      return out + self.block(Ctx(None, False, False), depth + 1, ind + 1)
    return [p + "%s = %s" % (self.name(), E())]

  def funcdef(self, ctx, depth, ind):
    r = self.r
    p = "  " * ind
    self.nfun += 1
    kind = r.choice(["plain", "plain", "gen", "async", "async", "asyncgen"])
    args = r.choice(["", "a", "a, b=1", "a, *b, c=2, **d", "a, /, b, *, c", "self"])
    deco = [p + "@" + r.choice(["dec", "dec(1)", "a.b"])] if r.random() < 0.2 else []
    head = p + "%sdef f%d(%s)%s:" % ("async " if kind in ("async", "asyncgen") else "", self.nfun, args,
                                    r.choice(["", "", " -> int"]))
    body = self.block(Ctx(kind, False, True), depth + 1, ind + 1, 1, 4)
    if kind in ("gen", "asyncgen"):
      body.append("  " * (ind + 1) + "yield " + self.atom())
    return deco + [head] + body


def program(r, size=None):
  g = Gen(r, max_depth=r.choice([2, 3, 3, 4]))
  ctx = Ctx(None, False, False)
  out = []
  for _ in range(size or r.randint(1, 4)):
    if r.random() < 0.6:
      out.extend(g.funcdef(ctx, 0, 0))
    else:
      out.extend(g.stmt(ctx, 0, 0))
  return "\n".join(out) + "\n"
